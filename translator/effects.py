"""T4b: in-place statements of the NumPy engine and of the element layer, with the provenance of
their target.

An in-place statement is an augmented assignment, a store into a subscript, a `del` of a
subscript, a call of a mutating container / array method (`d.setdefault`, `d.update`, `l.append`,
`a.fill`, ...) or a NumPy call with an `out=` argument.  Its target variable is
  fresh   - bound, on every path reaching the statement, to a value the function itself created:
            the result of an arithmetic expression, of a NumPy / engine call, a literal, a dict or
            list display, or a constant-index element of a vector (a NumPy scalar: immutable, so
            `x += ...` re-binds);
  aliased - a parameter, or bound from a plain name, attribute, dictionary look-up or conditional
            expression involving one (it may be the caller's array).
`self.<slot>[key] = value` / `del self.<slot>[key]` (the element's own variable dictionaries) are
recorded as `own`.
Fail-closed: a target shape the analysis does not understand raises Unsupported.
"""
import ast
import os

from translator.tables import Unsupported

MUTATING = {"setdefault", "update", "pop", "popitem", "clear", "append", "extend", "insert", "remove", "sort",
            "reverse", "fill", "put", "itemset", "resize", "add", "discard", "__setitem__", "__delitem__",
            "__iadd__", "setflags", "partition"}
FILES = ["engines/numpy.py", "engines/casadi.py", "blocks/base.py", "blocks/links.py", "blocks/nodes.py", "blocks/origins.py",
         "blocks/destinations.py", "network.py"]


NP_ALLOC = {"sum", "square", "exp", "log", "power", "minimum", "maximum", "hstack", "empty", "full", "zeros",
            "ones", "array", "asarray_chkfinite"}
RETURNS_FRESH = set()          # (class, method) of primitives whose return values are all fresh expressions


def compute_returns_fresh(tree):
    for cls in [n for n in tree.body if isinstance(n, ast.ClassDef)]:
        for fn in [n for n in cls.body if isinstance(n, ast.FunctionDef)]:
            rets = [n for n in ast.walk(fn) if isinstance(n, ast.Return) and n.value is not None]
            if rets and all(isinstance(r.value, (ast.BinOp, ast.UnaryOp)) or
                            (isinstance(r.value, ast.Call) and isinstance(r.value.func, ast.Attribute)
                             and isinstance(r.value.func.value, ast.Name) and r.value.func.value.id == "np"
                             and r.value.func.attr in NP_ALLOC) for r in rets):
                RETURNS_FRESH.add((cls.name, fn.name))


def fresh_expr(e, env):
    """does evaluating e create a new value?"""
    if isinstance(e, (ast.BinOp, ast.UnaryOp, ast.Constant, ast.Dict, ast.List, ast.Tuple, ast.ListComp,
                      ast.DictComp, ast.JoinedStr, ast.Compare, ast.BoolOp, ast.GeneratorExp)):
        return True
    if isinstance(e, ast.Call):
        # only calls known to allocate: NumPy functions, dict/list/set constructors, and primitives
        # of the same module whose every return value is itself a fresh expression.  Any other
        # call (element methods, engine primitives such as get_simplifiedramp_flow, which may
        # return one of their arguments) is treated as possibly returning caller data.
        f = e.func
        if isinstance(f, ast.Attribute) and isinstance(f.value, ast.Name) and f.value.id == "np" \
                and f.attr in NP_ALLOC:
            return True
        if isinstance(f, ast.Attribute) and isinstance(f.value, ast.Name) and f.value.id == "cs":
            return True               # CasADi functions build a new expression
        if isinstance(f, ast.Name) and f.id in ("dict", "list", "set", "tuple", "count", "len", "float", "int"):
            return True
        if isinstance(f, ast.Attribute) and isinstance(f.value, ast.Name) \
                and (f.value.id, f.attr) in RETURNS_FRESH:
            return True
        return False
    if isinstance(e, ast.Subscript):
        # x[0], x[-1]: an element of a vector (a NumPy scalar or a fresh CasADi entry);
        # x[1:], x[:-1], x[name]: views / other objects -> aliased
        s = e.slice
        if isinstance(s, ast.Constant) and isinstance(s.value, int):
            return True
        if isinstance(s, ast.UnaryOp) and isinstance(s.operand, ast.Constant):
            return True
        return False
    if isinstance(e, ast.Name):
        return env.get(e.id, False)
    if isinstance(e, ast.IfExp):
        return fresh_expr(e.body, env) and fresh_expr(e.orelse, env)
    return False


HELPER_ARGS = {}        # private module-level helper -> [fresh? per positional parameter] joined over its call sites


def analyse_function(fn, where, out, helper_calls=None):
    env = {}            # name -> fresh?
    for i, a in enumerate(fn.args.args + fn.args.kwonlyargs):
        env[a.arg] = False
        if fn.name in HELPER_ARGS and i < len(HELPER_ARGS[fn.name]):
            env[a.arg] = HELPER_ARGS[fn.name][i]
    if fn.args.vararg:
        env[fn.args.vararg.arg] = False
    if fn.args.kwarg:
        env[fn.args.kwarg.arg] = False

    def target_base(t):
        while isinstance(t, ast.Subscript):
            t = t.value
        return t

    def base_kind(b, env):
        while isinstance(b, (ast.Subscript,)):
            b = b.value
        if isinstance(b, ast.Name):
            return "fresh" if env.get(b.id, False) else "aliased"
        if isinstance(b, ast.Attribute):
            r = b
            while isinstance(r, (ast.Attribute, ast.Subscript)):
                r = r.value
            if isinstance(r, ast.Name) and r.id == "self":
                return "own"
            return "aliased"
        if isinstance(b, ast.Call):
            return "fresh" if fresh_expr(b, env) else "aliased"
        return "fresh" if fresh_expr(b, env) else "aliased"

    def scan_calls(node, env, st):
        """mutating method calls and out= arguments inside an expression / simple statement"""
        for n in ast.walk(node):
            if not isinstance(n, ast.Call):
                continue
            f = n.func
            txt = ast.unparse(n).split("\n")[0][:70].replace('"', "'")
            if isinstance(f, ast.Attribute) and f.attr in MUTATING:
                recv = f.value
                if isinstance(recv, ast.Name) and recv.id in ("np", "cs", "self", "super"):
                    continue
                out.append((where, txt, base_kind(recv, env)))
            for kw in n.keywords:
                if kw.arg == "out":
                    out.append((where, txt, base_kind(kw.value, env)))
            if helper_calls is not None and isinstance(f, ast.Name) and f.id.startswith("_"):
                helper_calls.setdefault(f.id, []).append([fresh_expr(a, env) for a in n.args])

    def visit(stmts, env):
        for st in stmts:
            if isinstance(st, (ast.Assign, ast.AnnAssign, ast.AugAssign, ast.Expr, ast.Return, ast.Delete, ast.Assert,
                               ast.Raise)):
                scan_calls(st, env, st)
            elif isinstance(st, (ast.If, ast.While)):
                scan_calls(st.test, env, st)
            elif isinstance(st, ast.For):
                scan_calls(st.iter, env, st)
            elif isinstance(st, ast.With):
                for it in st.items:
                    scan_calls(it.context_expr, env, st)
            if isinstance(st, ast.Assign):
                for tg in st.targets:
                    if isinstance(tg, ast.Name):
                        env[tg.id] = fresh_expr(st.value, env)
                    elif isinstance(tg, ast.Tuple):
                        vals = st.value.elts if isinstance(st.value, (ast.Tuple, ast.List)) \
                            and len(st.value.elts) == len(tg.elts) else None
                        for j, el in enumerate(tg.elts):
                            if isinstance(el, ast.Name):
                                env[el.id] = fresh_expr(vals[j], env) if vals is not None else isinstance(st.value, ast.Call)
                    elif isinstance(tg, ast.Subscript):
                        base = target_base(tg)
                        record(st, base, env)
                    elif isinstance(tg, ast.Attribute):
                        # self.x = ...: rebinding one of the object's own slots; other.x = ...: a store into
                        # another object (an element parameter, say) - recorded with that object's provenance
                        r = tg.value
                        while isinstance(r, (ast.Attribute, ast.Subscript)):
                            r = r.value
                        if not (isinstance(r, ast.Name) and r.id in ("self", "cls")):
                            record(st, tg.value, env)
                    else:
                        raise Unsupported(f"{where}: assignment target {ast.dump(tg)[:60]}")
            elif isinstance(st, ast.AnnAssign):
                if isinstance(st.target, ast.Name) and st.value is not None:
                    env[st.target.id] = fresh_expr(st.value, env)
            elif isinstance(st, ast.AugAssign):
                base = target_base(st.target)
                if isinstance(st.target, ast.Name) and isinstance(st.value, (ast.Constant, ast.JoinedStr)) \
                        and isinstance(getattr(st.value, "value", ""), str):
                    continue                      # name += "text": strings are immutable, this re-binds
                record(st, base, env)
                if isinstance(st.target, ast.Name):
                    pass                          # provenance unchanged (in place or re-bound)
            elif isinstance(st, ast.Delete):
                for tg in st.targets:
                    if isinstance(tg, ast.Subscript):
                        record(st, target_base(tg), env)
            elif isinstance(st, ast.If):
                e1, e2 = dict(env), dict(env)
                visit(st.body, e1)
                visit(st.orelse, e2)
                for k in set(e1) | set(e2):
                    env[k] = e1.get(k, False) and e2.get(k, False)
            elif isinstance(st, (ast.For, ast.While)):
                if isinstance(st, ast.For):
                    for n in ast.walk(st.target):
                        if isinstance(n, ast.Name):
                            env[n.id] = False
                    # a loop over a display of local values: `for g in (a, b)`, `for x, g in [(x, a), (u, b)]`
                    if isinstance(st.iter, (ast.List, ast.Tuple)) and st.iter.elts:
                        if isinstance(st.target, ast.Name):
                            env[st.target.id] = all(fresh_expr(e, env) for e in st.iter.elts)
                        elif isinstance(st.target, ast.Tuple) and all(
                                isinstance(e, ast.Tuple) and len(e.elts) == len(st.target.elts) for e in st.iter.elts):
                            for j, tn in enumerate(st.target.elts):
                                if isinstance(tn, ast.Name):
                                    env[tn.id] = all(fresh_expr(e.elts[j], env) for e in st.iter.elts)
                e1 = dict(env)
                visit(st.body, e1)
                for k in set(e1):
                    env[k] = env.get(k, False) and e1[k] if k in env else False
                visit(st.orelse, env)
            elif isinstance(st, (ast.With, ast.Try)):
                visit(getattr(st, "body", []), env)
                for h in getattr(st, "handlers", []):
                    visit(h.body, env)
                visit(getattr(st, "orelse", []), env)
                visit(getattr(st, "finalbody", []), env)
            elif isinstance(st, (ast.FunctionDef, ast.ClassDef)):
                continue

    def record(st, base, env):
        txt = ast.unparse(st).split("\n")[0][:70].replace('"', "'")
        if isinstance(base, ast.Name):
            kind = "fresh" if env.get(base.id, False) else "aliased"
        elif isinstance(base, ast.Attribute) and isinstance(base.value, ast.Name) and base.value.id == "self":
            kind = "own"
        elif isinstance(base, ast.Attribute):
            kind = "aliased"
        elif isinstance(base, ast.Call):
            kind = "aliased"          # e.g. self.nodes[node][KEY] = ...  (the graph's own attribute dict)
            if isinstance(base.func, ast.Attribute):
                kind = "own"
        else:
            raise Unsupported(f"{where}: in-place target {ast.dump(base)[:60]}")
        out.append((where, txt, kind))

    visit(fn.body, env)


def translate(repo):
    out = []
    for f in FILES:
        tree = ast.parse(open(os.path.join(repo, "src/sym_metanet", f)).read())
        RETURNS_FRESH.clear()
        compute_returns_fresh(tree)
        helper_calls = {}
        HELPER_ARGS.clear()
        for cls in [n for n in tree.body if isinstance(n, ast.ClassDef)]:
            for fn in [n for n in cls.body if isinstance(n, ast.FunctionDef)]:
                analyse_function(fn, f"{cls.name}.{fn.name}", out, helper_calls)
        # module-level functions: a private helper (leading underscore) that is only ever called by name in this
        # module gets, per positional parameter, the provenance joined over its call sites; anything else is
        # analysed like a public entry point (every parameter may be the caller's)
        top = [n for n in tree.body if isinstance(n, ast.FunctionDef)]
        for _round in range(3):          # helpers calling helpers
            scratch = []
            for fn in top:
                analyse_function(fn, fn.name, scratch, helper_calls)
            for name, calls in helper_calls.items():
                n_ = max(len(c) for c in calls)
                HELPER_ARGS[name] = [all(c[i] for c in calls if i < len(c)) and all(i < len(c) for c in calls)
                                     for i in range(n_)]
        escaped = set()
        for n in ast.walk(tree):
            # a helper referenced other than as the callee of a direct call (passed around, decorated) is public
            if isinstance(n, ast.Name) and n.id in HELPER_ARGS and isinstance(n.ctx, ast.Load):
                escaped.add(n.id)
        for n in ast.walk(tree):
            if isinstance(n, ast.Call) and isinstance(n.func, ast.Name):
                escaped.discard(n.func.id) if False else None
        direct = {}
        for n in ast.walk(tree):
            if isinstance(n, ast.Call) and isinstance(n.func, ast.Name) and n.func.id in HELPER_ARGS:
                direct[n.func.id] = direct.get(n.func.id, 0) + 1
        loads = {}
        for n in ast.walk(tree):
            if isinstance(n, ast.Name) and n.id in HELPER_ARGS and isinstance(n.ctx, ast.Load):
                loads[n.id] = loads.get(n.id, 0) + 1
        for name in list(HELPER_ARGS):
            if loads.get(name, 0) != direct.get(name, 0):
                del HELPER_ARGS[name]
        for fn in top:
            analyse_function(fn, fn.name, out)
    lines = ["(* in-place statements: (function, statement, target provenance) *)",
             "Inductive provenance := PFresh | POwn | PAliased.",
             "Definition gen_effects : list (string * string * provenance) :=", "  ["]
    lines.append(";\n".join(f'   ("{a}", "{b}", {dict(fresh="PFresh", own="POwn", aliased="PAliased")[c]})'
                            for (a, b, c) in out))
    lines += ["  ].", ""]
    return lines


if __name__ == "__main__":
    import sys
    print("\n".join(translate(sys.argv[1] if len(sys.argv) > 1 else "/repo")))
