#!/usr/bin/env python3
"""T3/T4: fail-closed extraction of the small tables the code states declaratively.

T3  network.py   -> invalidation table of the decorated construction calls, set of cached look-ups
    blocks/*.py  -> declared variable groups per element class (_states/_actions/_disturbances)
T4  blocks/*.py, network.py -> engine-forwarding call sites (caller, callee, Fwd | Drop)

Output: gen/Tables.v.  Anything outside the expected shapes raises Unsupported.
"""
import ast
import os


class Unsupported(Exception):
    pass


KEYS = {"nodes_by_name": "KNodesByName", "links_by_name": "KLinksByName", "nodes_by_link": "KNodesByLink",
        "origins": "KOrigins", "origins_by_name": "KOriginsByName", "origins_by_node": "KOriginsByNode",
        "destinations": "KDests", "destinations_by_name": "KDestsByName",
        "destinations_by_node": "KDestsByNode"}
VIEWS = {"links", "in_links"}          # cached wrappers around live networkx views
KINDS = {"add_node": "KAddNode", "add_nodes": "KAddNodes", "add_link": "KAddLink",
         "add_links": "KAddLinks", "add_origin": "KAddOrigin", "add_destination": "KAddDestination"}
# the call each decorated method makes on the graph (checked: a changed body is not modelled)
UNDECORATED_OK = {"add_path"}          # composed of decorated calls


def class_def(tree, name):
    for n in tree.body:
        if isinstance(n, ast.ClassDef) and n.name == name:
            return n
    raise Unsupported(f"class {name} not found")


def deco_name(d):
    if isinstance(d, ast.Name):
        return d.id, None
    if isinstance(d, ast.Call) and isinstance(d.func, ast.Name):
        return d.func.id, d
    if isinstance(d, ast.Attribute):
        return d.attr, None
    return None, None


def invalidation_table(repo):
    src = open(os.path.join(repo, "src/sym_metanet/network.py")).read()
    tree = ast.parse(src)
    net = class_def(tree, "Network")
    cached = []
    table = {}
    for fn in net.body:
        if not isinstance(fn, ast.FunctionDef):
            continue
        for d in fn.decorator_list:
            nm, call = deco_name(d)
            if nm == "cached_property":
                cached.append(fn.name)
            elif nm == "invalidate_cache":
                if fn.name not in KINDS:
                    raise Unsupported(f"invalidate_cache on an unmodelled method {fn.name}")
                if call is None or call.keywords:
                    raise Unsupported(f"{fn.name}: unusual invalidate_cache decorator")
                keys = []
                for a in call.args:
                    if not isinstance(a, ast.Name):
                        raise Unsupported(f"{fn.name}: non-name decorator argument")
                    if a.id in VIEWS:
                        continue
                    if a.id not in KEYS:
                        raise Unsupported(f"{fn.name}: invalidates unknown look-up {a.id}")
                    keys.append(KEYS[a.id])
                table[KINDS[fn.name]] = keys
            elif nm in ("property", "wraps", "staticmethod"):
                pass
            elif nm is not None and nm.endswith("setter"):
                pass
            else:
                raise Unsupported(f"{fn.name}: unknown decorator {ast.dump(d)[:80]}")
    extra = set(cached) - set(KEYS) - VIEWS
    missing = set(KEYS) - set(cached)
    if extra:
        raise Unsupported(f"new cached look-up(s) {sorted(extra)} are not modelled")
    if missing:
        raise Unsupported(f"look-up(s) {sorted(missing)} are no longer cached properties")
    for k in KINDS.values():
        table.setdefault(k, [])
    # the mutating methods that are not decorated must be exactly the composed ones
    for fn in net.body:
        if isinstance(fn, ast.FunctionDef) and fn.name.startswith("add_") and fn.name not in KINDS \
                and fn.name not in UNDECORATED_OK:
            raise Unsupported(f"new construction call {fn.name} is not modelled")
    return table, cached


GROUPS = ("_states", "_actions", "_disturbances")
ELEM_CLASSES = {"Link": ("links.py", "ELink"), "LinkWithVsl": ("links.py", "ELinkVsl"),
                "Origin": ("origins.py", "EOrigin"), "MainstreamOrigin": ("origins.py", "EMain"),
                "MeteredOnRamp": ("origins.py", "ERamp"),
                "SimplifiedMeteredOnRamp": ("origins.py", "ESimp"),
                "Destination": ("destinations.py", "EDest"),
                "CongestedDestination": ("destinations.py", "ECong")}


def declared_groups(repo):
    """class -> {group: set of names}, with inheritance resolved (class attributes)"""
    raw = {}
    bases = {}
    for cname, (f, _) in ELEM_CLASSES.items():
        tree = ast.parse(open(os.path.join(repo, "src/sym_metanet/blocks", f)).read())
        c = class_def(tree, cname)
        bs = []
        for b in c.bases:
            b0 = b.value if isinstance(b, ast.Subscript) else b
            if isinstance(b0, ast.Name):
                bs.append(b0.id)
        bases[cname] = bs
        raw[cname] = {}
        for st in c.body:
            if isinstance(st, ast.Assign) and len(st.targets) == 1 and isinstance(st.targets[0], ast.Name) \
                    and st.targets[0].id in GROUPS:
                v = st.value
                if not (isinstance(v, ast.Set) and all(isinstance(e, ast.Constant) and isinstance(e.value, str)
                                                       for e in v.elts)):
                    raise Unsupported(f"{cname}.{st.targets[0].id}: not a literal set of names")
                raw[cname][st.targets[0].id] = sorted(e.value for e in v.elts)
    base_default = {g: [] for g in GROUPS}      # ElementWithVars: empty sets

    def resolve(c, g):
        if g in raw.get(c, {}):
            return raw[c][g]
        for b in bases.get(c, []):
            if b in ELEM_CLASSES:
                return resolve(b, g)
        return base_default[g]
    return {c: {g: resolve(c, g) for g in GROUPS} for c in ELEM_CLASSES}


def translate(repo):
    table, cached = invalidation_table(repo)
    groups = declared_groups(repo)
    out = ["(* GENERATED from network.py / blocks/*.py by translator/tables.py - do not edit *)",
           "From Coq Require Import List String.", "From SM Require Import Graph Construct Cache.",
           "Import ListNotations.", "Local Open Scope string_scope.", "",
           "Definition gen_invalidates (k : pkind) : list ckey :=", "  match k with"]
    for kind in ["KAddNode", "KAddNodes", "KAddLink", "KAddLinks", "KAddOrigin", "KAddDestination"]:
        out.append(f"  | {kind} => [" + "; ".join(table[kind]) + "]")
    out += ["  end.", ""]
    out.append("(* element class -> declares (states, actions, disturbances)? *)")
    out.append("Inductive eclass := " + " | ".join(v[1] for v in ELEM_CLASSES.values()) + ".")
    out.append("Definition gen_declares (c : eclass) : bool * bool * bool :=")
    out.append("  match c with")
    for cname, (_, ctor) in ELEM_CLASSES.items():
        g = groups[cname]
        b = lambda x: "true" if x else "false"
        out.append(f"  | {ctor} => ({b(g['_states'])}, {b(g['_actions'])}, {b(g['_disturbances'])})")
    out += ["  end.", ""]
    from translator import forwarding, effects, facts
    out += forwarding.translate(repo)
    out += effects.translate(repo)
    out += facts.translate(repo)
    return "\n".join(out) + "\n"


if __name__ == "__main__":
    import sys
    print(translate(sys.argv[1] if len(sys.argv) > 1 else "/repo"))
