"""T10: Network.is_valid (network.py) executed symbolically from its AST into Gallina (gen/ValidGen.v).

What is READ from the source on every run: the order of the passes, what every pass iterates over, every
condition (tests, thresholds, conjunctions, the class named in isinstance with its subclasses from
blocks/origins.py), which message every condition reports and for which objects, the counting of pass (1)
(`count.get(o, 0) + 1`, `d > 1`, `count[o] = d`), the generator that yields origins and destinations, and
the returned pair.  proofs/ValidGenTie.v proves the result equal to Validity.is_valid_msgs, the hand-written
model the theorems of C06 (and `validb` everywhere else) are about.

What is TRUSTED (idiom table, as for T6): `self.links` is Graph.links (triples up, down, link),
`self.in_links(n)` / `self.out_links(n)` are Graph.in_links / out_links, `self._graph.nodes.values()` and
`self.nodes.data()` enumerate Graph.g_nodes, `self.origins.items()` / `self.destinations.items()` are
Graph.origins_dict / dests_dict, `ORIGINENTRY in data` is "the node entry has an origin", an edge triple is
truthy (`any(edges)` = non-empty), a message is identified by its constant text, and an object used as a
dictionary key is the model's `elem` (kind + identity).  Any statement or expression outside the accepted
shapes fails closed (the generated file then does not compile)."""
import ast
import os


class Unsupported(Exception):
    pass


KEYS = {"ORIGINENTRY": ("n_orig", "origin"), "DESTINATIONENTRY": ("n_dest", "dest")}
WRAP = {"link": "EL", "origin": "EO", "dest": "ED"}
ORIGIN_KINDS = {"Origin": "OIdeal", "MainstreamOrigin": "OMain", "MeteredOnRamp": "ORamp _",
                "SimplifiedMeteredOnRamp": "OSimp _"}
# constant text of a message (blanks normalised) -> constructor, kinds of the objects named in it, in order
MESSAGES = [
    ("Element {} is duplicated in the network.", "MDup", ["elem"]),
    ("Node {} must either have an origin or a destination, but not both.", "MBoth", ["node"]),
    ("Node {} is connected to no link.", "MIsolated", ["node"]),
    ("Node {} has neither any entering links nor an origin.", "MNoOrigin", ["node"]),
    ("Node {} has neither any exiting links nor a destination.", "MNoDest", ["node"]),
    ("Expected node {} to have no entering links, as it is connected to origin {} (only ramps support entering links).",
     "MOrigIn", ["node", "origin"]),
    ("Expected node {} to have at most one exiting link, as it is connected to origin {}.", "MOrigOut", ["node", "origin"]),
    ("Expected node {} to have at most one entering link, as it is connected to destination {}.", "MDestIn", ["node", "dest"]),
    ("Expected node {} to have no exiting links, as it is connected to destination {}.", "MDestOut", ["node", "dest"]),
]
COQ_T = {"edge": "edge", "entry": "node_entry", "node": "nat", "origin": "nat", "dest": "nat", "link": "nat",
         "elem": "elem", "num": "nat", "bool": "bool"}


def coq_type(t):
    if isinstance(t, tuple) and t[0] == "pair":
        return f"({coq_type(t[1])} * {coq_type(t[2])})"
    if isinstance(t, tuple) and t[0] == "list":
        return f"(list {coq_type(t[1])})"
    return COQ_T[t]


def par(s):
    return s if s.replace("_", "a").isalnum() else f"({s})"


def is_self_attr(e, *path):
    for a in reversed(path):
        if not (isinstance(e, ast.Attribute) and e.attr == a):
            return False
        e = e.value
    return isinstance(e, ast.Name) and e.id == "self"


class Tr:
    def __init__(self, repo):
        self.repo = repo
        self.defs = []          # emitted definitions
        self.generators = {}    # nested generator name -> (coq name, elem type)
        src = open(os.path.join(repo, "src/sym_metanet/blocks/origins.py")).read()
        self.bases = {}
        for c in ast.parse(src).body:
            if isinstance(c, ast.ClassDef):
                b = c.bases[0] if c.bases else None
                if isinstance(b, ast.Subscript):
                    b = b.value
                self.bases[c.name] = b.id if isinstance(b, ast.Name) else None

    def origin_subclasses(self, c):
        if c not in ORIGIN_KINDS:
            raise Unsupported(f"isinstance against {c}: not an origin class")
        out = []
        for d in ORIGIN_KINDS:
            if d not in self.bases:
                raise Unsupported(f"origin class {d} not found in blocks/origins.py")
            x = d
            while x is not None and x != c:
                x = self.bases.get(x)
            if x == c:
                out.append(d)
        return out

    # ---------------- expressions ----------------
    def to_elem(self, v):
        s, t = v
        if t == "elem":
            return v
        if t in WRAP:
            return f"{WRAP[t]} {par(s)}", "elem"
        raise Unsupported(f"a {t} used as a dictionary key / counted object")

    def list_to_elem(self, v):
        s, t = v
        if t == ("list", "elem"):
            return v
        if isinstance(t, tuple) and t[0] == "list" and t[1] in WRAP:
            return f"map {WRAP[t[1]]} {par(s)}", ("list", "elem")
        raise Unsupported(f"cannot chain a {t} with objects of other kinds")

    def expr(self, e, env):
        if isinstance(e, ast.Name):
            if e.id in env:
                if env[e.id] is None:
                    raise Unsupported(f"{e.id} used outside the loop that binds it")
                return env[e.id]
            if e.id in KEYS:
                return e.id, "key"
            raise Unsupported(f"unknown name {e.id}")
        if isinstance(e, ast.Constant) and isinstance(e.value, int) and not isinstance(e.value, bool) and 0 <= e.value < 1000:
            return str(e.value), "num"
        if is_self_attr(e, "links") or is_self_attr(e, "out_links"):
            return "links g", ("list", "edge")
        if isinstance(e, ast.Subscript) and isinstance(e.slice, ast.Constant) and isinstance(e.slice.value, int):
            s, t = self.expr(e.value, env)
            if t == "edge" and e.slice.value in (0, 1, 2):
                return (f"{('e_up', 'e_down', 'e_link')[e.slice.value]} {par(s)}", ("node", "node", "link")[e.slice.value])
            raise Unsupported(f"subscript {ast.unparse(e)}")
        if isinstance(e, ast.GeneratorExp):
            if len(e.generators) != 1 or e.generators[0].ifs or e.generators[0].is_async:
                raise Unsupported("generator expression with a filter or several loops")
            it, t = self.expr(e.generators[0].iter, env)
            if not (isinstance(t, tuple) and t[0] == "list"):
                raise Unsupported("generator expression over a non-list")
            tgt = e.generators[0].target
            if not isinstance(tgt, ast.Name):
                raise Unsupported("generator expression with a tuple target")
            env2 = dict(env)
            env2[tgt.id] = (tgt.id, t[1])
            s, te = self.expr(e.elt, env2)
            return f"map (fun {tgt.id} => {s}) {par(it)}", ("list", te)
        if isinstance(e, ast.Call):
            return self.call(e, env)
        if isinstance(e, ast.Compare) and len(e.ops) == 1:
            op = e.ops[0]
            a, ta = self.expr(e.left, env)
            b, tb = self.expr(e.comparators[0], env)
            if isinstance(op, (ast.In, ast.NotIn)):
                if ta == "key" and tb == "entry":
                    s = f"is_some ({KEYS[a][0]} {par(b)})"
                    return (s if isinstance(op, ast.In) else f"negb ({s})"), "bool"
                raise Unsupported(f"membership test {ast.unparse(e)}")
            if ta == tb == "num":
                table = {ast.Eq: f"Nat.eqb {par(a)} {par(b)}", ast.NotEq: f"negb (Nat.eqb {par(a)} {par(b)})",
                         ast.Gt: f"Nat.ltb {par(b)} {par(a)}", ast.Lt: f"Nat.ltb {par(a)} {par(b)}",
                         ast.GtE: f"Nat.leb {par(b)} {par(a)}", ast.LtE: f"Nat.leb {par(a)} {par(b)}"}
                if type(op) in table:
                    return table[type(op)], "bool"
            raise Unsupported(f"comparison {ast.unparse(e)}")
        if isinstance(e, ast.BoolOp):
            vs = [self.expr(x, env) for x in e.values]
            if any(t != "bool" for _, t in vs):
                raise Unsupported(f"non-boolean operand in {ast.unparse(e)}")
            return f" {'&&' if isinstance(e.op, ast.And) else '||'} ".join(par(s) for s, _ in vs), "bool"
        if isinstance(e, ast.UnaryOp) and isinstance(e.op, ast.Not):
            s, t = self.expr(e.operand, env)
            if t != "bool":
                raise Unsupported(f"`not` of a non-boolean in {ast.unparse(e)}")
            return f"negb {par(s)}", "bool"
        if isinstance(e, ast.BinOp) and isinstance(e.op, ast.Add):
            a, ta = self.expr(e.left, env)
            b, tb = self.expr(e.right, env)
            if ta == tb == "num":
                return f"{par(a)} + {par(b)}", "num"
        raise Unsupported(f"expression {ast.unparse(e)[:60]!r}")

    def call(self, e, env):
        f = e.func
        if e.keywords:
            raise Unsupported(f"keyword arguments in {ast.unparse(e)[:60]!r}")
        if isinstance(f, ast.Attribute) and len(e.args) == 1 and (is_self_attr(f, "in_links") or is_self_attr(f, "out_links")):
            s, t = self.expr(e.args[0], env)
            if t != "node":
                raise Unsupported(f"{f.attr} of a {t}")
            return f"{f.attr} g {par(s)}", ("list", "edge")
        if isinstance(f, ast.Attribute) and not e.args:
            if f.attr == "values" and is_self_attr(f.value, "_graph", "nodes"):
                return "g_nodes g", ("list", "entry")
            if f.attr == "data" and (is_self_attr(f.value, "nodes") or is_self_attr(f.value, "_graph", "nodes")):
                return "map (fun ne => (nid ne, ne)) (g_nodes g)", ("list", ("pair", "node", "entry"))
            if f.attr == "items" and is_self_attr(f.value, "origins"):
                return "origins_dict g", ("list", ("pair", "origin", "node"))
            if f.attr == "items" and is_self_attr(f.value, "destinations"):
                return "dests_dict g", ("list", ("pair", "dest", "node"))
        if isinstance(f, ast.Attribute) and f.attr == "get" and len(e.args) == 2:
            d, td = self.expr(f.value, env)
            if td == "cnt":
                k, _ = self.to_elem(self.expr(e.args[0], env))
                z, tz = self.expr(e.args[1], env)
                if tz == "num":
                    return f"cnt_get {par(d)} {par(k)} {par(z)}", "num"
        if isinstance(f, ast.Name):
            if f.id in self.generators and not e.args:
                return self.generators[f.id]
            if f.id == "len" and len(e.args) == 1:
                s, t = self.expr(e.args[0], env)
                if isinstance(t, tuple) and t[0] == "list":
                    return f"length {par(s)}", "num"
            if f.id == "any" and len(e.args) == 1:
                s, t = self.expr(e.args[0], env)
                if t == ("list", "edge"):          # an edge triple is truthy
                    return f"negb (isnil {par(s)})", "bool"
            if f.id == "iter" and len(e.args) == 1:
                return self.expr(e.args[0], env)
            if f.id == "chain" and e.args:
                vs = [self.expr(a, env) for a in e.args]
                if any(not (isinstance(t, tuple) and t[0] == "list") for _, t in vs):
                    raise Unsupported("chain of a non-list")
                if len({t for _, t in vs}) > 1:
                    vs = [self.list_to_elem(v) for v in vs]
                return " ++ ".join(par(s) for s, _ in vs), vs[0][1]
            if f.id == "isinstance" and len(e.args) == 2 and isinstance(e.args[1], ast.Name):
                s, t = self.expr(e.args[0], env)
                if t == "origin":
                    ks = [ORIGIN_KINDS[c] for c in self.origin_subclasses(e.args[1].id)]
                    return f"match okind_of U {par(s)} with {' | '.join(ks)} => true" + \
                        (" | _ => false end" if len(ks) < len(ORIGIN_KINDS) else " end"), "bool"
        raise Unsupported(f"call {ast.unparse(e)[:60]!r}")

    # ---------------- messages ----------------
    def message(self, e, env):
        parts = []

        def flat(x):
            if isinstance(x, ast.BinOp) and isinstance(x.op, ast.Add):
                flat(x.left)
                flat(x.right)
            elif isinstance(x, ast.JoinedStr):
                for v in x.values:
                    flat(v)
            elif isinstance(x, ast.FormattedValue) and x.conversion == -1 and x.format_spec is None:
                flat(x.value)
            elif isinstance(x, ast.Constant) and isinstance(x.value, str):
                parts.append(x.value)
            elif isinstance(x, ast.Attribute) and x.attr == "name" and isinstance(x.value, ast.Name):
                parts.append(x.value)
            else:
                raise Unsupported(f"message part {ast.unparse(x)[:40]!r}")
        flat(e)
        text = " ".join("".join(p if isinstance(p, str) else "{}" for p in parts).split())
        objs = [p for p in parts if not isinstance(p, str)]
        for t, ctor, kinds in MESSAGES:
            if t == text:
                args = []
                for o, k in zip(objs, kinds):
                    s, to = self.expr(o, env)
                    if k == "elem":
                        s, to = self.to_elem((s, to))
                    if to != k:
                        raise Unsupported(f"message {ctor} names a {to} where a {k} is documented")
                    args.append(par(s))
                if len(objs) != len(kinds):
                    raise Unsupported(f"message {ctor} names {len(objs)} objects")
                return f"{ctor} {' '.join(args)}"
        raise Unsupported(f"unknown message text {text[:60]!r}")

    # ---------------- statements of a loop body ----------------
    def bind(self, tgt, v, env, lets):
        """bind a loop / assignment target to value v = (coq, type)"""
        s, t = v
        if isinstance(tgt, ast.Name):
            lets.append(f"let {tgt.id} := {s} in")
            env[tgt.id] = (tgt.id, t)
        elif isinstance(tgt, ast.Tuple) and len(tgt.elts) == 2 and isinstance(t, tuple) and t[0] == "pair" \
                and all(isinstance(x, ast.Name) for x in tgt.elts):
            a, b = (x.id for x in tgt.elts)
            lets.append(f"let '({a}, {b}) := {s} in")
            env[a] = (a, t[1])
            env[b] = (b, t[2])
        else:
            raise Unsupported(f"target {ast.unparse(tgt)} for a {t}")

    def body(self, stmts, env, lets, local):
        i = 0
        while i < len(stmts):
            st = stmts[i]
            i += 1
            if isinstance(st, ast.Assign) and len(st.targets) == 1:
                tgt = st.targets[0]
                if isinstance(tgt, ast.Name):
                    if tgt.id in ("msgs", "raises", "self"):
                        raise Unsupported(f"assignment to {tgt.id} inside a loop")
                    self.bind(tgt, self.expr(st.value, env), env, lets)
                    local.add(tgt.id)
                elif isinstance(tgt, ast.Tuple) and isinstance(st.value, ast.Tuple) and len(tgt.elts) == len(st.value.elts) \
                        and all(isinstance(x, ast.Name) for x in tgt.elts):
                    vals = [self.expr(x, env) for x in st.value.elts]      # right-hand sides first
                    for x, v in zip(tgt.elts, vals):
                        self.bind(x, v, env, lets)
                        local.add(x.id)
                elif isinstance(tgt, ast.Subscript) and isinstance(tgt.value, ast.Name) and env.get(tgt.value.id, (0, 0))[1] == "cnt":
                    k, _ = self.to_elem(self.expr(tgt.slice, env))
                    v, tv = self.expr(st.value, env)
                    if tv != "num":
                        raise Unsupported("a count that is not a number")
                    c = tgt.value.id
                    lets.append(f"let {c} := cnt_set {c} {par(k)} {par(v)} in")
                else:
                    raise Unsupported(f"assignment {ast.unparse(st)[:60]!r}")
            elif isinstance(st, ast.If) and not st.orelse:
                c, tc = self.expr(st.test, env)
                if tc != "bool":
                    raise Unsupported(f"condition {ast.unparse(st.test)[:60]!r} is not a boolean")
                b = st.body
                ok = len(b) in (1, 2) and isinstance(b[0], ast.Expr) and isinstance(b[0].value, ast.Call) \
                    and isinstance(b[0].value.func, ast.Attribute) and b[0].value.func.attr == "append" \
                    and isinstance(b[0].value.func.value, ast.Name) and b[0].value.func.value.id == "msgs" \
                    and len(b[0].value.args) == 1 and not b[0].value.keywords
                if ok and len(b) == 2:
                    r = b[1]
                    ok = isinstance(r, ast.If) and isinstance(r.test, ast.Name) and r.test.id == "raises" and not r.orelse \
                        and len(r.body) == 1 and isinstance(r.body[0], ast.Raise) and r.body[0].cause is None \
                        and ast.unparse(r.body[0].exc) == "InvalidNetworkError(msgs[-1])"
                if not ok:
                    raise Unsupported(f"the body of `if {ast.unparse(st.test)[:40]}` is not `msgs.append(..)` "
                                      "[+ `if raises: raise InvalidNetworkError(msgs[-1])`]")
                m = self.message(b[0].value.args[0], env)
                lets.append(f"let msgs := if {c} then msgs ++ [{m}] else msgs in")
            else:
                raise Unsupported(f"statement {ast.unparse(st)[:60]!r}")

    # ---------------- the nested generator ----------------
    def generator(self, fn, env):
        if fn.args.args or fn.args.kwonlyargs or fn.args.vararg or fn.args.kwarg or fn.decorator_list:
            raise Unsupported(f"nested function {fn.name} with parameters / decorators")
        if len(fn.body) != 1 or not isinstance(fn.body[0], ast.For) or fn.body[0].orelse:
            raise Unsupported(f"nested function {fn.name}: not a single for loop")
        loop = fn.body[0]
        it = loop.iter
        if not (isinstance(it, ast.Call) and isinstance(it.func, ast.Name) and it.func.id == "product" and len(it.args) == 2
                and isinstance(it.args[1], ast.Tuple) and all(isinstance(k, ast.Name) and k.id in KEYS for k in it.args[1].elts)
                and isinstance(loop.target, ast.Tuple) and len(loop.target.elts) == 2
                and all(isinstance(x, ast.Name) for x in loop.target.elts)):
            raise Unsupported(f"nested function {fn.name}: not `for a, key in product(<nodes>, (<entry keys>))`")
        src, t = self.expr(it.args[0], env)
        if t != ("list", "entry"):
            raise Unsupported(f"nested function {fn.name}: product over a {t}")
        dv, kv = (x.id for x in loop.target.elts)
        pieces = []
        for key in it.args[1].elts:             # the constant tuple is unrolled: product varies it fastest
            b = loop.body
            ok = len(b) == 1 and isinstance(b[0], ast.If) and not b[0].orelse and len(b[0].body) == 1 \
                and isinstance(b[0].body[0], ast.Expr) and isinstance(b[0].body[0].value, ast.Yield)
            if ok:
                tst, y = b[0].test, b[0].body[0].value.value
                ok = isinstance(tst, ast.Compare) and len(tst.ops) == 1 and isinstance(tst.ops[0], ast.In) \
                    and isinstance(tst.left, ast.Name) and tst.left.id == kv \
                    and isinstance(tst.comparators[0], ast.Name) and tst.comparators[0].id == dv \
                    and isinstance(y, ast.Subscript) and isinstance(y.value, ast.Name) and y.value.id == dv \
                    and isinstance(y.slice, ast.Name) and y.slice.id == kv
            if not ok:
                raise Unsupported(f"nested function {fn.name}: body is not `if key in data: yield data[key]`")
            fld, kind = KEYS[key.id]
            pieces.append(f"opt_list {WRAP[kind]} ({fld} {dv})")
        name = f"gen_yield_{fn.name}"
        self.defs.append(f"Definition {name} (g : graph) : list elem :=\n  flat_map (fun {dv} => {' ++ '.join(pieces)}) {par(src)}.")
        self.generators[fn.name] = (f"{name} g", ("list", "elem"))

    # ---------------- the function ----------------
    def translate(self):
        tree = ast.parse(open(os.path.join(self.repo, "src/sym_metanet/network.py")).read())
        cls = next((c for c in tree.body if isinstance(c, ast.ClassDef) and c.name == "Network"), None)
        fn = next((f for f in (cls.body if cls else []) if isinstance(f, ast.FunctionDef) and f.name == "is_valid"), None)
        if fn is None:
            raise Unsupported("Network.is_valid not found")
        if [a.arg for a in fn.args.args] != ["self", "raises"] or fn.args.vararg or fn.args.kwarg or fn.args.kwonlyargs:
            raise Unsupported("Network.is_valid: parameters are not (self, raises)")
        if len(fn.args.defaults) != 1 or not (isinstance(fn.args.defaults[0], ast.Constant) and fn.args.defaults[0].value is False):
            raise Unsupported("Network.is_valid: the default of `raises` is not False")
        for node in ast.walk(fn):
            if isinstance(node, (ast.Break, ast.Continue, ast.Try, ast.While, ast.With, ast.Global, ast.Nonlocal, ast.Delete)):
                raise Unsupported(f"Network.is_valid: {type(node).__name__} statement")
        env = {}
        top = []                 # the let-chain of gen_is_valid_msgs
        state = []               # mutable variables, in order of creation
        nloop = 0
        returned = False
        for st in fn.body:
            if returned:
                raise Unsupported("statements after the return")
            if isinstance(st, ast.Expr) and isinstance(st.value, ast.Constant) and isinstance(st.value.value, str):
                continue
            if isinstance(st, ast.FunctionDef):
                self.generator(st, env)
                continue
            if isinstance(st, (ast.Assign, ast.AnnAssign)):
                tgt = st.targets[0] if isinstance(st, ast.Assign) and len(st.targets) == 1 else getattr(st, "target", None)
                v = st.value
                if isinstance(tgt, ast.Name) and tgt.id not in env and isinstance(v, ast.List) and not v.elts and tgt.id == "msgs":
                    env["msgs"] = ("msgs", "msgs")
                    top.append("let msgs := @nil msg in")
                    state.append("msgs")
                    continue
                if isinstance(tgt, ast.Name) and tgt.id not in env and tgt.id != "msgs" and isinstance(v, ast.Dict) and not v.keys:
                    env[tgt.id] = (tgt.id, "cnt")
                    top.append(f"let {tgt.id} := @nil (elem * nat) in")
                    state.append(tgt.id)
                    continue
                raise Unsupported(f"top-level assignment {ast.unparse(st)[:60]!r}")
            if isinstance(st, ast.For) and not st.orelse:
                if "msgs" not in env:
                    raise Unsupported("a pass before `msgs = []`")
                nloop += 1
                it, t = self.expr(st.iter, env)
                if not (isinstance(t, tuple) and t[0] == "list"):
                    raise Unsupported(f"pass {nloop} iterates over a non-list")
                benv = dict(env)
                lets, local = [], set()
                x = f"x{nloop}"
                if isinstance(st.target, ast.Name) and t[1] in WRAP and any(
                        isinstance(n, ast.Name) and env.get(n.id, (0, 0))[1] == "cnt" for n in ast.walk(st)):
                    it, t = self.list_to_elem((it, t))
                self.bind(st.target, (x, t[1]), benv, lets)
                self.body(st.body, benv, lets, local)
                used = sorted(v for v in state if any(
                    (isinstance(n, ast.Name) and n.id == v) for b in st.body for n in ast.walk(b)))
                if "msgs" not in used:
                    raise Unsupported(f"pass {nloop} reports nothing")
                used = [v for v in used if v != "msgs"] + ["msgs"]
                if len(used) > 2:
                    raise Unsupported(f"pass {nloop} carries more than two mutable variables")
                sty = "list msg" if len(used) == 1 else "(list (elem * nat) * list msg)"
                pat = used[0] if len(used) == 1 else f"'({used[0]}, {used[1]})"
                res = used[0] if len(used) == 1 else f"({used[0]}, {used[1]})"
                self.defs.append(f"Definition gen_pass{nloop}_iter (g : graph) : list {coq_type(t[1])} :=\n  {it}.")
                unp = "" if len(used) == 1 else f"  let {pat} := st in\n"
                arg = "msgs" if len(used) == 1 else "st"
                self.defs.append(
                    f"Definition gen_pass{nloop}_body (g : graph) ({arg} : {sty}) ({x} : {coq_type(t[1])}) : {sty} :=\n"
                    + unp + "".join(f"  {l}\n" for l in lets) + f"  {res}.")
                top.append(f"let {pat} := fold_left (gen_pass{nloop}_body g) (gen_pass{nloop}_iter g) {res} in")
                for v in local | {n.id for n in ast.walk(st.target) if isinstance(n, ast.Name)}:
                    env[v] = None       # Python leaks loop variables; the model does not follow them
                continue
            if isinstance(st, ast.Return):
                if ast.unparse(st.value) != "(not msgs, msgs)":
                    raise Unsupported(f"is_valid returns {ast.unparse(st.value)[:40]!r}, not `not msgs, msgs`")
                returned = True
                continue
            raise Unsupported(f"top-level statement {ast.unparse(st)[:60]!r}")
        if not returned:
            raise Unsupported("is_valid does not return `not msgs, msgs`")
        out = ["(* GENERATED on every run by translator/validity.py (T10) from src/sym_metanet/network.py::Network.is_valid *)",
               "From Coq Require Import List Arith Bool.",
               "From SM Require Import Graph Types Validity ValidSupport.",
               "Import ListNotations.", "",
               "Section Gen.", "Variable U : universe.", ""]
        out += [d + "\n" for d in self.defs]
        out.append("Definition gen_is_valid_msgs (g : graph) : list msg :=\n" + "".join(f"  {l}\n" for l in top) + "  msgs.")
        out.append("")
        out.append(f"Definition gen_number_of_passes : nat := {nloop}.")
        out += ["End Gen.", ""]
        return "\n".join(out)


def translate(repo):
    return Tr(repo).translate()


if __name__ == "__main__":
    import sys
    print(translate(sys.argv[1] if len(sys.argv) > 1 else "/repo"))
