#!/usr/bin/env python3
"""T7: what every element class's init_vars does, as a list of effects -> gen/InitVars.v.

init_vars is read statement by statement (a `super().init_vars(...)` is replaced by the effects of the method it
resolves to, provided the call hands on the caller's init_conditions, engine and every positive_init_* flag under its
own name).  The only statements accepted are

    if init_conditions is None: init_conditions = {}           (nothing)
    if engine is None: engine = get_current_engine()            (nothing)
    self.<group> = { name: <given-or-new> ... }                 ESet   (a NEW dictionary; also the comprehension over a
                                                                        literal tuple of names)
    self.next_states = None                                     EResetNext
    if <flag>: self.<group>[name] = engine.max(0, self.<group>[name])   EClamp
    del self.<group>[name]                                      EDel
    self.<group>[name] = <given-or-new>                         ESetItem

where <given-or-new> is `init_conditions[name] if name in init_conditions else engine.var(f"{name}_{self.name}"[, size])`
(or its mirrored form with `init_conditions is None or name not in init_conditions`), size being nothing, self.N or
len(self.vsl).  Anything else (setdefault, get-or, keeping earlier variables, extra clamps, caching ...) raises
Unsupported.
"""
import ast
import os

from translator.tables import ELEM_CLASSES, Unsupported, class_def

FLAGS = ("positive_init_speed", "positive_init_density", "positive_init_queue")
GROUPS = ("states", "actions", "disturbances")


def _self_attr(n, attrs):
    return isinstance(n, ast.Attribute) and isinstance(n.value, ast.Name) and n.value.id == "self" and n.attr in attrs


def _size(args, where):
    if len(args) == 1:
        return "SOne"
    if len(args) == 2:
        a = args[1]
        if _self_attr(a, ("N",)):
            return "SSegments"
        if isinstance(a, ast.Call) and isinstance(a.func, ast.Name) and a.func.id == "len" and len(a.args) == 1 \
                and _self_attr(a.args[0], ("vsl",)):
            return "SSigns"
    raise Unsupported(f"{where}: size of a created variable")


def _is_var(n, key, where):
    """engine.var(f"{key}_{self.name}"[, size]) -> size"""
    if not (isinstance(n, ast.Call) and isinstance(n.func, ast.Attribute) and n.func.attr == "var"
            and isinstance(n.func.value, ast.Name) and n.func.value.id == "engine" and not n.keywords and n.args):
        raise Unsupported(f"{where}: the created variable is not engine.var(...)")
    f = n.args[0]
    ok = isinstance(f, ast.JoinedStr) and len(f.values) == 3 and isinstance(f.values[1], ast.Constant) \
        and f.values[1].value == "_" and isinstance(f.values[2], ast.FormattedValue) and _self_attr(f.values[2].value, ("name",))
    if ok:
        first = f.values[0]
        if isinstance(key, str):
            ok = isinstance(first, ast.Constant) and first.value == key
        else:       # the comprehension variable
            ok = isinstance(first, ast.FormattedValue) and isinstance(first.value, ast.Name) and first.value.id == key.id
    elif isinstance(key, str) and isinstance(f, ast.JoinedStr) and len(f.values) == 2 and isinstance(f.values[0], ast.Constant) \
            and f.values[0].value == key + "_" and isinstance(f.values[1], ast.FormattedValue) and _self_attr(f.values[1].value, ("name",)):
        ok = True
    if not ok:
        raise Unsupported(f"{where}: name of the created variable")
    return _size(n.args, where)


def _same_key(n, key):
    if isinstance(key, str):
        return isinstance(n, ast.Constant) and n.value == key
    return isinstance(n, ast.Name) and n.id == key.id


def _given(n, key):
    return isinstance(n, ast.Subscript) and isinstance(n.value, ast.Name) and n.value.id == "init_conditions" \
        and _same_key(n.slice, key)


def given_or_new(n, key, where):
    """-> size"""
    if not isinstance(n, ast.IfExp):
        raise Unsupported(f"{where}: a variable that is not `given if given else new`")
    t = n.test
    if isinstance(t, ast.Compare) and len(t.ops) == 1 and isinstance(t.ops[0], ast.In) and _same_key(t.left, key) \
            and isinstance(t.comparators[0], ast.Name) and t.comparators[0].id == "init_conditions" and _given(n.body, key):
        return _is_var(n.orelse, key, where)
    # mirrored: new if init_conditions is None or key not in init_conditions else given
    if isinstance(t, ast.BoolOp) and isinstance(t.op, ast.Or) and len(t.values) == 2:
        a, b = t.values
        if isinstance(a, ast.Compare) and isinstance(a.ops[0], ast.Is) and isinstance(a.left, ast.Name) \
                and a.left.id == "init_conditions" and isinstance(a.comparators[0], ast.Constant) and a.comparators[0].value is None \
                and isinstance(b, ast.Compare) and isinstance(b.ops[0], ast.NotIn) and _same_key(b.left, key) \
                and isinstance(b.comparators[0], ast.Name) and b.comparators[0].id == "init_conditions" and _given(n.orelse, key):
            return _is_var(n.body, key, where)
    raise Unsupported(f"{where}: a variable that is not `given if given else new`")


class T7:
    def __init__(self, repo):
        self.cls = {}
        trees = {}
        for cname, (f, _) in ELEM_CLASSES.items():
            if f not in trees:
                trees[f] = ast.parse(open(os.path.join(repo, "src/sym_metanet/blocks", f)).read())
            c = class_def(trees[f], cname)
            base = None
            for b in c.bases:
                b0 = b.value if isinstance(b, ast.Subscript) else b
                if isinstance(b0, ast.Name) and b0.id in ELEM_CLASSES:
                    base = b0.id
            self.cls[cname] = (c, base)

    def resolve(self, cname):
        while cname is not None:
            c, base = self.cls[cname]
            for fn in c.body:
                if isinstance(fn, ast.FunctionDef) and fn.name == "init_vars":
                    return cname, fn
            cname = base
        return None, None

    def effects(self, cname, depth=0):
        d, fn = self.resolve(cname)
        if fn is None:
            return []              # ElementWithVars.init_vars is abstract: nothing of its own
        if depth > 4:
            raise Unsupported("init_vars delegation too deep")
        where = f"{d}.init_vars"
        if fn.decorator_list:
            raise Unsupported(f"{where}: decorated")
        a = fn.args
        named = [x.arg for x in a.args[1:]] + [x.arg for x in a.kwonlyargs]
        body = [s for s in fn.body if not (isinstance(s, ast.Expr) and isinstance(s.value, ast.Constant))
                and not isinstance(s, ast.Pass)]
        if not body:
            return []
        if named[:2] != ["init_conditions", "engine"]:
            raise Unsupported(f"{where}: parameters {named}")
        for x, dflt in zip(a.args[len(a.args) - len(a.defaults):], a.defaults):
            want = None if x.arg in ("init_conditions", "engine") else False
            if not (isinstance(dflt, ast.Constant) and dflt.value is want):
                raise Unsupported(f"{where}: default of {x.arg}")
        for x in named[2:]:
            if x not in FLAGS:
                raise Unsupported(f"{where}: parameter {x}")
        out = []
        for s in body:
            out += self.stmt(s, d, fn, named, where, depth)
        return out

    def stmt(self, s, d, fn, named, where, depth):
        w = f"{where} line {s.lineno}"
        # defaults of the two optional arguments
        if isinstance(s, ast.If) and not s.orelse and len(s.body) == 1 and isinstance(s.test, ast.Compare) \
                and isinstance(s.test.ops[0], ast.Is) and isinstance(s.test.left, ast.Name) \
                and isinstance(s.test.comparators[0], ast.Constant) and s.test.comparators[0].value is None:
            b = s.body[0]
            if isinstance(b, ast.Assign) and len(b.targets) == 1 and isinstance(b.targets[0], ast.Name) \
                    and b.targets[0].id == s.test.left.id:
                if s.test.left.id == "init_conditions" and isinstance(b.value, ast.Dict) and not b.value.keys:
                    return []
                if s.test.left.id == "engine" and isinstance(b.value, ast.Call) and isinstance(b.value.func, ast.Name) \
                        and b.value.func.id == "get_current_engine" and not b.value.args and not b.value.keywords:
                    return []
        # clamp under a flag
        if isinstance(s, ast.If) and not s.orelse and len(s.body) == 1 and isinstance(s.test, ast.Name) and s.test.id in FLAGS:
            if s.test.id not in named:
                raise Unsupported(f"{w}: flag {s.test.id} is not a parameter")
            b = s.body[0]
            if isinstance(b, ast.Assign) and len(b.targets) == 1 and isinstance(b.targets[0], ast.Subscript) \
                    and _self_attr(b.targets[0].value, GROUPS) and isinstance(b.targets[0].slice, ast.Constant):
                grp, nm = b.targets[0].value.attr, b.targets[0].slice.value
                v = b.value
                if isinstance(v, ast.Call) and isinstance(v.func, ast.Attribute) and v.func.attr == "max" \
                        and isinstance(v.func.value, ast.Name) and v.func.value.id == "engine" and len(v.args) == 2 \
                        and isinstance(v.args[0], ast.Constant) and v.args[0].value == 0 and not v.keywords \
                        and isinstance(v.args[1], ast.Subscript) and _self_attr(v.args[1].value, (grp,)) \
                        and isinstance(v.args[1].slice, ast.Constant) and v.args[1].slice.value == nm:
                    return [f'EClamp "{s.test.id}" "{grp}" "{nm}"']
            raise Unsupported(f"{w}: under {s.test.id}, something else than a clamp of one variable")
        if isinstance(s, (ast.Assign, ast.AnnAssign)):
            tg = s.targets[0] if isinstance(s, ast.Assign) and len(s.targets) == 1 else getattr(s, "target", None)
            v = s.value
            if tg is not None and _self_attr(tg, ("next_states",)) and isinstance(v, ast.Constant) and v.value is None:
                return ["EResetNext"]
            if tg is not None and _self_attr(tg, GROUPS):
                if isinstance(v, ast.Dict) and all(isinstance(k, ast.Constant) and isinstance(k.value, str) for k in v.keys):
                    ents = [(k.value, given_or_new(x, k.value, w)) for k, x in zip(v.keys, v.values)]
                elif isinstance(v, ast.DictComp) and len(v.generators) == 1 and not v.generators[0].ifs \
                        and isinstance(v.generators[0].target, ast.Name) and isinstance(v.key, ast.Name) \
                        and v.key.id == v.generators[0].target.id and isinstance(v.generators[0].iter, ast.Tuple) \
                        and all(isinstance(e, ast.Constant) and isinstance(e.value, str) for e in v.generators[0].iter.elts):
                    sz = given_or_new(v.value, v.key, w)
                    ents = [(e.value, sz) for e in v.generators[0].iter.elts]
                else:
                    raise Unsupported(f"{w}: self.{tg.attr} is not assigned a literal dictionary of given-or-new variables")
                return [f'ESet "{tg.attr}" [' + "; ".join(f'("{k}", FromGivenOrVar "{k}" {sz})' for k, sz in ents) + "]"]
            if tg is not None and isinstance(tg, ast.Subscript) and _self_attr(tg.value, GROUPS) and isinstance(tg.slice, ast.Constant):
                sz = given_or_new(v, tg.slice.value, w)
                return [f'ESetItem "{tg.value.attr}" "{tg.slice.value}" (FromGivenOrVar "{tg.slice.value}" {sz})']
        if isinstance(s, ast.Delete) and len(s.targets) == 1 and isinstance(s.targets[0], ast.Subscript) \
                and _self_attr(s.targets[0].value, GROUPS) and isinstance(s.targets[0].slice, ast.Constant):
            return [f'EDel "{s.targets[0].value.attr}" "{s.targets[0].slice.value}"']
        # delegation
        if isinstance(s, ast.Expr) and isinstance(s.value, ast.Call):
            c = s.value
            f = c.func
            if isinstance(f, ast.Attribute) and f.attr == "init_vars" and isinstance(f.value, ast.Call) \
                    and isinstance(f.value.func, ast.Name) and f.value.func.id == "super" and not f.value.args:
                base = self.cls[d][1]
                bd, bfn = self.resolve(base) if base else (None, None)
                if bfn is None:
                    raise Unsupported(f"{w}: super().init_vars resolves to nothing")
                bnames = [x.arg for x in bfn.args.args[1:]]
                passed = {}
                star_kwargs = False
                pos = [x for x in c.args if not isinstance(x, ast.Starred)]
                for i, x in enumerate(pos):
                    if i >= len(bnames) or not isinstance(x, ast.Name):
                        raise Unsupported(f"{w}: positional argument {i} of super().init_vars")
                    passed[bnames[i]] = x.id
                for k in c.keywords:
                    if k.arg is None:
                        if not (isinstance(k.value, ast.Name) and fn.args.kwarg is not None and k.value.id == fn.args.kwarg.arg):
                            raise Unsupported(f"{w}: ** of something else than the method's own catch-all")
                        star_kwargs = True
                    else:
                        if not isinstance(k.value, ast.Name):
                            raise Unsupported(f"{w}: keyword {k.arg} of super().init_vars")
                        passed[k.arg] = k.value.id
                for x in c.args:
                    if isinstance(x, ast.Starred) and not (isinstance(x.value, ast.Name) and fn.args.vararg is not None
                                                           and x.value.id == fn.args.vararg.arg):
                        raise Unsupported(f"{w}: * of something else than the method's own catch-all")
                for nm in ("init_conditions", "engine"):
                    if passed.get(nm) != nm:
                        raise Unsupported(f"{w}: super().init_vars does not receive the caller's {nm}")
                for fl in [x for x in bnames if x in FLAGS]:
                    if fl in passed:
                        if passed[fl] != fl:
                            raise Unsupported(f"{w}: super().init_vars receives {passed[fl]} as {fl}")
                    elif not (star_kwargs and fl not in named):
                        raise Unsupported(f"{w}: super().init_vars is not handed {fl}")
                return self.effects(base, depth + 1)
        raise Unsupported(f"{w}: statement {ast.unparse(s)[:60]!r} in init_vars")


def translate(repo):
    t = T7(repo)
    rows = []
    for cname, (_, ctor) in ELEM_CLASSES.items():
        effs = t.effects(cname)
        rows.append(f'  ("{cname}", [' + ";\n      ".join(effs) + "])")
    return ("(* GENERATED by translator/initvars.py from the init_vars of blocks/*.py - do not edit *)\n"
            "From Coq Require Import List String.\nFrom SM.specs Require Import InitVars_spec.\n"
            "Import ListNotations.\nOpen Scope string_scope.\n\n"
            "Definition init_effects : list (string * list effect) :=\n  [" + ";\n ".join(r.strip() for r in rows) + "].\n")


if __name__ == "__main__":
    import sys
    print(translate(sys.argv[1] if len(sys.argv) > 1 else "/repo"))
