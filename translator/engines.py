#!/usr/bin/env python3
"""T1/T2: fail-closed translator of the engine primitive classes of
``engines/numpy.py`` and ``engines/casadi.py`` to Gallina.

Every static method of NodesEngine / LinksEngine / OriginsEngine /
DestinationsEngine, plus Engine.vcat / Engine.max, is re-emitted as a
definition polymorphic in ``Num A``.  Types (S scalar, V vector, OS optional
scalar, I index list, STR string) of the *parameters* come from the signature
table below (trusted; it is the shape discipline of the element layer); every
other type is inferred.  Any construct outside the idiom set raises
``Unsupported`` and the caller treats the model as not regenerable.
"""
import ast
import sys
from fractions import Fraction


class Unsupported(Exception):
    pass


# ---------------------------------------------------------------------------
# signature table: class -> method -> list of variants (suffix, {param: type})
SIG = {
    "NodesEngine": {
        "get_upstream_flow": [("", dict(q_lasts="V", beta="S", betas="V", q_orig="OS"))],
        "get_upstream_speed": [("", dict(q_lasts="V", v_lasts="V"))],
        "get_downstream_density": [("", dict(rho_firsts="V"))],
    },
    "LinksEngine": {
        "get_flow": [("", dict(rho="V", v="V", lanes="S"))],
        "step_density": [("", dict(rho="V", q="V", q_up="V", lanes="S", L="S", T="S"))],
        "step_speed": [("", dict(v="V", v_up="V", rho="V", rho_down="V", Veq="V", lanes="S",
                                 L="S", tau="S", eta="S", kappa="S", T="S", q_ramp="OS",
                                 delta="OS", lanes_drop="OS", phi="OS", rho_crit="OS"))],
        "Veq": [("", dict(rho="V", v_free="S", rho_crit="S", a="S")),
                ("_s", dict(rho="S", v_free="S", rho_crit="S", a="S"))],
        "controlled_Veq": [("", dict(rho="V", v_ctrl="V", vsl="I", alpha="S", v_free="S",
                                     rho_crit="S", a="S"))],
    },
    "OriginsEngine": {
        "step_queue": [("", dict(w="S", d="S", q="S", T="S"))],
        "get_mainstream_flow": [("", dict(d="S", w="S", v_ctrl="S", v_first="S", rho_crit="S",
                                          a="S", v_free="S", lanes="S", T="S"))],
        "get_ramp_flow": [("", dict(d="S", w="S", C="S", r="S", rho_max="S", rho_first="S",
                                    rho_crit="S", T="S", type="STR"))],
        "get_simplifiedramp_flow": [("", dict(qdes="S", d="S", w="S", C="S", rho_max="S",
                                              rho_first="S", rho_crit="S", T="S", type="STR"))],
    },
    "DestinationsEngine": {
        "get_congestion_free_downstream_density": [("", dict(rho_last="S", rho_crit="S"))],
        "get_congested_downstream_density": [("", dict(rho_last="S", rho_destination="S",
                                                       rho_crit="S"))],
    },
}
PREFIX = {"NodesEngine": "nodes_", "LinksEngine": "links_", "OriginsEngine": "origins_",
          "DestinationsEngine": "destinations_"}
COQTYPE = {"S": "A", "V": "list A", "OS": "option A", "I": "list nat", "STR": "string"}

# library function name -> (kind, operator)
UNARY = {"exp": "nexp", "log": "nlog", "square": "sq"}
BINARY = {"minimum": "nmin", "maximum": "nmax", "fmin": "nmin", "fmax": "nmax", "power": "npow"}
BINOPS = {ast.Add: "add", ast.Sub: "sub", ast.Mult: "mul", ast.Div: "div"}
COQ_RESERVED = {"type": "type_", "in": "in_", "at": "at_", "as": "as_", "end": "end_",
                "fun": "fun_", "let": "let_", "match": "match_", "return": "return_",
                "then": "then_", "else": "else_", "if": "if_", "with": "with_", "L": "L",
                "T": "T", "C": "C"}


def cname(n):
    return COQ_RESERVED.get(n, n)


def qlit(value):
    if isinstance(value, bool):
        raise Unsupported("boolean literal")
    if isinstance(value, int):
        fr = Fraction(value)
    elif isinstance(value, float):
        fr = Fraction(repr(value))
    else:
        raise Unsupported(f"literal {value!r}")
    num, den = fr.numerator, fr.denominator
    ntxt = f"({num})" if num < 0 else f"{num}"
    return f"(ofQ ({ntxt} # {den})%Q)"


class FnTranslator:
    def __init__(self, lib, cls, modname):
        self.lib = lib          # 'np' or 'cs'
        self.cls = cls
        self.modname = modname

    # -------------------------------------------------------------- expressions
    def lift1(self, op, a):
        txt, ty = a
        if ty == "S":
            return f"({op} {txt})", "S"
        if ty == "V":
            return f"(map {op} {txt})", "V"
        raise Unsupported(f"unary {op} on {ty}")

    def lift2(self, op, a, b):
        (ta, tya), (tb, tyb) = a, b
        if tya == "S" and tyb == "S":
            return f"({op} {ta} {tb})", "S"
        if tya == "V" and tyb == "S":
            return f"(vs {op} {ta} {tb})", "V"
        if tya == "S" and tyb == "V":
            return f"(sv {op} {ta} {tb})", "V"
        if tya == "V" and tyb == "V":
            return f"(vv {op} {ta} {tb})", "V"
        raise Unsupported(f"binary {op} on {tya},{tyb}")

    def libcall_name(self, func):
        """name of a library function called as np.f / cs.f, else None"""
        if isinstance(func, ast.Attribute) and isinstance(func.value, ast.Name) \
                and func.value.id == self.lib:
            return func.attr
        return None

    def cmp(self, node, env):
        if not (isinstance(node, ast.Compare) and len(node.ops) == 1
                and isinstance(node.ops[0], ast.Lt)):
            raise Unsupported("condition other than a < b: " + ast.dump(node))
        a = self.expr(node.left, env)
        b = self.expr(node.comparators[0], env)
        if a[1] != "S" or b[1] != "S":
            raise Unsupported("non-scalar comparison")
        return a[0], b[0]

    def expr(self, node, env):
        if isinstance(node, ast.Constant):
            return qlit(node.value), "S"
        if isinstance(node, ast.Name):
            if node.id not in env:
                raise Unsupported(f"unknown name {node.id}")
            ty = env[node.id]
            if ty == "OS":
                raise Unsupported(f"optional {node.id} used without a None test")
            return cname(node.id), ty
        if isinstance(node, ast.UnaryOp) and isinstance(node.op, ast.USub):
            if isinstance(node.operand, ast.Constant):
                return qlit(-node.operand.value), "S"
            return self.lift1("neg", self.expr(node.operand, env))
        if isinstance(node, ast.BinOp):
            if isinstance(node.op, ast.Pow):
                if isinstance(node.right, ast.Constant) and node.right.value == 2:
                    return self.lift1("sq", self.expr(node.left, env))
                raise Unsupported("power other than **2")
            if type(node.op) not in BINOPS:
                raise Unsupported("operator " + type(node.op).__name__)
            return self.lift2(BINOPS[type(node.op)], self.expr(node.left, env),
                              self.expr(node.right, env))
        if isinstance(node, ast.IfExp):
            a, b = self.cmp(node.test, env)
            t = self.expr(node.body, env)
            e = self.expr(node.orelse, env)
            if t[1] != "S" or e[1] != "S":
                raise Unsupported("non-scalar conditional")
            return f"(iflt {a} {b} {t[0]} {e[0]})", "S"
        if isinstance(node, ast.Subscript):
            base = self.expr(node.value, env)
            if base[1] != "V":
                raise Unsupported("subscript of a non-vector")
            idx = node.slice
            if isinstance(idx, ast.Constant) and idx.value == 0:
                return f"(vfirst {base[0]})", "S"
            if isinstance(idx, ast.UnaryOp) and isinstance(idx.op, ast.USub) \
                    and isinstance(idx.operand, ast.Constant) and idx.operand.value == 1:
                return f"(vlast {base[0]})", "S"
            if isinstance(idx, ast.Name) and env.get(idx.id) == "I":
                return f"(gather {cname(idx.id)} {base[0]})", "V"
            raise Unsupported("subscript " + ast.dump(idx))
        if isinstance(node, ast.Call):
            if node.keywords:
                raise Unsupported("keyword arguments in call")
            lf = self.libcall_name(node.func)
            if lf is not None:
                args = node.args
                if lf in ("sum", "sum1"):
                    if lf == "sum":
                        if not (len(args) == 2 and isinstance(args[1], ast.Constant)
                                and args[1].value == 0):
                            raise Unsupported("np.sum without axis 0")
                    elif len(args) != 1:
                        raise Unsupported("sum1 arity")
                    x = self.expr(args[0], env)
                    if x[1] != "V":
                        raise Unsupported("sum of a non-vector")
                    return f"(vsum {x[0]})", "S"
                if lf in UNARY and len(args) == 1:
                    return self.lift1(UNARY[lf], self.expr(args[0], env))
                if lf in BINARY and len(args) == 2:
                    return self.lift2(BINARY[lf], self.expr(args[0], env),
                                      self.expr(args[1], env))
                if lf in ("if_else", "where") and len(args) == 3:      # cs.if_else / np.where: element-wise selection
                    a, b = self.cmp(args[0], env)
                    t = self.expr(args[1], env)
                    e = self.expr(args[2], env)
                    if t[1] != "S" or e[1] != "S":
                        raise Unsupported("non-scalar if_else")
                    return f"(iflt {a} {b} {t[0]} {e[0]})", "S"
                if lf in ("hstack", "vcat") and len(args) == 1:
                    # Engine.vcat(*arrays): arrays is the list of vectors
                    x = self.expr(args[0], env)
                    if x[1] != "VV":
                        raise Unsupported("hstack/vcat of a non-list")
                    return f"(List.concat {x[0]})", "V"
                raise Unsupported(f"library call {self.lib}.{lf}/{len(args)}")
            # intra-module call  LinksEngine.Veq(...)
            f = node.func
            if isinstance(f, ast.Attribute) and isinstance(f.value, ast.Name) \
                    and f.value.id in SIG and f.attr in SIG[f.value.id]:
                args = [self.expr(a, env) for a in node.args]
                for suffix, sig in SIG[f.value.id][f.attr]:
                    tys = list(sig.values())
                    if len(tys) == len(args) and all(a[1] == t for a, t in zip(args, tys)):
                        nm = PREFIX[f.value.id] + f.attr + suffix
                        return "(" + " ".join([nm] + [a[0] for a in args]) + ")", \
                            self.rettype[(f.value.id, f.attr, suffix)]
                raise Unsupported(f"no variant of {f.value.id}.{f.attr} for these argument types")
            raise Unsupported("call " + ast.dump(node.func))
        raise Unsupported("expression " + type(node).__name__)

    # -------------------------------------------------------------- conditions
    def none_tests(self, test, env):
        """`x is not None [and y is not None ...]` -> list of optional names"""
        parts = test.values if isinstance(test, ast.BoolOp) and isinstance(test.op, ast.And) \
            else [test]
        names = []
        for p in parts:
            if not (isinstance(p, ast.Compare) and len(p.ops) == 1
                    and isinstance(p.ops[0], ast.IsNot) and isinstance(p.left, ast.Name)
                    and isinstance(p.comparators[0], ast.Constant)
                    and p.comparators[0].value is None and env.get(p.left.id) == "OS"):
                return None
            names.append(p.left.id)
        return names

    def str_test(self, test, env):
        if isinstance(test, ast.Compare) and len(test.ops) == 1 \
                and isinstance(test.ops[0], ast.Eq) and isinstance(test.left, ast.Name) \
                and env.get(test.left.id) == "STR" \
                and isinstance(test.comparators[0], ast.Constant) \
                and isinstance(test.comparators[0].value, str):
            return f'(String.eqb {cname(test.left.id)} "{test.comparators[0].value}")'
        return None

    # -------------------------------------------------------------- statements
    def assign_value(self, st, env):
        """a simple (non-control) statement -> (varname, coq text, type)"""
        if isinstance(st, ast.Assign):
            if len(st.targets) != 1:
                raise Unsupported("multiple assignment targets")
            tg = st.targets[0]
            if isinstance(tg, ast.Name):
                txt, ty = self.expr(st.value, env)
                return tg.id, txt, ty
            if isinstance(tg, ast.Subscript) and isinstance(tg.value, ast.Name) \
                    and env.get(tg.value.id) == "V" and isinstance(tg.slice, ast.Name) \
                    and env.get(tg.slice.id) == "I":
                txt, ty = self.expr(st.value, env)
                if ty != "V":
                    raise Unsupported("scatter of a non-vector")
                return tg.value.id, f"(scatter {cname(tg.slice.id)} {txt} {cname(tg.value.id)})", "V"
            raise Unsupported("assignment target " + ast.dump(tg))
        if isinstance(st, ast.AugAssign):
            if type(st.op) not in BINOPS:
                raise Unsupported("augmented operator")
            op = BINOPS[type(st.op)]
            tg = st.target
            if isinstance(tg, ast.Name):
                if tg.id not in env:
                    raise Unsupported("augmented assignment to unknown name")
                txt, ty = self.lift2(op, (cname(tg.id), env[tg.id]), self.expr(st.value, env))
                return tg.id, txt, ty
            if isinstance(tg, ast.Subscript) and isinstance(tg.value, ast.Name) \
                    and env.get(tg.value.id) == "V":
                rhs, ty = self.expr(st.value, env)
                if ty != "S":
                    raise Unsupported("element update with a non-scalar")
                sl = tg.slice
                first = (isinstance(sl, ast.Constant) and sl.value == 0) or (
                    isinstance(sl, ast.Slice) and sl.lower is None and sl.step is None
                    and isinstance(sl.upper, ast.Constant) and sl.upper.value == 1)
                lastp = (isinstance(sl, ast.UnaryOp) and isinstance(sl.op, ast.USub)
                         and isinstance(sl.operand, ast.Constant) and sl.operand.value == 1) or (
                    isinstance(sl, ast.Slice) and sl.upper is None and sl.step is None
                    and isinstance(sl.lower, ast.UnaryOp) and isinstance(sl.lower.op, ast.USub)
                    and isinstance(sl.lower.operand, ast.Constant)
                    and sl.lower.operand.value == 1)
                v = cname(tg.value.id)
                if first:
                    return tg.value.id, f"(upd_first (fun x_ => {op} x_ {rhs}) {v})", "V"
                if lastp:
                    return tg.value.id, f"(upd_last (fun x_ => {op} x_ {rhs}) {v})", "V"
                raise Unsupported("element update at " + ast.dump(sl))
            raise Unsupported("augmented target")
        raise Unsupported("statement " + type(st).__name__)

    def block(self, stmts, env):
        """translate a statement list that must end in a return -> (text, type)"""
        if not stmts:
            raise Unsupported("block without return")
        st, rest = stmts[0], stmts[1:]
        if isinstance(st, ast.Expr) and isinstance(st.value, ast.Constant) \
                and isinstance(st.value.value, str):
            return self.block(rest, env)          # docstring
        if isinstance(st, ast.Return):
            if st.value is None:
                raise Unsupported("bare return")
            return self.expr(st.value, env)
        if isinstance(st, ast.If):
            if st.orelse:
                raise Unsupported("if with else")
            names = self.none_tests(st.test, env)
            stest = self.str_test(st.test, env)
            body_returns = isinstance(st.body[-1], ast.Return)
            if body_returns:
                if stest is None:
                    raise Unsupported("returning if on a non-string test")
                t = self.block(st.body, dict(env))
                e = self.block(rest, env)
                if t[1] != e[1]:
                    raise Unsupported("branches of different type")
                return f"(if {stest} then {t[0]} else {e[0]})", t[1]
            idxtest = isinstance(st.test, ast.Name) and env.get(st.test.id) == "I"
            if names is None and not idxtest:
                raise Unsupported("non-returning if on a test other than `is not None` / index list")
            if idxtest:
                names = []
            # body: updates of variables already defined
            benv = dict(env)
            for n in names:
                benv[n] = "S"
            updated = []
            lets = ""
            for b in st.body:
                var, txt, ty = self.assign_value(b, benv)
                if var not in env or env[var] != ty:
                    raise Unsupported("conditional definition of a new variable")
                lets += f"let {cname(var)} := {txt} in "
                benv[var] = ty
                if var not in updated:
                    updated.append(var)
            if len(updated) != 1:
                raise Unsupported("conditional block updating several variables")
            var = updated[0]
            if idxtest:   # `if vsl:` -- a non-empty index list
                txt = (f"(match {cname(st.test.id)} with | [] => {cname(var)} "
                       f"| _ :: _ => {lets}{cname(var)} end)")
                r = self.block(rest, env)
                return f"(let {cname(var)} := {txt} in {r[0]})", r[1]
            pat = ", ".join(f"Some {cname(n)}" for n in names)
            scrut = ", ".join(cname(n) for n in names)
            wild = ", ".join("_" for _ in names)
            txt = (f"(match {scrut} with | {pat} => {lets}{cname(var)} "
                   f"| {wild} => {cname(var)} end)")
            r = self.block(rest, env)
            return f"(let {cname(var)} := {txt} in {r[0]})", r[1]
        var, txt, ty = self.assign_value(st, env)
        nenv = dict(env)
        nenv[var] = ty
        r = self.block(rest, nenv)
        return f"(let {cname(var)} := {txt} in {r[0]})", r[1]


def translate(path, lib, modname):
    src = open(path).read()
    tree = ast.parse(src)
    classes = {n.name: n for n in tree.body if isinstance(n, ast.ClassDef)}
    out = [f"(* GENERATED from {path} by translator/engines.py — do not edit *)",
           "From SM Require Import Num.", f"Module {modname}.", "Section Gen.",
           "Context {A : Type} {NA : Num A}.", "Local Open Scope string_scope.", ""]
    rettype = {}
    order = ["NodesEngine", "DestinationsEngine", "LinksEngine", "OriginsEngine"]
    count = 0
    for cls in order:
        if cls not in classes:
            raise Unsupported(f"class {cls} missing")
        methods = {n.name: n for n in classes[cls].body if isinstance(n, ast.FunctionDef)}
        extra = set(methods) - set(SIG[cls])
        missing = set(SIG[cls]) - set(methods)
        if extra or missing:
            raise Unsupported(f"{cls}: methods changed (extra {sorted(extra)}, missing {sorted(missing)})")
        # definition order: as in source, except callee Veq first (already so)
        for name, fn in methods.items():
            decos = [d.id for d in fn.decorator_list if isinstance(d, ast.Name)]
            if decos != ["staticmethod"]:
                raise Unsupported(f"{cls}.{name}: expected a staticmethod")
            a = fn.args
            if a.vararg or a.kwarg or a.kwonlyargs or a.posonlyargs:
                raise Unsupported(f"{cls}.{name}: unusual parameters")
            params = [x.arg for x in a.args]
            defaults = dict(zip(params[len(params) - len(a.defaults):], a.defaults))
            for suffix, sig in SIG[cls][name]:
                if list(sig) != params:
                    raise Unsupported(f"{cls}.{name}: parameters {params} differ from the signature table")
                for p, dflt in defaults.items():
                    # (the flow-equation type defaults to the documented variant, the same in both engines and in the
                    # abstract interface of engines/core.py)
                    doc = {("get_ramp_flow", "type"): "out", ("get_simplifiedramp_flow", "type"): "limited"}
                    ok = isinstance(dflt, ast.Constant) and (
                        dflt.value is None or (sig[p] == "STR" and dflt.value == doc.get((name, p))))
                    if not ok:
                        raise Unsupported(f"{cls}.{name}: default of {p}")
                for p, t in sig.items():
                    if t == "OS" and p not in defaults:
                        raise Unsupported(f"{cls}.{name}: optional {p} without default None")
                tr = FnTranslator(lib, cls, modname)
                tr.rettype = rettype
                body, rty = tr.block(fn.body, dict(sig))
                rettype[(cls, name, suffix)] = rty
                binders = " ".join(f"({cname(p)} : {COQTYPE[t]})" for p, t in sig.items())
                out.append(f"Definition {PREFIX[cls]}{name}{suffix} {binders} : {COQTYPE[rty]} :=")
                out.append(f"  {body}.")
                out.append("")
                count += 1
    # Engine.vcat / Engine.max
    if "Engine" not in classes:
        raise Unsupported("class Engine missing")
    em = {n.name: n for n in classes["Engine"].body if isinstance(n, ast.FunctionDef)}
    for name in ("vcat", "max"):
        if name not in em:
            raise Unsupported(f"Engine.{name} missing")
    fn = em["vcat"]
    if not (fn.args.vararg and fn.args.vararg.arg == "arrays" and [x.arg for x in fn.args.args] == ["self"]):
        raise Unsupported("Engine.vcat signature")
    tr = FnTranslator(lib, "Engine", modname)
    tr.rettype = rettype
    body, rty = tr.block(fn.body, {"arrays": "VV"})
    out.append(f"Definition engine_vcat (arrays : list (list A)) : list A :=\n  {body}.\n")
    fn = em["max"]
    if [x.arg for x in fn.args.args] != ["self", "array1", "array2"]:
        raise Unsupported("Engine.max signature")
    body, rty = tr.block(fn.body, {"array1": "S", "array2": "V"})
    out.append(f"Definition engine_max (array1 : A) (array2 : list A) : list A :=\n  {body}.\n")
    body, rty = tr.block(fn.body, {"array1": "S", "array2": "S"})
    out.append(f"Definition engine_max_s (array1 : A) (array2 : A) : A :=\n  {body}.\n")
    count += 3
    out += ["End Gen.", f"End {modname}.", ""]
    return "\n".join(out), count


if __name__ == "__main__":
    repo, outdir = sys.argv[1], sys.argv[2]
    for lib, fname, mod, outf in (("np", "numpy.py", "Np", "EnginesNp.v"),
                                  ("cs", "casadi.py", "Cs", "EnginesCs.v")):
        text, n = translate(f"{repo}/src/sym_metanet/engines/{fname}", lib, mod)
        open(f"{outdir}/{outf}", "w").write(text)
        print(f"{outf}: {n} definitions")
