"""T11: the construction calls of Network (network.py: add_node, add_nodes, add_link, add_links, add_origin,
add_destination, add_path) executed symbolically from their AST into Gallina (gen/ConstructGen.v) over a small
model of the networkx.DiGraph primitives they call (NxSupport.v).  proofs/ConstructGenTie.v proves the hand-written
model Construct.v - which C08 / C09 are about - equal to the result.

READ from the source: which networkx primitive every call makes and with which arguments in which order, the guard
`node not in self.nodes` and what each branch does, the attribute key under which an origin / a destination / a link is
stored, the unpacking order of the link triples of add_links, and for add_path: every type test with the error it
raises, the order of the calls, the loop state (`current_link`, `longer_than_one`, the leaked loop variable `point`),
the `L == 2` test, the slice `current_link[-1:]`, the final checks.

TRUSTED (idiom table): NxSupport.v as model of DiGraph.add_node / add_nodes_from / add_edge / add_edges_from and of
`G.nodes[n][key] = v`; a parameter annotated Origin / Destination is an attachment identity (nat), any other object is
an `obj`; `isinstance(x, Node)` / `isinstance(x, Link)` are `is_node` / `is_link`; `next(it)` on an exhausted iterator
raises StopIteration; `f(*lst)` raises TypeError unless `lst` has exactly the arity of `f`; the decorators are not
followed here (T3 reads them).  Anything else fails closed."""
import ast
import os


class Unsupported(Exception):
    pass


KEY_ATTR = {"ORIGINENTRY": "AOrig", "DESTINATIONENTRY": "ADest"}
ERR = {"TypeError": "CTypeErr", "ValueError": "CValueErr", "StopIteration": "CStopIter"}
METHODS = ["add_node", "add_nodes", "add_link", "add_links", "add_origin", "add_destination", "add_path"]
ARITY = {"add_node": 1, "add_link": 3, "add_origin": 2, "add_destination": 2}


def par(s):
    return s if s.replace("_", "a").replace("'", "a").isalnum() else f"({s})"


def ann_type(a):
    s = ast.unparse(a) if a is not None else ""
    s = s.replace("[VarType]", "")
    if s in ("Origin", "Destination"):
        return "att"
    if s in ("Optional[Origin]", "Optional[Destination]"):
        return "optatt"
    if s in ("Node", "Link"):
        return "obj"
    if s in ("Iterable[Node]", "Iterable[Union[Node, Link]]"):
        return "objs"
    if s == "Iterable[tuple[Node, Link, Node]]" or s == "tuple[Node, Link, Node]":
        return "triples" if s.startswith("Iterable") else "triple"
    raise Unsupported(f"parameter annotation {s!r}")


COQ_T = {"att": "nat", "optatt": "option nat", "obj": "obj", "objs": "list obj", "triple": "(obj * obj * obj)",
         "triples": "list (obj * obj * obj)", "bool": "bool", "optobj": "option obj"}


def self_graph(e):
    return isinstance(e, ast.Attribute) and e.attr == "_graph" and isinstance(e.value, ast.Name) and e.value.id == "self"


def self_nodes(e):
    return (isinstance(e, ast.Attribute) and e.attr == "nodes" and
            ((isinstance(e.value, ast.Name) and e.value.id == "self") or self_graph(e.value)))


def star_dict(call):
    """the single `**{KEY: value}` of a call -> (KEY name, value expr) or None"""
    kws = call.keywords
    if not kws:
        return None
    if len(kws) == 1 and kws[0].arg is None and isinstance(kws[0].value, ast.Dict) and len(kws[0].value.keys) == 1 \
            and isinstance(kws[0].value.keys[0], ast.Name):
        return kws[0].value.keys[0].id, kws[0].value.values[0]
    raise Unsupported(f"keyword arguments of {ast.unparse(call)[:60]!r}")


class M:
    """one method"""

    def __init__(self, fn):
        self.fn = fn
        self.lambdas = {}

    def expr(self, e, env):
        if isinstance(e, ast.Name):
            if e.id in env and env[e.id] is not None and env[e.id][1] != "leak":
                return env[e.id]
            raise Unsupported(f"name {e.id} not usable here")
        if isinstance(e, ast.Constant) and isinstance(e.value, bool):
            return ("true" if e.value else "false"), "bool"
        if isinstance(e, ast.Constant) and isinstance(e.value, int) and 0 <= e.value < 100:
            return str(e.value), "num"
        if isinstance(e, ast.List) and all(not isinstance(x, ast.Starred) for x in e.elts):
            vs = [self.expr(x, env) for x in e.elts]
            if all(t == "obj" for _, t in vs):
                return "[" + "; ".join(s for s, _ in vs) + "]", "objs"
        if isinstance(e, ast.Tuple) and len(e.elts) == 3:
            vs = []
            for x in e.elts:
                if isinstance(x, ast.Dict) and len(x.keys) == 1 and isinstance(x.keys[0], ast.Name) and x.keys[0].id == "LINKENTRY":
                    vs.append(self.expr(x.values[0], env))
                else:
                    vs.append(self.expr(x, env))
            if all(t == "obj" for _, t in vs):
                return "(" + ", ".join(s for s, _ in vs) + ")", "edge3"       # (u, v, link attribute)
        if isinstance(e, ast.UnaryOp) and isinstance(e.op, ast.Not):
            s, t = self.expr(e.operand, env)
            if t == "bool":
                return f"negb {par(s)}", "bool"
        if isinstance(e, ast.Compare) and len(e.ops) == 1:
            op, l, r = e.ops[0], e.left, e.comparators[0]
            if isinstance(op, (ast.In, ast.NotIn)) and self_nodes(r):
                s, t = self.expr(l, env)
                if t == "obj":
                    return (f"has_node g {par(s)}" if isinstance(op, ast.In) else f"negb (has_node g {par(s)})"), "bool"
            if isinstance(op, (ast.Is, ast.IsNot)) and isinstance(r, ast.Constant) and r.value is None:
                s, t = self.expr(l, env)
                if t == "optatt":
                    return (f"is_none {par(s)}" if isinstance(op, ast.Is) else f"negb (is_none {par(s)})"), "bool"
            if isinstance(op, (ast.Eq, ast.NotEq)):
                a, ta = self.expr(l, env)
                b, tb = self.expr(r, env)
                if ta == tb == "num":
                    s = f"Nat.eqb {par(a)} {par(b)}"
                    return (s if isinstance(op, ast.Eq) else f"negb ({s})"), "bool"
        if isinstance(e, ast.Call) and isinstance(e.func, ast.Name) and not e.keywords:
            f = e.func.id
            if f == "isinstance" and len(e.args) == 2 and isinstance(e.args[1], ast.Name) and e.args[1].id in ("Node", "Link"):
                s, t = self.expr(e.args[0], env)
                if t == "obj":
                    return f"{'is_node' if e.args[1].id == 'Node' else 'is_link'} {par(s)}", "bool"
            if f == "len" and len(e.args) == 1:
                s, t = self.expr(e.args[0], env)
                if t == "objs":
                    return f"length {par(s)}", "num"
            if f in self.lambdas and len(e.args) == 1:
                s, t = self.expr(e.args[0], env)
                lam, tin, tout = self.lambdas[f]
                if t == tin:
                    return f"{par(lam)} {par(s)}", tout
        if isinstance(e, ast.GeneratorExp) and len(e.generators) == 1 and not e.generators[0].ifs \
                and isinstance(e.generators[0].target, ast.Name):
            it, t = self.expr(e.generators[0].iter, env)
            if t == "triples":
                env2 = dict(env)
                v = e.generators[0].target.id
                env2[v] = (v, "triple")
                s, te = self.expr(e.elt, env2)
                if te == "edge3":
                    return f"map (fun {v} => {s}) {par(it)}", "edges3"
        if isinstance(e, ast.Subscript) and isinstance(e.slice, ast.Slice) and e.slice.upper is None and e.slice.step is None \
                and isinstance(e.slice.lower, ast.UnaryOp) and isinstance(e.slice.lower.op, ast.USub) \
                and isinstance(e.slice.lower.operand, ast.Constant) and e.slice.lower.operand.value == 1:
            s, t = self.expr(e.value, env)
            if t == "objs":
                return f"last_slice {par(s)}", "objs"
        raise Unsupported(f"{self.fn.name}: expression {ast.unparse(e)[:60]!r}")

    def own_call(self, call, env):
        """self.add_xxx(args) -> coq term for the new graph, or None if the arity is dynamic"""
        name = call.func.attr
        if name not in ARITY or call.keywords:
            raise Unsupported(f"{self.fn.name}: call of self.{name}")
        if len(call.args) == 1 and isinstance(call.args[0], ast.Starred):
            s, t = self.expr(call.args[0].value, env)
            if t != "objs" or name != "add_link":
                raise Unsupported(f"{self.fn.name}: starred call {ast.unparse(call)}")
            return ("star", s)
        vs = [self.expr(a, env) for a in call.args]
        want = {"add_node": ["obj"], "add_link": ["obj", "obj", "obj"], "add_origin": ["att", "obj"],
                "add_destination": ["att", "obj"]}[name]
        got = [("att" if t == "optatt_some" else t) for _, t in vs]
        if got != want:
            raise Unsupported(f"{self.fn.name}: self.{name} called with {got}")
        return ("plain", f"gen_{name} g " + " ".join(par(s) for s, _ in vs))

    def graph_call(self, call, env):
        """self._graph.<primitive>(...) -> coq term for the new graph"""
        prim = call.func.attr
        sd = star_dict(call)
        if prim == "add_node" and len(call.args) == 1:
            s, t = self.expr(call.args[0], env)
            if t != "obj":
                raise Unsupported("add_node of a non-object")
            if sd is None:
                return f"nx_add_node g {par(s)} []"
            if sd[0] in KEY_ATTR:
                v, tv = self.expr(sd[1], env)
                if tv == "att":
                    return f"nx_add_node g {par(s)} [{KEY_ATTR[sd[0]]} {par(v)}]"
        if prim == "add_nodes_from" and len(call.args) == 1 and sd is None:
            s, t = self.expr(call.args[0], env)
            if t == "objs":
                return f"nx_add_nodes_from g {par(s)}"
        if prim == "add_edge" and len(call.args) == 2 and sd is not None and sd[0] == "LINKENTRY":
            a, ta = self.expr(call.args[0], env)
            b, tb = self.expr(call.args[1], env)
            l, tl = self.expr(sd[1], env)
            if ta == tb == tl == "obj":
                return f"nx_add_edge g {par(a)} {par(b)} {par(l)}"
        if prim == "add_edges_from" and len(call.args) == 1 and sd is None:
            s, t = self.expr(call.args[0], env)
            if t == "edges3":
                return f"nx_add_edges_from g {par(s)}"
        raise Unsupported(f"{self.fn.name}: networkx call {ast.unparse(call)[:70]!r}")

    def raise_err(self, st):
        exc = st.exc
        name = exc.func.id if isinstance(exc, ast.Call) and isinstance(exc.func, ast.Name) else None
        if name not in ERR or st.cause is not None:
            raise Unsupported(f"{self.fn.name}: raise of {ast.unparse(exc)[:40]!r}")
        return ERR[name]

    # statements -> a coq term of type  cgraph * option cerr  (result) or the loop-state tuple (in_loop)
    def seq(self, stmts, env, known, loop):
        """known: set of objects known to be nodes of g; loop: None or (state names) when inside the for body"""
        if not stmts:
            if loop is None:
                raise Unsupported(f"{self.fn.name}: falls off the end without `return self`")
            return self.loop_state(env, loop, "None")
        st, rest = stmts[0], stmts[1:]
        if isinstance(st, ast.Expr) and isinstance(st.value, ast.Constant):
            return self.seq(rest, env, known, loop)
        if isinstance(st, ast.Return):
            if loop is not None or not (isinstance(st.value, ast.Name) and st.value.id == "self") or rest:
                raise Unsupported(f"{self.fn.name}: return of something else than self")
            return "(g, None)"
        if isinstance(st, ast.Raise):
            e = self.raise_err(st)
            return self.loop_state(env, loop, f"Some {e}") if loop is not None else f"(g, Some {e})"
        if isinstance(st, ast.FunctionDef):
            self.local_fn(st)
            return self.seq(rest, env, known, loop)
        if isinstance(st, ast.Expr) and isinstance(st.value, ast.Call) and isinstance(st.value.func, ast.Attribute):
            c = st.value
            tgt = c.func.value
            if self_graph(tgt):
                return f"let g := {self.graph_call(c, env)} in\n  {self.seq(rest, env, set(), loop)}"
            if isinstance(tgt, ast.Name) and tgt.id == "self":
                kind, s = self.own_call(c, env)
                if kind == "plain":
                    return f"let g := {s} in\n  {self.seq(rest, env, set(), loop)}"
                arity_err = self.loop_state(env, loop, "Some CTypeErr") if loop is not None else "(g, Some CTypeErr)"
                return (f"match {s} with\n  | [a1; a2; a3] =>\n  let g := gen_add_link g a1 a2 a3 in\n  "
                        f"{self.seq(rest, env, set(), loop)}\n  | _ => {arity_err}\n  end")
            if isinstance(tgt, ast.Name) and c.func.attr == "append" and len(c.args) == 1 and not c.keywords \
                    and env.get(tgt.id, (0, 0))[1] == "objs" and tgt.id in (loop or ()):
                s, t = self.expr(c.args[0], env)
                if t == "obj":
                    return f"let {tgt.id} := {tgt.id} ++ [{s}] in\n  {self.seq(rest, env, known, loop)}"
        if isinstance(st, (ast.Assign, ast.AnnAssign)):
            tgt = st.targets[0] if isinstance(st, ast.Assign) and len(st.targets) == 1 else getattr(st, "target", None)
            v = st.value
            # G.nodes[node][KEY] = value : only where the node is known to be in the graph
            if isinstance(tgt, ast.Subscript) and isinstance(tgt.value, ast.Subscript) and self_nodes(tgt.value.value) \
                    and isinstance(tgt.slice, ast.Name) and tgt.slice.id in KEY_ATTR:
                n, tn = self.expr(tgt.value.slice, env)
                val, tv = self.expr(v, env)
                if tn == "obj" and tv == "att" and n in known:
                    return (f"let g := nx_set_node_attr g {par(n)} ({KEY_ATTR[tgt.slice.id]} {par(val)}) in\n  "
                            f"{self.seq(rest, env, known, loop)}")
                raise Unsupported(f"{self.fn.name}: attribute store on a node not known to be in the graph")
            if isinstance(tgt, ast.Name):
                x = tgt.id
                # path = iter(path)
                if isinstance(v, ast.Call) and isinstance(v.func, ast.Name) and v.func.id == "iter" and len(v.args) == 1 \
                        and isinstance(v.args[0], ast.Name) and v.args[0].id == x and env.get(x, (0, 0))[1] == "objs" and loop is None:
                    return self.seq(rest, env, known, loop)
                # first = next(path)
                if isinstance(v, ast.Call) and isinstance(v.func, ast.Name) and v.func.id == "next" and len(v.args) == 1 \
                        and isinstance(v.args[0], ast.Name) and env.get(v.args[0].id, (0, 0))[1] == "objs" and loop is None:
                    it = v.args[0].id
                    env2 = dict(env)
                    env2[x] = (x, "obj")
                    return (f"match {it} with\n  | [] => (g, Some CStopIter)\n  | {x} :: {it} =>\n  "
                            f"{self.seq(rest, env2, known, loop)}\n  end")
                # x = <the variable a finished loop leaves behind> : UnboundLocalError if the loop never ran
                if isinstance(v, ast.Name) and env.get(v.id, (0, 0)) is not None and env.get(v.id, (0, 0))[1] == "leak" and loop is None:
                    env2 = dict(env)
                    env2[x] = (x, "obj")
                    return (f"match {env[v.id][0]} with\n  | Some {x} =>\n  {self.seq(rest, env2, known, loop)}\n"
                            f"  | None => (g, Some CUnbound)\n  end")
                s, t = self.expr(v, env)
                if loop is not None and x not in loop and x in env:
                    raise Unsupported(f"{self.fn.name}: assignment to {x} inside the loop")
                env2 = dict(env)
                env2[x] = (x, t)
                if loop is not None and x not in loop:
                    self.loop_locals.add(x)
                return f"let {x} := {s} in\n  {self.seq(rest, env2, known, loop)}"
        if isinstance(st, ast.If):
            c, tc = self.expr(st.test, env)
            if tc != "bool":
                raise Unsupported(f"{self.fn.name}: condition {ast.unparse(st.test)[:50]!r}")
            kn_then, kn_else = set(known), set(known)
            t = st.test
            if isinstance(t, ast.Compare) and len(t.ops) == 1 and self_nodes(t.comparators[0]) and isinstance(t.left, ast.Name):
                (kn_else if isinstance(t.ops[0], ast.NotIn) else kn_then).add(t.left.id)
            env_t = dict(env)
            # `if x is not None:` gives x its value in the branch
            if isinstance(t, ast.Compare) and isinstance(t.ops[0], ast.IsNot) and isinstance(t.left, ast.Name) \
                    and env.get(t.left.id, (0, 0))[1] == "optatt":
                x = t.left.id
                if st.orelse:
                    raise Unsupported(f"{self.fn.name}: else branch of `if {x} is not None`")
                env_t[x] = (f"{x}'", "att")
                return (f"match {x} with\n  | Some {x}' =>\n  {self.seq(list(st.body) + rest, env_t, kn_then, loop)}\n"
                        f"  | None =>\n  {self.seq(rest, env, known, loop)}\n  end")
            # both branches continue with the rest (duplicated: the bodies are small)
            return (f"if {c}\n  then ({self.seq(list(st.body) + rest, env_t, kn_then, loop)})\n"
                    f"  else ({self.seq(list(st.orelse) + rest, dict(env), kn_else, loop)})")
        if isinstance(st, ast.For) and loop is None and not st.orelse:
            return self.for_loop(st, rest, env, known)
        raise Unsupported(f"{self.fn.name}: statement {ast.unparse(st)[:60]!r}")

    def loop_state(self, env, loop, err):
        return "(" + ", ".join(["g"] + [env[v][0] if v != "__pt" else self.point_now for v in loop] + [err]) + ")"

    def for_loop(self, st, rest, env, known):
        # for i, point in enumerate(path):
        it = st.iter
        if not (isinstance(it, ast.Call) and isinstance(it.func, ast.Name) and it.func.id == "enumerate" and len(it.args) == 1
                and isinstance(it.args[0], ast.Name) and env.get(it.args[0].id, (0, 0))[1] == "objs"
                and isinstance(st.target, ast.Tuple) and len(st.target.elts) == 2
                and all(isinstance(x, ast.Name) for x in st.target.elts)):
            raise Unsupported(f"{self.fn.name}: loop {ast.unparse(st.iter)[:40]!r}")
        ivar, pvar = (x.id for x in st.target.elts)
        for n in ast.walk(ast.Module(body=st.body, type_ignores=[])):
            if isinstance(n, ast.Name) and n.id == ivar and isinstance(n.ctx, ast.Load):
                # the index is only named in messages
                pass
        # mutable state of the loop: names bound before it and (re)assigned / appended to inside it
        assigned = set()
        for n in ast.walk(ast.Module(body=st.body, type_ignores=[])):
            if isinstance(n, ast.Assign):
                for t in n.targets:
                    if isinstance(t, ast.Name):
                        assigned.add(t.id)
            if isinstance(n, ast.Call) and isinstance(n.func, ast.Attribute) and n.func.attr == "append" and isinstance(n.func.value, ast.Name):
                assigned.add(n.func.value.id)
        state = sorted(v for v in assigned if v in env and env[v] is not None)
        for v in state:
            if env[v][1] not in ("objs", "bool"):
                raise Unsupported(f"{self.fn.name}: loop state {v} of type {env[v][1]}")
        loop = tuple(state) + ("__pt",)
        self.loop_locals = set()
        benv = dict(env)
        benv[pvar] = (pvar, "obj")
        benv[ivar] = None
        for v in state:
            benv[v] = (v, env[v][1])
        self.point_now = f"Some {pvar}"
        body = self.seq(list(st.body), benv, set(), loop)
        pat = "'(" + ", ".join(["g"] + list(state) + [f"{pvar}_last", "err"]) + ")"
        sty = " * ".join(["cgraph"] + [COQ_T[env[v][1]] for v in state] + ["option obj", "option cerr"])
        self.loop_def = (f"Definition gen_{self.fn.name}_body (st : {sty}) ({pvar} : obj) : {sty} :=\n"
                         f"  let {pat} := st in\n  match err with\n  | Some _ => st\n  | None =>\n  {body}\n  end.")
        init = "(" + ", ".join(["g"] + [env[v][0] for v in state] + ["None", "None"]) + ")"
        env2 = dict(env)
        for v in self.loop_locals | {ivar}:
            env2[v] = None
        env2[pvar] = (f"{pvar}_last", "leak")      # the leaked loop variable: bound only if the loop body ran
        tail = self.seq(rest, env2, set(), None)
        return (f"let {pat} := fold_left gen_{self.fn.name}_body {it.args[0].id} {init} in\n"
                f"  match err with\n  | Some e => (g, Some e)\n  | None =>\n  {tail}\n  end")

    def local_fn(self, fn):
        if len(fn.args.args) != 1 or fn.decorator_list or len(fn.body) != 2:
            raise Unsupported(f"nested function {fn.name}")
        a = fn.args.args[0]
        t = ann_type(a.annotation)
        un, ret = fn.body
        if not (t == "triple" and isinstance(un, ast.Assign) and isinstance(un.targets[0], ast.Tuple) and len(un.targets[0].elts) == 3
                and all(isinstance(x, ast.Name) for x in un.targets[0].elts) and isinstance(un.value, ast.Name) and un.value.id == a.arg
                and isinstance(ret, ast.Return)):
            raise Unsupported(f"nested function {fn.name}: not an unpacking of a triple followed by a return")
        names = [x.id for x in un.targets[0].elts]
        env = {n: (n, "obj") for n in names}
        s, tr = self.expr(ret.value, env)
        self.lambdas[fn.name] = (f"fun {a.arg} : obj * obj * obj => let '({', '.join(names)}) := {a.arg} in {s}", "triple", tr)

    def translate(self):
        fn = self.fn
        if fn.args.vararg or fn.args.kwarg or fn.args.kwonlyargs or fn.args.args[0].arg != "self":
            raise Unsupported(f"{fn.name}: unexpected parameters")
        params = fn.args.args[1:]
        nd = len(fn.args.defaults)
        for d in fn.args.defaults:
            if not (isinstance(d, ast.Constant) and d.value is None):
                raise Unsupported(f"{fn.name}: default that is not None")
        env = {}
        sig = []
        for i, p in enumerate(params):
            t = ann_type(p.annotation)
            if (i >= len(params) - nd) != (t == "optatt"):
                raise Unsupported(f"{fn.name}: optional parameter {p.arg} inconsistent with its default")
            env[p.arg] = (p.arg, t)
            sig.append(f"({p.arg} : {COQ_T[t]})")
        self.loop_def = None
        body = self.seq(list(fn.body), env, set(), None)
        out = []
        if self.loop_def:
            out.append(self.loop_def)
        out.append(f"Definition gen_{fn.name}_full (g : cgraph) {' '.join(sig)} : cgraph * option cerr :=\n  {body}.")
        if "Some C" not in body and "err" not in body:
            out.append(f"Definition gen_{fn.name} (g : cgraph) {' '.join(sig)} : cgraph :=\n  fst (gen_{fn.name}_full g "
                       + " ".join(p.arg for p in params) + ").")
            self.total = True
        else:
            self.total = False
        return "\n".join(out)


def translate(repo):
    tree = ast.parse(open(os.path.join(repo, "src/sym_metanet/network.py")).read())
    cls = next((c for c in tree.body if isinstance(c, ast.ClassDef) and c.name == "Network"), None)
    if cls is None:
        raise Unsupported("class Network not found")
    fns = {f.name: f for f in cls.body if isinstance(f, ast.FunctionDef)}
    out = ["(* GENERATED on every run by translator/construct.py (T11) from src/sym_metanet/network.py: the construction calls *)",
           "From Coq Require Import List Arith Bool.",
           "From SM Require Import Graph Construct NxSupport.",
           "Import ListNotations.", ""]
    for name in METHODS:
        if name not in fns:
            raise Unsupported(f"Network.{name} not found")
        m = M(fns[name])
        out.append(m.translate())
        if name != "add_path" and not m.total:
            raise Unsupported(f"Network.{name} can raise")
        out.append("")
    extra = sorted(n for n in fns if n.startswith("add_") and n not in METHODS)
    if extra:
        raise Unsupported(f"construction calls the model does not know: {extra}")
    return "\n".join(out)


if __name__ == "__main__":
    import sys
    print(translate(sys.argv[1] if len(sys.argv) > 1 else "/repo"))
