"""T13: util/funcs.py::invalidate_cache executed symbolically from its AST into Gallina (gen/CacheGen.v).
proofs/CacheGenTie.v proves that the wrapper it builds is what Cache.v assumes of a decorated call: EVERY cached
property named in the decorator that is populated is dropped (all of them, whichever are populated, not only the first),
nothing else is touched, and this happens BEFORE the decorated function runs.

READ from the source: the classification of the decorator's arguments (cached property / lru wrapper / TypeError), the
three-way split on the number of cached properties and of lru wrappers, the closures built in each case (membership test,
deletion, loop over all properties; cache_clear of one or of all wrappers), and the wrapper: the two guards
(`is not None and args`, `is not None`), the order invalidation -> call, and that the call's result is returned.

TRUSTED (idiom table): an instance's `__dict__` restricted to cached-property names is a `pycache` (PyCacheSupport.v:
key -> populated?), `prop.attrname` identifies the property, `isinstance(p, cached_property)` / `hasattr(p, "cache_clear")`
classify an abstract `callable`, `x.cache_clear()` is recorded in a log, `functools.wraps` changes no behaviour,
`func(*args, **kwargs)` is the decorated function applied to the state left by the invalidation.  Anything else fails
closed."""
import ast
import os


class Unsupported(Exception):
    pass


def par(s):
    return s if s.replace("_", "a").replace("'", "a").isalnum() else f"({s})"


class T:
    def __init__(self, fn):
        self.fn = fn

    def closure(self, fn, env):
        """a nested def over the cache (one parameter `self`) or over the lru log (no parameter) -> coq lambda"""
        params = [a.arg for a in fn.args.args]
        if fn.decorator_list or fn.args.vararg or fn.args.kwarg:
            raise Unsupported(f"closure {fn.name}: decorators / star parameters")
        if params == ["self"]:
            body = self.cache_block(list(fn.body), dict(env), "self")
            return f"(fun self : pycache K V => {body})", "cache_fn"
        if params == []:
            body = self.lru_block(list(fn.body), dict(env))
            return f"(fun log : list nat => {body})", "lru_fn"
        raise Unsupported(f"closure {fn.name}: parameters {params}")

    def is_self_dict(self, e, selfname):
        return isinstance(e, ast.Attribute) and e.attr == "__dict__" and isinstance(e.value, ast.Name) and e.value.id == selfname

    def cache_block(self, stmts, env, selfname):
        if not stmts:
            return selfname
        st, rest = stmts[0], stmts[1:]
        if isinstance(st, ast.Assign) and len(st.targets) == 1 and isinstance(st.targets[0], ast.Name):
            x = st.targets[0].id
            v = st.value
            if isinstance(v, ast.Attribute) and v.attr == "attrname" and isinstance(v.value, ast.Name) and env.get(v.value.id, (0, 0))[1] == "prop":
                env2 = dict(env)
                env2[x] = (env[v.value.id][0], "key")
                return self.cache_block(rest, env2, selfname)
        if isinstance(st, ast.If) and not st.orelse and isinstance(st.test, ast.Compare) and len(st.test.ops) == 1 \
                and isinstance(st.test.ops[0], ast.In) and isinstance(st.test.left, ast.Name) \
                and env.get(st.test.left.id, (0, 0))[1] == "key" and self.is_self_dict(st.test.comparators[0], selfname):
            k = env[st.test.left.id][0]
            if len(st.body) == 1 and isinstance(st.body[0], ast.Delete) and len(st.body[0].targets) == 1:
                t = st.body[0].targets[0]
                if isinstance(t, ast.Subscript) and self.is_self_dict(t.value, selfname) and isinstance(t.slice, ast.Name) \
                        and env.get(t.slice.id, (0, 0))[1] == "key":
                    k2 = env[t.slice.id][0]
                    return (f"let {selfname} := if pc_mem {selfname} {par(k)} then pc_del keq {selfname} {par(k2)} else {selfname} in "
                            + self.cache_block(rest, env, selfname))
        if isinstance(st, ast.For) and not st.orelse and isinstance(st.target, ast.Name) and isinstance(st.iter, ast.Name) \
                and env.get(st.iter.id, (0, 0))[1] == "props":
            env2 = dict(env)
            env2[st.target.id] = (st.target.id, "prop")
            body = self.cache_block(list(st.body), env2, selfname)
            env3 = dict(env)
            env3[st.target.id] = None
            return (f"let {selfname} := fold_left (fun {selfname} {st.target.id} => {body}) {env[st.iter.id][0]} {selfname} in "
                    + self.cache_block(rest, env3, selfname))
        raise Unsupported(f"cache closure: statement {ast.unparse(st)[:60]!r}")

    def lru_block(self, stmts, env):
        if not stmts:
            return "log"
        st, rest = stmts[0], stmts[1:]
        if isinstance(st, ast.Expr) and isinstance(st.value, ast.Call) and isinstance(st.value.func, ast.Attribute) \
                and st.value.func.attr == "cache_clear" and not st.value.args and not st.value.keywords \
                and isinstance(st.value.func.value, ast.Name) and env.get(st.value.func.value.id, (0, 0))[1] == "lru":
            return f"let log := log ++ [{env[st.value.func.value.id][0]}] in " + self.lru_block(rest, env)
        if isinstance(st, ast.For) and not st.orelse and isinstance(st.target, ast.Name) and isinstance(st.iter, ast.Name) \
                and env.get(st.iter.id, (0, 0))[1] == "lrus":
            env2 = dict(env)
            env2[st.target.id] = (st.target.id, "lru")
            body = self.lru_block(list(st.body), env2)
            return f"let log := fold_left (fun log {st.target.id} => {body}) {env[st.iter.id][0]} log in " + self.lru_block(rest, env)
        raise Unsupported(f"lru closure: statement {ast.unparse(st)[:60]!r}")

    def head0(self, v, env):
        """lst[0] -> (list name)"""
        if isinstance(v, ast.Subscript) and isinstance(v.value, ast.Name) and isinstance(v.slice, ast.Constant) and v.slice.value == 0:
            return v.value.id
        return None

    def top(self, stmts, env):
        """the body of invalidate_cache after the classification loop -> coq term of type option wrapper"""
        if not stmts:
            raise Unsupported("invalidate_cache falls off the end")
        st, rest = stmts[0], list(stmts[1:])
        if isinstance(st, ast.Assign) and len(st.targets) == 1 and isinstance(st.targets[0], ast.Name):
            x, v = st.targets[0].id, st.value
            if isinstance(v, ast.Call) and isinstance(v.func, ast.Name) and v.func.id == "len" and len(v.args) == 1 \
                    and isinstance(v.args[0], ast.Name) and env.get(v.args[0].id, (0, 0))[1] in ("props", "lrus"):
                env2 = dict(env)
                env2[x] = (f"length {env[v.args[0].id][0]}", "len:" + v.args[0].id)
                return self.top(rest, env2)
            if isinstance(v, ast.Constant) and v.value is None:
                env2 = dict(env)
                env2[x] = ("None", "optfn")
                return self.top(rest, env2)
            h = self.head0(v, env)
            if h and env.get(h, (0, 0))[1] in ("props", "lrus"):
                kind = "prop" if env[h][1] == "props" else "lru"
                env2 = dict(env)
                env2[x] = (x, kind)
                # the list is not empty here only if a test on its length says so; otherwise IndexError
                return f"match {env[h][0]} with\n  | {x} :: _ =>\n  {self.top(rest, env2)}\n  | [] => None\n  end"
        if isinstance(st, ast.FunctionDef) and st.name != "decorating_function":
            s, t = self.closure(st, env)
            env2 = dict(env)
            env2[st.name] = (f"Some {s}", "optfn")
            return self.top(rest, env2)
        if isinstance(st, ast.If):
            t = st.test
            if isinstance(t, ast.Compare) and len(t.ops) == 1 and isinstance(t.ops[0], ast.Eq) and isinstance(t.left, ast.Name) \
                    and env.get(t.left.id, (0, 0))[1].startswith("len:") and isinstance(t.comparators[0], ast.Constant) \
                    and isinstance(t.comparators[0].value, int):
                c = f"Nat.eqb {par(env[t.left.id][0])} {t.comparators[0].value}"
                return (f"if {c}\n  then ({self.top(list(st.body) + rest, dict(env))})\n"
                        f"  else ({self.top(list(st.orelse) + rest, dict(env))})")
        if isinstance(st, ast.FunctionDef) and st.name == "decorating_function":
            if len(rest) != 1 or not isinstance(rest[0], ast.Return) or not isinstance(rest[0].value, ast.Name) \
                    or rest[0].value.id != "decorating_function":
                raise Unsupported("invalidate_cache does not end with `return decorating_function`")
            return "Some " + self.decorating(st, env)
        raise Unsupported(f"invalidate_cache: statement {ast.unparse(st)[:60]!r}")

    def decorating(self, fn, env):
        if [a.arg for a in fn.args.args] != ["func"] or len(fn.body) != 2 or not isinstance(fn.body[0], ast.FunctionDef) \
                or not isinstance(fn.body[1], ast.Return) or ast.unparse(fn.body[1].value) != fn.body[0].name:
            raise Unsupported("decorating_function is not `def wrapper...; return wrapper`")
        w = fn.body[0]
        if [ast.unparse(d) for d in w.decorator_list] != ["wraps(func)"] or w.args.args or not w.args.vararg or not w.args.kwarg:
            raise Unsupported("wrapper is not `@wraps(func) def wrapper(*args, **kwargs)`")
        a = w.args.vararg.arg
        kw = w.args.kwarg.arg
        lines = []
        stmts = list(w.body)
        for st in stmts[:-1]:
            if not (isinstance(st, ast.If) and not st.orelse and len(st.body) == 1 and isinstance(st.body[0], ast.Expr)
                    and isinstance(st.body[0].value, ast.Call) and isinstance(st.body[0].value.func, ast.Name)):
                raise Unsupported(f"wrapper: statement {ast.unparse(st)[:60]!r}")
            f = st.body[0].value.func.id
            if env.get(f, (0, 0))[1] != "optfn":
                raise Unsupported(f"wrapper calls {f}")
            call = st.body[0].value
            conj = st.test.values if isinstance(st.test, ast.BoolOp) and isinstance(st.test.op, ast.And) else [st.test]
            notnone = any(isinstance(c, ast.Compare) and isinstance(c.ops[0], ast.IsNot) and isinstance(c.left, ast.Name) and c.left.id == f
                          and isinstance(c.comparators[0], ast.Constant) and c.comparators[0].value is None for c in conj)
            needs_args = any(isinstance(c, ast.Name) and c.id == a for c in conj)
            if not notnone or len(conj) != 1 + needs_args:
                raise Unsupported(f"wrapper: guard {ast.unparse(st.test)[:60]!r}")
            if ast.unparse(call) == f"{f}({a}[0])" and needs_args and not call.keywords:
                lines.append(f"let self := match {env[f][0]} with Some f_ => if has_args then f_ self else self | None => self end in")
            elif ast.unparse(call) == f"{f}()" and not needs_args:
                lines.append(f"let log := match {env[f][0]} with Some f_ => f_ log | None => log end in")
            else:
                raise Unsupported(f"wrapper: call {ast.unparse(call)[:60]!r}")
        last = stmts[-1]
        if not (isinstance(last, ast.Return) and ast.unparse(last.value) == f"func(*{a}, **{kw})"):
            raise Unsupported("wrapper does not end with `return func(*args, **kwargs)`")
        return ("(fun (R : Type) (func : pycache K V -> list nat -> R) (has_args : bool) (self : pycache K V) (log : list nat) =>\n  "
                + "\n  ".join(lines) + "\n  func self log)")

    def translate(self):
        fn = self.fn
        if fn.args.args or not fn.args.vararg or fn.args.kwarg or fn.args.kwonlyargs:
            raise Unsupported("invalidate_cache: parameters")
        cs = fn.args.vararg.arg
        body = [s for s in fn.body if not (isinstance(s, ast.Expr) and isinstance(s.value, ast.Constant))]
        # 1. `if not callables: raise ValueError`
        st = body[0]
        if not (isinstance(st, ast.If) and ast.unparse(st.test) == f"not {cs}" and len(st.body) == 1 and isinstance(st.body[0], ast.Raise)
                and not st.orelse):
            raise Unsupported("invalidate_cache: the emptiness check")
        # 2. two annotated empty lists, 3. the classification loop
        lists = {}
        i = 1
        while i < len(body) and isinstance(body[i], (ast.AnnAssign, ast.Assign)):
            s_ = body[i]
            tgt = s_.target if isinstance(s_, ast.AnnAssign) else s_.targets[0]
            if not (isinstance(tgt, ast.Name) and isinstance(s_.value, ast.List) and not s_.value.elts):
                break
            lists[tgt.id] = None
            i += 1
        loop = body[i]
        if not (isinstance(loop, ast.For) and isinstance(loop.target, ast.Name) and isinstance(loop.iter, ast.Name) and loop.iter.id == cs
                and len(loop.body) == 1 and isinstance(loop.body[0], ast.If)):
            raise Unsupported("invalidate_cache: the classification loop")
        p = loop.target.id
        br = loop.body[0]
        chain = []
        while True:
            chain.append((br.test, br.body))
            if len(br.orelse) == 1 and isinstance(br.orelse[0], ast.If):
                br = br.orelse[0]
            else:
                final = br.orelse
                break
        kinds = {}
        for test, b in chain:
            src = ast.unparse(test)
            if not (len(b) == 1 and isinstance(b[0], ast.Expr) and isinstance(b[0].value, ast.Call) and isinstance(b[0].value.func, ast.Attribute)
                    and b[0].value.func.attr == "append" and isinstance(b[0].value.func.value, ast.Name) and b[0].value.func.value.id in lists
                    and ast.unparse(b[0].value.args[0]) == p):
                raise Unsupported("classification: a branch that is not an append of the argument")
            which = b[0].value.func.value.id
            if src == f"isinstance({p}, cached_property)":
                kinds["CProp"] = which
            elif src == f"hasattr({p}, 'cache_clear')":
                kinds["CLru"] = which
            else:
                raise Unsupported(f"classification test {src!r}")
        if set(kinds) != {"CProp", "CLru"} or kinds["CProp"] == kinds["CLru"] or not (len(final) == 1 and isinstance(final[0], ast.Raise)):
            raise Unsupported("classification: not cached_property / cache_clear / raise")
        # the order of the tests matters (a cached_property has no cache_clear; an lru wrapper is no cached_property)
        order = [k for test, _ in chain for k in ("CProp", "CLru") if (k == "CProp") == ast.unparse(test).startswith("isinstance")]
        pl, ll = kinds["CProp"], kinds["CLru"]
        env = {pl: (pl, "props"), ll: (ll, "lrus")}
        rest = self.top(body[i + 1:], env)
        arms = {"CProp": f"| CProp k_ => Some ({pl} ++ [k_], {ll})", "CLru": f"| CLru n_ => Some ({pl}, {ll} ++ [n_])"}
        classify = (f"Definition gen_classify ({cs} : list (callable K)) : option (list K * list nat) :=\n"
                    f"  fold_left (fun st_ {p} => match st_ with None => None | Some ({pl}, {ll}) =>\n"
                    f"    match {p} with\n    {arms[order[0]]}\n    {arms[order[1]]}\n    | COther => None\n    end end) {cs} (Some ([], [])).")
        main = (f"Definition gen_invalidate_cache ({cs} : list (callable K))\n"
                f"  : option (forall R : Type, (pycache K V -> list nat -> R) -> bool -> pycache K V -> list nat -> R) :=\n"
                f"  if isnil {cs} then None else\n  match gen_classify {cs} with\n  | None => None\n  | Some ({pl}, {ll}) =>\n  {rest}\n  end.")
        return classify + "\n\n" + main


def translate(repo):
    tree = ast.parse(open(os.path.join(repo, "src/sym_metanet/util/funcs.py")).read())
    fn = next((f for f in tree.body if isinstance(f, ast.FunctionDef) and f.name == "invalidate_cache"), None)
    if fn is None:
        raise Unsupported("invalidate_cache not found")
    out = ["(* GENERATED on every run by translator/cachegen.py (T13) from src/sym_metanet/util/funcs.py::invalidate_cache *)",
           "From Coq Require Import List Arith Bool.",
           "From SM Require Import PyCacheSupport.",
           "Import ListNotations.", "",
           "Section Gen.", "Context {K V : Type}.", "Variable keq : K -> K -> bool.", "",
           T(fn).translate(), "", "End Gen.", ""]
    return "\n".join(out)


if __name__ == "__main__":
    import sys
    print(translate(sys.argv[1] if len(sys.argv) > 1 else "/repo"))
