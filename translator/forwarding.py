"""T4: engine-forwarding call sites of the element layer.

For every function of network.py / blocks/*.py that has a parameter named `engine`, every call of
an engine-taking method is classified Fwd (the local name `engine` is passed on, positionally or as
`engine=engine`) or Drop.  Fail-closed on: a rebinding of `engine` other than
`if engine is None: engine = get_current_engine()`, any other use of get_current_engine(), any
call of use(...) or assignment to sym_metanet.engine in these files.
"""
import ast
import os

from translator.tables import Unsupported

FILES = ["network.py", "blocks/base.py", "blocks/links.py", "blocks/nodes.py", "blocks/origins.py",
         "blocks/destinations.py"]


def engine_methods(trees):
    """method names that have a parameter called `engine` in at least one definition"""
    names = set()
    for tree in trees.values():
        for n in ast.walk(tree):
            if isinstance(n, ast.FunctionDef):
                params = [a.arg for a in n.args.args + n.args.kwonlyargs]
                if "engine" in params and n.name not in ("__init__",):
                    names.add(n.name)
    return names


def is_none_guard(st):
    """`if engine is None: engine = get_current_engine()`"""
    if not (isinstance(st, ast.If) and not st.orelse and len(st.body) == 1):
        return False
    t = st.test
    if not (isinstance(t, ast.Compare) and isinstance(t.left, ast.Name) and t.left.id == "engine"
            and len(t.ops) == 1 and isinstance(t.ops[0], ast.Is)
            and isinstance(t.comparators[0], ast.Constant) and t.comparators[0].value is None):
        return False
    b = st.body[0]
    return (isinstance(b, ast.Assign) and len(b.targets) == 1 and isinstance(b.targets[0], ast.Name)
            and b.targets[0].id == "engine" and isinstance(b.value, ast.Call)
            and isinstance(b.value.func, ast.Name) and b.value.func.id == "get_current_engine"
            and not b.value.args and not b.value.keywords)


def translate(repo):
    trees = {}
    for f in FILES:
        trees[f] = ast.parse(open(os.path.join(repo, "src/sym_metanet", f)).read())
    methods = engine_methods(trees)
    sites = []
    for f, tree in trees.items():
        for cls in [n for n in tree.body if isinstance(n, ast.ClassDef)]:
            for fn in [n for n in cls.body if isinstance(n, ast.FunctionDef)]:
                params = [a.arg for a in fn.args.args + fn.args.kwonlyargs]
                has_engine = "engine" in params
                guards = [st for st in ast.walk(fn) if is_none_guard(st)]
                guard_calls = {id(g.body[0].value) for g in guards}
                guard_assigns = {id(g.body[0]) for g in guards}
                for n in ast.walk(fn):
                    if isinstance(n, ast.Call) and isinstance(n.func, ast.Name):
                        if n.func.id == "get_current_engine" and id(n) not in guard_calls:
                            raise Unsupported(f"{f}:{cls.name}.{fn.name}: get_current_engine() outside the None guard")
                        if n.func.id == "use":
                            raise Unsupported(f"{f}:{cls.name}.{fn.name}: calls use(...)")
                    if isinstance(n, ast.Attribute) and n.attr == "engine" and isinstance(n.value, ast.Name) \
                            and n.value.id in ("sym_metanet", "metanet"):
                        raise Unsupported(f"{f}:{cls.name}.{fn.name}: touches sym_metanet.engine")
                    if isinstance(n, (ast.Assign, ast.AugAssign, ast.AnnAssign)) and id(n) not in guard_assigns:
                        tg = n.targets if isinstance(n, ast.Assign) else [n.target]
                        for t in tg:
                            if isinstance(t, ast.Name) and t.id == "engine":
                                raise Unsupported(f"{f}:{cls.name}.{fn.name}: rebinds engine")
                kw = fn.args.kwarg.arg if fn.args.kwarg else None
                if not has_engine:
                    # a function without an engine parameter forwards the engine only by passing its own
                    # **kwargs on (ElementWithVars.step); otherwise the callee falls back to the selection
                    for n in ast.walk(fn):
                        if isinstance(n, ast.Call) and isinstance(n.func, ast.Attribute) and n.func.attr in methods \
                                and not (isinstance(n.func.value, ast.Name) and n.func.value.id in ("engine",)):
                            fwd = kw is not None and any(k.arg is None and isinstance(k.value, ast.Name)
                                                         and k.value.id == kw for k in n.keywords)
                            sites.append((f"{cls.name}.{fn.name}", n.func.attr, fwd, n.lineno))
                    continue
                for n in ast.walk(fn):
                    if isinstance(n, ast.Call) and isinstance(n.func, ast.Attribute) and n.func.attr in methods:
                        recv = n.func.value
                        if isinstance(recv, ast.Attribute) and isinstance(recv.value, ast.Name) and recv.value.id == "engine":
                            continue        # engine.links.get_flow(...): a primitive of the local engine
                        fwd = any(isinstance(a, ast.Name) and a.id == "engine" for a in n.args) or \
                            any(k.arg == "engine" and isinstance(k.value, ast.Name) and k.value.id == "engine"
                                for k in n.keywords)
                        sites.append((f"{cls.name}.{fn.name}", n.func.attr, fwd, n.lineno))
    out = ["(* engine-forwarding call sites: (caller, callee method, forwards the local engine) *)",
           "Definition gen_calls : list (string * string * bool) :=", "  ["]
    out.append(";\n".join(f'   ("{a}", "{b}", {"true" if c else "false"})' for (a, b, c, _) in sites))
    out += ["  ].", ""]
    return out


if __name__ == "__main__":
    import sys
    print("\n".join(translate(sys.argv[1] if len(sys.argv) > 1 else "/repo")))
