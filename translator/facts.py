"""T5: facts of the source that the hand-written life-cycle and compilation models rely on, read off the
code fail-closed and emitted into gen/Tables.v for Coq to check.

F1  blocks/*.py        per element class: does init_vars - its own, or the one it delegates to with an
                       unconditional `super().init_vars(...)` - reset `self.next_states = None`?
                       (Lifecycle.v: init_one drops the next states.)
F2  blocks/base.py     ElementWithVars.step stores `self.next_states[name] = <the new value>` for every state
                       name, unconditionally (Lifecycle.v: step_one overwrites).
F3  engines/casadi.py  how each compile helper classifies the compactness argument: the comparisons on
                       `compact`, turned into a function Z -> level (ToFunction.v: 0 | 1 | _).
Any other shape of these pieces of code raises Unsupported.
"""
import ast
import os

from translator.tables import ELEM_CLASSES, Unsupported, class_def, declared_groups


def _is_self_attr(node, attr):
    return isinstance(node, ast.Attribute) and node.attr == attr and isinstance(node.value, ast.Name) \
        and node.value.id == "self"


def _fn(cls, name):
    for n in cls.body:
        if isinstance(n, ast.FunctionDef) and n.name == name:
            return n
    return None


def init_resets(repo):
    trees = {}
    info = {}
    for cname, (f, ctor) in ELEM_CLASSES.items():
        if f not in trees:
            trees[f] = ast.parse(open(os.path.join(repo, "src/sym_metanet/blocks", f)).read())
        c = class_def(trees[f], cname)
        bases = []
        for b in c.bases:
            b0 = b.value if isinstance(b, ast.Subscript) else b
            if isinstance(b0, ast.Name):
                bases.append(b0.id)
        info[cname] = (c, bases)

    def resets(cname, depth=0):
        if cname not in info or depth > 5:
            return False              # ElementWithVars.init_vars is abstract
        c, bases = info[cname]
        fn = _fn(c, "init_vars")
        if fn is None:
            return any(resets(b, depth + 1) for b in bases)
        own = False
        delegated = False
        for st in fn.body:             # top-level statements only: unconditional
            if isinstance(st, (ast.Assign, ast.AnnAssign)):
                tgts = st.targets if isinstance(st, ast.Assign) else [st.target]
                if any(_is_self_attr(t, "next_states") for t in tgts):
                    v = st.value
                    if not (isinstance(v, ast.Constant) and v.value is None):
                        raise Unsupported(f"{cname}.init_vars assigns next_states something else than None")
                    own = True
            if isinstance(st, ast.Expr) and isinstance(st.value, ast.Call):
                f = st.value.func
                if isinstance(f, ast.Attribute) and f.attr == "init_vars" and isinstance(f.value, ast.Call) \
                        and isinstance(f.value.func, ast.Name) and f.value.func.id == "super":
                    delegated = True
        # a nested (conditional) reset is not a reset
        return own or (delegated and any(resets(b, depth + 1) for b in bases))
    return {cname: resets(cname) for cname in ELEM_CLASSES}


def step_overwrites(repo):
    tree = ast.parse(open(os.path.join(repo, "src/sym_metanet/blocks/base.py")).read())
    fn = _fn(class_def(tree, "ElementWithVars"), "step")
    if fn is None:
        raise Unsupported("ElementWithVars.step not found")
    new_name = None
    for st in fn.body:
        if isinstance(st, ast.Assign) and len(st.targets) == 1 and isinstance(st.targets[0], ast.Name) \
                and isinstance(st.value, ast.Call) and isinstance(st.value.func, ast.Attribute) \
                and st.value.func.attr == "step_dynamics":
            new_name = st.targets[0].id
    if new_name is None:
        raise Unsupported("ElementWithVars.step: no `x = self.step_dynamics(...)`")
    for st in fn.body:
        if isinstance(st, ast.For) and isinstance(st.iter, ast.Call) and isinstance(st.iter.func, ast.Attribute) \
                and st.iter.func.attr == "items" and _is_self_attr(st.iter.func.value, "states"):
            if not (isinstance(st.target, ast.Tuple) and isinstance(st.target.elts[0], ast.Name)):
                raise Unsupported("ElementWithVars.step: loop target")
            key = st.target.elts[0].id
            alias = {}
            for s2 in st.body:         # top level of the loop body: unconditional
                if isinstance(s2, ast.Assign) and len(s2.targets) == 1:
                    t, v = s2.targets[0], s2.value
                    if isinstance(t, ast.Name) and isinstance(v, ast.Subscript) and isinstance(v.value, ast.Name) \
                            and v.value.id == new_name and isinstance(v.slice, ast.Name) and v.slice.id == key:
                        alias[t.id] = True          # next_state = next_states[name]
                    if isinstance(t, ast.Subscript) and _is_self_attr(t.value, "next_states") \
                            and isinstance(t.slice, ast.Name) and t.slice.id == key:
                        if isinstance(v, ast.Name) and alias.get(v.id):
                            return True
                        if isinstance(v, ast.Subscript) and isinstance(v.value, ast.Name) and v.value.id == new_name \
                                and isinstance(v.slice, ast.Name) and v.slice.id == key:
                            return True
            return False
    return False


CMP = {ast.LtE: "Z.leb", ast.Lt: "Z.ltb", ast.GtE: "Z.geb", ast.Gt: "Z.gtb", ast.Eq: "Z.eqb"}


def _compact_test(test):
    """`compact <op> <int>` -> Coq boolean expression over c, else None"""
    if isinstance(test, ast.Compare) and len(test.ops) == 1 and isinstance(test.left, ast.Name) \
            and test.left.id == "compact" and isinstance(test.comparators[0], ast.Constant) \
            and isinstance(test.comparators[0].value, int) and type(test.ops[0]) in CMP:
        k = test.comparators[0].value
        return f"({CMP[type(test.ops[0])]} c {k if k >= 0 else '(' + str(k) + ')'})"
    return None


def _mentions_compact(node):
    return any(isinstance(n, ast.Name) and n.id == "compact" for n in ast.walk(node))


def level_functions(repo):
    """each helper -> Coq term `fun c : Z => <level>`"""
    tree = ast.parse(open(os.path.join(repo, "src/sym_metanet/engines/casadi.py")).read())
    out = {}
    for name in ("_gather_inputs", "_gather_outputs", "_add_parameters_to_inputs", "_add_flows_to_outputs"):
        fn = next((n for n in tree.body if isinstance(n, ast.FunctionDef) and n.name == name), None)
        if fn is None:
            raise Unsupported(f"compile helper {name} not found")
        ifs = [st for st in fn.body if isinstance(st, ast.If) and _mentions_compact(st.test)]
        others = [st for st in fn.body if not (isinstance(st, ast.If) and _mentions_compact(st.test))]
        for st in others:
            if _mentions_compact(st):
                raise Unsupported(f"{name}: `compact` used outside a top-level test")
        for st in ifs:
            for sub in st.body + st.orelse:
                if _mentions_compact(sub):
                    raise Unsupported(f"{name}: nested use of `compact`")
        tests = [_compact_test(st.test) for st in ifs]
        if any(t is None for t in tests):
            raise Unsupported(f"{name}: a test on `compact` is not `compact <op> <integer>`")

        def returns(st):
            return bool(st.body) and isinstance(st.body[-1], ast.Return)
        if len(ifs) == 2 and returns(ifs[0]) and not ifs[0].orelse and ifs[1].orelse and not returns(ifs[1]):
            # if A: ...; return          (level 0)
            # ...; if B: (level 1) else: (level 2)
            out[name] = f"fun c : Z => if {tests[0]} then 0%nat else if {tests[1]} then 1%nat else 2%nat"
        elif len(ifs) == 1 and ifs[0].orelse and not returns(ifs[0]):
            # if A: (separate) else: (stacked)
            out[name] = f"fun c : Z => if {tests[0]} then 0%nat else 1%nat"
        elif len(ifs) == 2 and not any(st.orelse for st in ifs) and not any(returns(st) for st in ifs):
            # if A: aggregate once;  if B: aggregate further        (cumulative, in this order)
            out[name] = f"fun c : Z => if {tests[0]} then (if {tests[1]} then 2%nat else 1%nat) else 0%nat"
        else:
            raise Unsupported(f"{name}: unexpected structure of the tests on `compact`")
    return out


def _guard(lines, what, produce, fallback):
    """one fact group: on Unsupported (the code no longer has the expected shape) emit a value for which the
    theorem about this fact cannot hold, and say why - only the properties resting on this fact are affected"""
    try:
        lines += produce()
    except Unsupported as ex:
        msg = str(ex).replace("*)", "* )")
        lines += [f"(* {what}: NOT READABLE from the source - {msg} *)"] + fallback


def translate(repo):
    groups = declared_groups(repo)
    b = lambda x: "true" if x else "false"
    lines = ["(* T5: facts of the source the life-cycle and compilation models rely on *)",
             "From Coq Require Import ZArith."]

    def f1():
        res = init_resets(repo)
        return ["(* element class -> (declares states, init_vars resets next_states - own or via super()) *)",
                "Definition gen_init_resets : list (eclass * (bool * bool)) :=", "  [",
                ";\n".join(f"   ({ELEM_CLASSES[c][1]}, ({b(groups[c]['_states'])}, {b(res[c])}))" for c in ELEM_CLASSES),
                "  ].", ""]
    _guard(lines, "init_vars resets", f1, ["Definition gen_init_resets : list (eclass * (bool * bool)) := [(ELink, (true, false))].", ""])

    def f2():
        return ["(* ElementWithVars.step stores the new value of every state name, unconditionally *)",
                f"Definition gen_step_overwrites : bool := {b(step_overwrites(repo))}.", ""]
    _guard(lines, "ElementWithVars.step", f2, ["Definition gen_step_overwrites : bool := false.", ""])
    names = {"_gather_inputs": "gen_level_inputs", "_gather_outputs": "gen_level_outputs",
             "_add_parameters_to_inputs": "gen_level_parameters", "_add_flows_to_outputs": "gen_level_flows"}

    def f3():
        lv = level_functions(repo)
        return ["(* how each compile helper of engines/casadi.py classifies the compactness argument *)"] + \
               [f"Definition {v} : Z -> nat := {lv[k]}." for k, v in names.items()] + [""]
    _guard(lines, "tests on `compact`", f3, [f"Definition {v} : Z -> nat := fun _ => 99%nat." for v in names.values()] + [""])
    return lines


# ---------------------------------------------------------------------------
# F5  network.py  Network.step: defaults of the six positivity options, and what each of the three phases
#                 (init_vars of every element, step of every origin, step of every link) is handed
# F6  network.py  Network.is_valid: every reported condition is followed by the raise under `raises`,
#                 and the verdict is `not msgs`
OPTIONS = ("positive_init_speed", "positive_init_density", "positive_init_queue",
           "positive_next_speed", "positive_next_density", "positive_next_queue")


def _network_method(repo, name):
    tree = ast.parse(open(os.path.join(repo, "src/sym_metanet/network.py")).read())
    fn = _fn(class_def(tree, "Network"), name)
    if fn is None:
        raise Unsupported(f"Network.{name} not found")
    return fn


def step_facts(repo):
    fn = _network_method(repo, "step")
    a = fn.args
    names = [x.arg for x in a.args]
    defaults = dict(zip(names[len(names) - len(a.defaults):], a.defaults))
    for x, d in zip(a.kwonlyargs, a.kw_defaults):
        defaults[x.arg] = d
    opt_defaults = {}
    for o in OPTIONS:
        d = defaults.get(o)
        if d is None or not (isinstance(d, ast.Constant) and isinstance(d.value, bool)):
            raise Unsupported(f"Network.step: option {o} is not a parameter with a literal boolean default")
        opt_defaults[o] = d.value
    phases = []
    for st in fn.body:
        if isinstance(st, ast.Expr) and isinstance(st.value, ast.Constant):
            continue                                   # docstring
        if isinstance(st, ast.If):
            # only `if init_conditions is None: init_conditions = {}` may precede the phases
            t = st.test
            ok = isinstance(t, ast.Compare) and isinstance(t.left, ast.Name) and t.left.id == "init_conditions" \
                and len(t.ops) == 1 and isinstance(t.ops[0], ast.Is) and not st.orelse and len(st.body) == 1 \
                and isinstance(st.body[0], ast.Assign) and isinstance(st.body[0].value, ast.Dict) and not st.body[0].value.keys
            if not ok:
                raise Unsupported("Network.step: unexpected conditional before/between the phases")
            continue
        if not isinstance(st, ast.For) or st.orelse or len(st.body) != 1 or not isinstance(st.body[0], ast.Expr) \
                or not isinstance(st.body[0].value, ast.Call):
            raise Unsupported(f"Network.step: unexpected statement {ast.unparse(st)[:60]!r}")
        it = st.iter
        if not (_is_self_attr(it, "elements") or _is_self_attr(it, "origins") or _is_self_attr(it, "links")):
            raise Unsupported("Network.step: loop over something else than self.elements / self.origins / self.links")
        over = it.attr
        tgt = st.target
        var = tgt.id if isinstance(tgt, ast.Name) else (tgt.elts[-1].id if isinstance(tgt, ast.Tuple) and isinstance(tgt.elts[-1], ast.Name) else None)
        call = st.body[0].value
        f = call.func
        if not (isinstance(f, ast.Attribute) and isinstance(f.value, ast.Name) and f.value.id == var and not call.args):
            raise Unsupported("Network.step: the loop body is not a keyword-only method call on the loop variable")
        kws = {}
        star = False
        for kw in call.keywords:
            if kw.arg is None:
                if not (isinstance(kw.value, ast.Name) and kw.value.id == (a.kwarg.arg if a.kwarg else None)):
                    raise Unsupported("Network.step: ** of something else than the extra parameters")
                star = True
            else:
                kws[kw.arg] = kw.value
        fwd = sorted(o for o in OPTIONS if o in kws and isinstance(kws[o], ast.Name) and kws[o].id == o)
        bad = [o for o in OPTIONS if o in kws and o not in fwd]
        if bad:
            raise Unsupported(f"Network.step: option(s) {bad} passed on with another value")
        engine_fwd = "engine" in kws and isinstance(kws["engine"], ast.Name) and kws["engine"].id == "engine"
        by_element = None
        if "init_conditions" in kws:
            v = kws["init_conditions"]
            by_element = isinstance(v, ast.Call) and isinstance(v.func, ast.Attribute) and v.func.attr == "get" \
                and isinstance(v.func.value, ast.Name) and v.func.value.id == "init_conditions" and len(v.args) == 1 \
                and isinstance(v.args[0], ast.Name) and v.args[0].id == var
        phases.append(dict(over=over, method=f.attr, options=fwd, engine=engine_fwd, star=star, by_element=by_element))
    return opt_defaults, phases


def valid_facts(repo):
    fn = _network_method(repo, "is_valid")
    sites = []

    def walk(stmts):
        for i, st in enumerate(stmts):
            if isinstance(st, ast.Expr) and isinstance(st.value, ast.Call) and isinstance(st.value.func, ast.Attribute) \
                    and st.value.func.attr == "append" and isinstance(st.value.func.value, ast.Name) \
                    and st.value.func.value.id == "msgs":
                nxt = stmts[i + 1] if i + 1 < len(stmts) else None
                follows = isinstance(nxt, ast.If) and isinstance(nxt.test, ast.Name) and nxt.test.id == "raises" \
                    and not nxt.orelse and len(nxt.body) == 1 and isinstance(nxt.body[0], ast.Raise)
                txt = ast.unparse(st.value.args[0])[:48].replace('"', "'").replace("\n", " ") if st.value.args else "?"
                sites.append((txt, follows))
            for fld in ("body", "orelse", "finalbody"):
                sub = getattr(st, fld, None)
                if isinstance(sub, list) and not isinstance(st, (ast.FunctionDef, ast.ClassDef)):
                    walk(sub)
    walk(fn.body)
    raises_elsewhere = 0
    for n in ast.walk(fn):
        if isinstance(n, ast.Raise):
            raises_elsewhere += 1
    rets = [n for n in ast.walk(fn) if isinstance(n, ast.Return) and not isinstance(n.value, type(None))]
    rets = [r for r in rets if r.value is not None and not (isinstance(r.value, ast.Subscript))]
    verdict = False
    outer = [n for n in fn.body if isinstance(n, ast.Return)]
    if len(outer) == 1 and isinstance(outer[0].value, ast.Tuple) and len(outer[0].value.elts) == 2:
        a0, a1 = outer[0].value.elts
        verdict = isinstance(a0, ast.UnaryOp) and isinstance(a0.op, ast.Not) and isinstance(a0.operand, ast.Name) \
            and a0.operand.id == "msgs" and isinstance(a1, ast.Name) and a1.id == "msgs"
    return sites, verdict, raises_elsewhere == sum(1 for _, f in sites if f)


# ---------------------------------------------------------------------------
# F4  engines/casadi.py  Engine.to_function: the readiness scan in front of everything else
def _same(node, src):
    """is `node` the expression `src` (compared as syntax trees)?"""
    return ast.dump(node) == ast.dump(ast.parse(src, mode="eval").body)


def readiness_facts(repo):
    tree = ast.parse(open(os.path.join(repo, "src/sym_metanet/engines/casadi.py")).read())
    fn = _fn(class_def(tree, "Engine"), "to_function")
    if fn is None:
        raise Unsupported("Engine.to_function not found")
    body = [st for st in fn.body if not (isinstance(st, ast.Expr) and isinstance(st.value, ast.Constant))]
    scan = body[0] if body else None
    if not isinstance(scan, ast.For):
        raise Unsupported("Engine.to_function does not start with the readiness loop")
    over_all = _same(scan.iter, "product(net.elements, ['_states', '_actions', '_disturbances'])") and \
        isinstance(scan.target, ast.Tuple) and [getattr(e, "id", None) for e in scan.target.elts] == ["el", "group"]
    ifs = [st for st in scan.body if isinstance(st, ast.If)]
    if len(ifs) != 2 or len(scan.body) != 2 or any(st.orelse for st in ifs):
        raise Unsupported("Engine.to_function: the readiness loop is not two plain conditionals")

    def raises_runtime(st):
        return len(st.body) == 1 and isinstance(st.body[0], ast.Raise) and isinstance(st.body[0].exc, ast.Call) \
            and isinstance(st.body[0].exc.func, ast.Name) and st.body[0].exc.func.id == "RuntimeError"
    init_check = _same(ifs[0].test, "any(getattr(el, group)) and (not getattr(el, f'has{group}'))") and raises_runtime(ifs[0])
    step_check = _same(ifs[1].test, "any(el._states) and (not el.has_next_states)") and raises_runtime(ifs[1])
    # has_states / has_actions / has_disturbances / has_next_states are `self.<slot> is not None`
    base = ast.parse(open(os.path.join(repo, "src/sym_metanet/blocks/base.py")).read())
    cls = class_def(base, "ElementWithVars")
    props_ok = True
    for prop, slot in (("has_states", "states"), ("has_next_states", "next_states"), ("has_actions", "actions"),
                       ("has_disturbances", "disturbances")):
        f = _fn(cls, prop)
        rets = [st for st in (f.body if f else []) if isinstance(st, ast.Return)]
        props_ok = props_ok and f is not None and len(rets) == 1 and _same(rets[0].value, f"self.{slot} is not None")
    return over_all, init_check, step_check, props_ok


_translate_f1_f3 = translate


def translate(repo):            # noqa: F811  (extends the F1-F3 output)
    lines = _translate_f1_f3(repo)
    b = lambda x: "true" if x else "false"

    def f5():
        od, phases = step_facts(repo)
        out = ["(* Network.step: defaults of the six positivity options *)",
               "Definition gen_option_defaults : list (string * bool) :=",
               "  [" + "; ".join(f'("{o}", {b(od[o])})' for o in OPTIONS) + "].",
               "(* Network.step: (loop over, method called, options handed on under their own name, engine handed on,",
               "   extra parameters handed on, initial conditions looked up by the element object) per phase, in order *)",
               "Definition gen_step_phases : list (string * string * list string * bool * bool * option bool) :=", "  ["]
        out.append(";\n".join(
            f'   ("{p["over"]}", "{p["method"]}", [' + "; ".join(f'"{o}"' for o in p["options"]) + f'], {b(p["engine"])}, {b(p["star"])}, '
            + ("None" if p["by_element"] is None else f"Some {b(p['by_element'])}") + ")" for p in phases))
        return out + ["  ].", ""]
    _guard(lines, "Network.step", f5,
           ["Definition gen_option_defaults : list (string * bool) := [].",
            "Definition gen_step_phases : list (string * string * list string * bool * bool * option bool) := [].", ""])

    def f4():
        ra, rb, rc, rd = readiness_facts(repo)
        return ["(* Engine.to_function starts with: for every element x {_states, _actions, _disturbances}: a declared but",
                "   uninitialised group raises RuntimeError; declared states without next states raise RuntimeError; and the",
                "   has_* properties are `slot is not None` *)",
                f"Definition gen_ready_scan : bool * bool * bool * bool := ({b(ra)}, {b(rb)}, {b(rc)}, {b(rd)}).", ""]
    _guard(lines, "readiness scan of to_function", f4,
           ["Definition gen_ready_scan : bool * bool * bool * bool := (false, false, false, false).", ""])

    def f6():
        sites, verdict, only = valid_facts(repo)
        out = ["(* Network.is_valid: every msgs.append(...) and whether `if raises: raise ...` is the next statement *)",
               "Definition gen_valid_sites : list (string * bool) :=", "  ["]
        out.append(";\n".join(f'   ("{t}", {b(f)})' for t, f in sites))
        return out + ["  ].", f"Definition gen_valid_verdict_is_not_msgs : bool := {b(verdict)}.",
                      f"Definition gen_valid_raises_only_there : bool := {b(only)}.", ""]
    _guard(lines, "Network.is_valid", f6,
           ["Definition gen_valid_sites : list (string * bool) := [].",
            "Definition gen_valid_verdict_is_not_msgs : bool := false.",
            "Definition gen_valid_raises_only_there : bool := false.", ""])
    return lines


if __name__ == "__main__":
    import sys
    print("\n".join(translate(sys.argv[1] if len(sys.argv) > 1 else "/repo")))
