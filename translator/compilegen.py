"""T12: the compile helpers of engines/casadi.py (`_gather_inputs`, `_gather_outputs`, `_add_parameters_to_inputs`,
`_add_flows_to_outputs`) executed symbolically from their AST into Gallina (gen/CompileGen.v) over a small model of the
Python containers they use (PySupport.v: insertion-ordered dictionaries as association lists, lists, strings).
proofs/CompileGenTie.v proves the layout functions of the hand-written model ToFunction.v - which C03 / C04 / C05 / C16 /
C19 are about - equal to the result, for EVERY integer compactness level.

READ from the source: every test on `compact`, the order of the groups (x, u, d), the nesting and order of the loops,
how a name is composed (f-strings, `+= "+"`), what is appended to which list in which order, the regrouping by variable
name (`if varname in group: group[varname].append(var) else: group[varname] = [var]`), the stacking calls (`cs.vcat`,
`cs.vertcat`) and what they are applied to, the order in which names and values are chained, and the returned pair.

TRUSTED (idiom table): PySupport.v as model of dict / list / str; a `for` over a literal tuple or list of names is
unrolled (the loop variable is an alias of each name in turn, so stores through it reach the named dictionary);
`for k, v in D.items(): D[k] = f(v)` maps the values of D in place (size and order unchanged); `cs.vcat` / `cs.vertcat`
are one abstract stacking function `vcat : list V -> V`; `el.name`, `link.get_flow(engine)` and
`origin.get_flow(net, engine=engine, **parameters, **other_parameters)` are abstract functions of the element; a
function that mutates the lists it is handed returns them.  `D[k]` is accepted only where `k in D` is known (else
KeyError), `lst[0]` only where the translator knows the list literally (else the generated function returns None: an
IndexError, proved unreachable).  Anything else fails closed."""
import ast
import copy
import os


class Unsupported(Exception):
    pass


def par(s):
    return s if s.replace("_", "a").replace("'", "a").isalnum() else f"({s})"


class Rename(ast.NodeTransformer):
    def __init__(self, m):
        self.m = m

    def visit_Name(self, n):
        return ast.copy_location(ast.Name(id=self.m[n.id], ctx=n.ctx), n) if n.id in self.m else n


FUNCS = {
    "_gather_inputs": dict(params=["x", "u", "d", "compact"], mutates=[]),
    "_gather_outputs": dict(params=["x_next", "compact"], mutates=[]),
    "_add_parameters_to_inputs": dict(params=["names_in", "args_in", "parameters", "compact"], mutates=["names_in", "args_in"]),
    "_add_flows_to_outputs": dict(params=["names_out", "args_out", "engine", "net", "parameters", "other_parameters", "compact"],
                                  mutates=["names_out", "args_out"]),
}
PTYPES = {"x": "ddict", "u": "ddict", "d": "ddict", "x_next": "ddict", "compact": "Z", "names_in": "lstr", "args_in": "lV",
          "names_out": "lstr", "args_out": "lV", "parameters": "dict", "engine": "opaque", "net": "net", "other_parameters": "opaque"}
COQ_PT = {"ddict": "list (E * list (string * V))", "Z": "Z", "lstr": "list string", "lV": "list V", "dict": "list (string * V)"}


class F:
    def __init__(self, fn, spec):
        self.fn = fn
        self.spec = spec
        self.partial = False        # does the generated term use None (an unreachable IndexError)?

    # ---- expressions: returns (coq, type); types: str, V, Z, bool, list, lstr, lV, dict, ddict, E, L, O, pair ----
    def expr(self, e, env, known):
        if isinstance(e, ast.Name):
            if e.id in env and env[e.id] is not None:
                return env[e.id][0], env[e.id][1]
            raise Unsupported(f"{self.fn.name}: name {e.id} not usable here")
        if isinstance(e, ast.Constant) and isinstance(e.value, str):
            return '"' + e.value.replace('"', '""') + '"%string', "str"
        if isinstance(e, ast.Constant) and isinstance(e.value, int) and not isinstance(e.value, bool):
            return f"{e.value}%Z", "Z"
        if isinstance(e, ast.JoinedStr):
            parts = []
            for v in e.values:
                if isinstance(v, ast.Constant):
                    parts.append('"' + v.value.replace('"', '""') + '"%string')
                elif isinstance(v, ast.FormattedValue) and v.conversion == -1 and v.format_spec is None:
                    s, t = self.expr(v.value, env, known)
                    if t != "str":
                        raise Unsupported(f"{self.fn.name}: a {t} formatted into a name")
                    parts.append(par(s))
                else:
                    raise Unsupported(f"{self.fn.name}: f-string part")
            return "(" + " ++ ".join(parts) + ")%string", "str"
        if isinstance(e, ast.Attribute) and e.attr == "name":
            s, t = self.expr(e.value, env, known)
            if t in ("E", "L", "O"):
                return f"{ {'E': 'ename', 'L': 'lname', 'O': 'oname'}[t]} {par(s)}", "str"
        if isinstance(e, ast.Attribute) and isinstance(e.value, ast.Name) and env.get(e.value.id, (0, 0))[1] == "net":
            if e.attr == "links":
                return "net_links", "links"
            if e.attr == "origins":
                return "net_origins", "lO"
        if isinstance(e, (ast.List, ast.Tuple)) and isinstance(e.ctx, ast.Load):
            vs = [self.expr(x, env, known) for x in e.elts]
            if isinstance(e, ast.List):
                ts = {t for _, t in vs}
                lt = {"str": "lstr", "V": "lV"}.get(ts.pop(), "list") if len(ts) == 1 else "list"
                return "[" + "; ".join(s for s, _ in vs) + "]", lt
            if len(vs) == 2:
                return "(" + ", ".join(s for s, _ in vs) + ")", "pair"
        if isinstance(e, ast.Dict) and not e.keys:
            return "[]", "dict"
        if isinstance(e, ast.Compare) and len(e.ops) == 1:
            a, ta = self.expr(e.left, env, known)
            b, tb = self.expr(e.comparators[0], env, known)
            op = e.ops[0]
            if ta == tb == "Z":
                t = {ast.LtE: "Z.leb {a} {b}", ast.Lt: "Z.ltb {a} {b}", ast.GtE: "Z.leb {b} {a}", ast.Gt: "Z.ltb {b} {a}",
                     ast.Eq: "Z.eqb {a} {b}", ast.NotEq: "negb (Z.eqb {a} {b})"}.get(type(op))
                if t:
                    return t.format(a=par(a), b=par(b)), "bool"
            if isinstance(op, (ast.In, ast.NotIn)) and ta == "str" and tb == "dict":
                s = f"d_mem {par(b)} {par(a)}"
                return (s if isinstance(op, ast.In) else f"negb ({s})"), "bool"
        if isinstance(e, ast.BinOp) and isinstance(e.op, ast.Add):
            a, ta = self.expr(e.left, env, known)
            b, tb = self.expr(e.right, env, known)
            if ta in ("lstr", "lV", "list") and tb in ("lstr", "lV", "list") and (ta == tb or "list" in (ta, tb)):
                return f"({par(a)} ++ {par(b)})%list", (tb if ta == "list" else ta)
            if ta == tb == "str":
                return f"({par(a)} ++ {par(b)})%string", "str"
        if isinstance(e, ast.Subscript) and isinstance(e.value, ast.Name):
            d, td = self.expr(e.value, env, known)
            if td == "dict" and isinstance(e.slice, ast.Name):
                k, tk = self.expr(e.slice, env, known)
                if (e.value.id, e.slice.id) in known:
                    return f"d_get {par(d)} {par(k)}", "dval"
                raise Unsupported(f"{self.fn.name}: {ast.unparse(e)} where the key is not known to be present")
            if isinstance(e.slice, ast.Constant) and e.slice.value == 0 and td in ("lV", "lstr", "list"):
                lit = env[e.value.id][2] if len(env[e.value.id]) > 2 else None
                if lit:
                    return lit[0], ("V" if td == "lV" else "str")
                self.partial = True
                return None, "index-error"
        if isinstance(e, ast.Call):
            return self.call(e, env, known)
        raise Unsupported(f"{self.fn.name}: expression {ast.unparse(e)[:60]!r}")

    def call(self, e, env, known):
        f = e.func
        if isinstance(f, ast.Attribute) and not e.args and not e.keywords and f.attr in ("items", "keys", "values"):
            d, td = self.expr(f.value, env, known)
            if td == "dict":
                return {"items": (d, "items"), "keys": (f"map fst {par(d)}", "lstr"), "values": (f"map snd {par(d)}", "lV")}[f.attr]
            if td == "ddict":
                return {"items": (d, "ditems"), "values": (f"map snd {par(d)}", "ldict")}.get(f.attr) or (_ for _ in ()).throw(
                    Unsupported("keys of the element dictionary"))
            if td == "dval":
                raise Unsupported("view of a dictionary value")
        if isinstance(f, ast.Attribute) and isinstance(f.value, ast.Name) and f.value.id == "cs" and not e.keywords:
            if f.attr == "vcat" and len(e.args) == 1:
                s, t = self.expr(e.args[0], env, known)
                if t in ("lV", "list", "dval"):
                    return f"vcat {par(s)}", "V"
            if f.attr == "vertcat" and e.args:
                vs = [self.expr(a, env, known) for a in e.args]
                if any(t == "index-error" for _, t in vs):
                    return None, "index-error"
                if all(t == "V" for _, t in vs):
                    return "vcat [" + "; ".join(s for s, _ in vs) + "]", "V"
        if isinstance(f, ast.Name) and f.id == "list" and len(e.args) == 1 and not e.keywords:
            return self.expr(e.args[0], env, known)
        if isinstance(f, ast.Name) and f.id == "chain" and e.args and not e.keywords:
            vs = [self.expr(a, env, known) for a in e.args]
            ts = {t for _, t in vs}
            if len(ts) == 1 and ts <= {"lstr", "lV"}:
                return "(" + " ++ ".join(par(s) for s, _ in vs) + ")%list", ts.pop()
        if isinstance(f, ast.Attribute) and f.attr == "get_flow" and isinstance(f.value, ast.Name):
            s, t = self.expr(f.value, env, known)
            src = ast.unparse(e)
            if t == "L" and src == f"{f.value.id}.get_flow(engine)":
                return f"lflow {par(s)}", "V"
            if t == "O" and src == f"{f.value.id}.get_flow(net, engine=engine, **parameters, **other_parameters)":
                return f"oflow {par(s)}", "V"
        raise Unsupported(f"{self.fn.name}: call {ast.unparse(e)[:70]!r}")

    # ---- statements ----
    def mutated(self, stmts, env):
        out = []

        def add(n):
            if n in env and env[n] is not None and n not in out:
                out.append(n)
        for st in stmts:
            for n in ast.walk(st):
                if isinstance(n, (ast.Assign, ast.AugAssign, ast.AnnAssign)):
                    for t in (n.targets if isinstance(n, ast.Assign) else [n.target]):
                        for x in ([t] if not isinstance(t, ast.Tuple) else t.elts):
                            if isinstance(x, ast.Name):
                                add(x.id)
                            elif isinstance(x, ast.Subscript) and isinstance(x.value, ast.Name):
                                add(x.value.id)
                if isinstance(n, ast.Call) and isinstance(n.func, ast.Attribute) and n.func.attr in ("append", "extend"):
                    v = n.func.value
                    if isinstance(v, ast.Name):
                        add(v.id)
                    elif isinstance(v, ast.Subscript) and isinstance(v.value, ast.Name):
                        add(v.value.id)
        return out

    def block(self, stmts, env, known, fin):
        """coq term for the statements followed by fin(env) (the continuation)"""
        if not stmts:
            return fin(env)
        st, rest = stmts[0], list(stmts[1:])

        def cont(env2, known2=None):
            return self.block(rest, env2, known if known2 is None else known2, fin)
        if isinstance(st, ast.Expr) and isinstance(st.value, ast.Constant):
            return cont(env)
        if isinstance(st, ast.AnnAssign) and st.value is None and isinstance(st.target, ast.Name):
            return cont(env)                       # a bare annotation (`link: "Link[VarType]"`)
        if isinstance(st, ast.Return):
            if self.spec["mutates"]:
                if st.value is not None:
                    raise Unsupported(f"{self.fn.name}: returns a value")
                return self.result(env)
            s, t = self.expr(st.value, env, known)
            if t != "pair":
                raise Unsupported(f"{self.fn.name}: returns a {t}")
            return s
        if isinstance(st, (ast.Assign, ast.AnnAssign)):
            tgt = st.targets[0] if isinstance(st, ast.Assign) and len(st.targets) == 1 else getattr(st, "target", None)
            v = st.value
            if isinstance(tgt, ast.Tuple) and isinstance(v, ast.Tuple) and len(tgt.elts) == len(v.elts) \
                    and all(isinstance(x, ast.Name) for x in tgt.elts):
                vals = [self.val(x, env, known) for x in v.elts]
                env2 = dict(env)
                lets = []
                for x, (s, t, lit) in zip(tgt.elts, vals):
                    lets.append(f"let {x.id} := {s} in")
                    env2[x.id] = (x.id, t, lit)
                return "\n  ".join(lets) + "\n  " + cont(env2)
            if isinstance(tgt, ast.Name):
                s, t, lit = self.val(v, env, known)
                if t == "index-error":
                    return "None"
                env2 = dict(env)
                pre = ""
                if lit:
                    # the elements of a literal list get names of their own: the list variable may be rebound later
                    self.nfresh = getattr(self, "nfresh", 0) + 1
                    names = [f"{tgt.id}_{self.nfresh}_{i}" for i in range(len(lit))]
                    pre = "".join(f"let {n} := {x} in\n  " for n, x in zip(names, lit))
                    s, lit = "[" + "; ".join(names) + "]", names
                env2[tgt.id] = (tgt.id, t, lit)
                return pre + f"let {tgt.id} := {s} in\n  " + cont(env2, {k for k in known if k[0] != tgt.id})
            if isinstance(tgt, ast.Subscript) and isinstance(tgt.value, ast.Name) and isinstance(tgt.slice, ast.Name) \
                    and env.get(tgt.value.id, (0, 0))[1] == "dict":
                d = tgt.value.id
                k, tk = self.expr(tgt.slice, env, known)
                s, t, _ = self.val(v, env, known)
                if tk == "str":
                    return f"let {d} := d_set {d} {par(k)} {par(s)} in\n  " + cont(env, known | {(d, tgt.slice.id)})
        if isinstance(st, ast.AugAssign) and isinstance(st.op, ast.Add) and isinstance(st.target, ast.Name):
            x = st.target.id
            a, ta = self.expr(st.target, env, known)
            b, tb = self.expr(st.value, env, known)
            if ta == tb == "str":
                env2 = dict(env)
                env2[x] = (x, "str")
                return f"let {x} := ({a} ++ {par(b)})%string in\n  " + cont(env2, {k for k in known if k[1] != x})
        if isinstance(st, ast.Expr) and isinstance(st.value, ast.Call) and isinstance(st.value.func, ast.Attribute) \
                and st.value.func.attr in ("append", "extend") and len(st.value.args) == 1 and not st.value.keywords:
            c = st.value
            tgt = c.func.value
            s, t = self.expr(c.args[0], env, known)
            if t == "index-error":
                return "None"
            add = f"[{s}]" if c.func.attr == "append" else par(s)
            if isinstance(tgt, ast.Name) and env.get(tgt.id, (0, 0))[1] in ("lstr", "lV", "list"):
                x = tgt.id
                env2 = dict(env)
                env2[x] = (x, env[x][1])          # no longer a known literal
                return f"let {x} := ({x} ++ {add})%list in\n  " + cont(env2)
            if isinstance(tgt, ast.Subscript) and isinstance(tgt.value, ast.Name) and isinstance(tgt.slice, ast.Name) \
                    and env.get(tgt.value.id, (0, 0))[1] == "dict" and (tgt.value.id, tgt.slice.id) in known:
                d = tgt.value.id
                k, _ = self.expr(tgt.slice, env, known)
                return f"let {d} := d_set {d} {par(k)} (d_get {d} {par(k)} ++ {add})%list in\n  " + cont(env)
        if isinstance(st, ast.If):
            c, tc = self.expr(st.test, env, known)
            if tc != "bool":
                raise Unsupported(f"{self.fn.name}: condition {ast.unparse(st.test)[:50]!r}")
            kt, ke = set(known), set(known)
            t = st.test
            if isinstance(t, ast.Compare) and isinstance(t.ops[0], (ast.In, ast.NotIn)) and isinstance(t.left, ast.Name) \
                    and isinstance(t.comparators[0], ast.Name):
                (kt if isinstance(t.ops[0], ast.In) else ke).add((t.comparators[0].id, t.left.id))
            return (f"if {c}\n  then ({self.block(list(st.body) + rest, dict(env), kt, fin)})\n"
                    f"  else ({self.block(list(st.orelse) + rest, dict(env), ke, fin)})")
        if isinstance(st, ast.For) and not st.orelse:
            return self.loop(st, rest, env, known, fin)
        raise Unsupported(f"{self.fn.name}: statement {ast.unparse(st)[:70]!r}")

    def val(self, v, env, known):
        """value of an assignment: (coq, type, literal elements or None)"""
        if isinstance(v, ast.List):
            if not v.elts:
                return "[]", "list", None
            vs = [self.expr(x, env, known) for x in v.elts]
            if any(t == "index-error" for _, t in vs):
                return None, "index-error", None
            s, t = self.expr(v, env, known)
            return s, t, [x for x, _ in vs]
        s, t = self.expr(v, env, known)
        return s, t, None

    def loop(self, st, rest, env, known, fin):
        it = st.iter
        # a loop over a literal tuple / list of names (or of tuples of names): unrolled, the target an alias
        if isinstance(it, (ast.Tuple, ast.List)) and it.elts:
            bodies = []
            for el in it.elts:
                if isinstance(st.target, ast.Name) and isinstance(el, ast.Name):
                    m = {st.target.id: el.id}
                elif isinstance(st.target, ast.Tuple) and isinstance(el, ast.Tuple) and len(el.elts) == len(st.target.elts) \
                        and all(isinstance(a, ast.Name) for a in list(el.elts) + list(st.target.elts)):
                    m = {a.id: b.id for a, b in zip(st.target.elts, el.elts)}
                else:
                    raise Unsupported(f"{self.fn.name}: loop over {ast.unparse(it)[:50]!r}")
                for tname in m:
                    if tname in env and env[tname] is not None:
                        raise Unsupported(f"{self.fn.name}: loop variable {tname} shadows a variable")
                bodies += [Rename(m).visit(copy.deepcopy(b)) for b in st.body]
            return self.block(bodies + rest, env, known, fin)
        itc, itt = self.expr(it, env, known)
        # `for k, v in D.items(): D[k] = f(v)` : the values of D mapped in place
        if itt == "items" and isinstance(st.target, ast.Tuple) and len(st.target.elts) == 2 and len(st.body) == 1 \
                and isinstance(st.body[0], ast.Assign) and isinstance(st.body[0].targets[0], ast.Subscript):
            tg = st.body[0].targets[0]
            kv, vv = (x.id for x in st.target.elts)
            if isinstance(tg.value, ast.Name) and ast.unparse(tg.value) + ".items()" == ast.unparse(it) \
                    and isinstance(tg.slice, ast.Name) and tg.slice.id == kv:
                d = tg.value.id
                env2 = dict(env)
                env2[kv] = (kv, "str")
                env2[vv] = (vv, "dval")
                s, t = self.expr(st.body[0].value, env2, known)
                if not any(isinstance(n, ast.Name) and n.id == d for n in ast.walk(st.body[0].value)):
                    return f"let {d} := map (fun '({kv}, {vv}) => ({kv}, {s})) {d} in\n  " + self.block(rest, env, known, fin)
        binder, benv = None, dict(env)
        tg = st.target
        if itt == "items" and isinstance(tg, ast.Tuple) and len(tg.elts) == 2:
            a, b = (x.id for x in tg.elts)
            binder = f"'({a}, {b})"
            benv[a], benv[b] = (a, "str"), (b, "V?")
        elif itt == "ditems" and isinstance(tg, ast.Tuple) and len(tg.elts) == 2:
            a, b = (x.id for x in tg.elts)
            binder = f"'({a}, {b})"
            benv[a], benv[b] = (a, "E"), (b, "dict")
        elif itt == "ldict" and isinstance(tg, ast.Name):
            binder = tg.id
            benv[tg.id] = (tg.id, "dict")
        elif itt == "links" and isinstance(tg, ast.Tuple) and len(tg.elts) == 3 and all(isinstance(x, ast.Name) for x in tg.elts):
            binder = tg.elts[2].id
            benv[binder] = (binder, "L")
            for x in tg.elts[:2]:
                if x.id != "_":
                    raise Unsupported(f"{self.fn.name}: the end nodes of a link are named")
        elif itt == "lO" and isinstance(tg, ast.Name):
            binder = tg.id
            benv[binder] = (binder, "O")
        if binder is None:
            raise Unsupported(f"{self.fn.name}: loop {ast.unparse(st.target)} in {ast.unparse(it)[:50]!r}")
        # the values of a dictionary of variables are V; of a regrouping dictionary, lists (only ever handed to vcat)
        for k in list(benv):
            if benv[k] is not None and benv[k][1] == "V?":
                benv[k] = (k, "V")
        for n in ast.walk(st.target):
            if isinstance(n, ast.Name) and n.id != "_" and n.id in env and env[n.id] is not None:
                raise Unsupported(f"{self.fn.name}: loop variable {n.id} shadows a variable")
        mut = self.mutated(st.body, env)
        if not mut:
            raise Unsupported(f"{self.fn.name}: a loop without effect")
        for m in mut:
            benv[m] = (m, env[m][1])              # literal knowledge is lost inside the loop
        tup = mut[0] if len(mut) == 1 else "(" + ", ".join(mut) + ")"
        pat = mut[0] if len(mut) == 1 else "'(" + ", ".join(mut) + ")"
        for n in ast.walk(ast.Module(body=st.body, type_ignores=[])):
            if isinstance(n, (ast.Return, ast.Break, ast.Continue, ast.Raise)):
                raise Unsupported(f"{self.fn.name}: {type(n).__name__} inside a loop")
        body = self.block(list(st.body), benv, set(), lambda e_: tup)
        env2 = dict(env)
        for m in mut:
            env2[m] = (m, env[m][1])
        for n in ast.walk(ast.Module(body=[st], type_ignores=[])):
            if isinstance(n, ast.Name) and isinstance(n.ctx, ast.Store) and n.id not in env:
                env2[n.id] = None                  # loop-local: Python leaks it, the model does not follow
        return (f"let {pat} := fold_left (fun st_ it_ => let {pat} := st_ in let {binder} := it_ in\n  {body}) {par(itc)} {tup} in\n  "
                + self.block(rest, env2, {k for k in known if k[0] not in mut}, fin))

    def result(self, env):
        m = self.spec["mutates"]
        return "(" + ", ".join(env[x][0] for x in m) + ")"

    def translate(self):
        fn = self.fn
        names = [a.arg for a in fn.args.args]
        if names != self.spec["params"] or fn.args.vararg or fn.args.kwarg or fn.args.kwonlyargs or fn.args.defaults:
            raise Unsupported(f"{fn.name}: parameters {names}")
        env = {p: (p, PTYPES[p]) for p in names}
        for n in ast.walk(fn):
            if isinstance(n, (ast.Try, ast.While, ast.With, ast.Global, ast.Nonlocal, ast.Delete, ast.Lambda, ast.FunctionDef)) and n is not fn:
                raise Unsupported(f"{fn.name}: {type(n).__name__}")

        def fin(e_):
            if not self.spec["mutates"]:
                raise Unsupported(f"{fn.name}: falls off the end")
            return self.result(e_)
        body = self.block(list(fn.body), env, set(), fin)
        sig = " ".join(f"({p} : {COQ_PT[PTYPES[p]]})" for p in names if PTYPES[p] in COQ_PT)
        rty = "list string * list V"
        if self.partial:
            body = self.optionise(body)
            rty = f"option ({rty})"
        return f"Definition gen{fn.name} {sig} : {rty} :=\n  {body}."

    @staticmethod
    def optionise(body):
        """the leaves of the term are the pairs (names, values) and None: wrap the pairs in Some"""
        out, i = [], 0
        lines = body.split("\n")
        for ln in lines:
            s = ln.strip()
            if s.startswith("(") and s.rstrip(")").count(",") == 1 and " := " not in s and "fun " not in s and "fold_left" not in s \
                    and s.strip("()").replace(" ", "").replace(",", "").replace("_", "").isalnum():
                ln = ln.replace(s, "Some " + s.rstrip(")") + ")" + ")" * (len(s) - len(s.rstrip(")")) - 1))
            out.append(ln)
        return "\n".join(out)


def translate(repo):
    tree = ast.parse(open(os.path.join(repo, "src/sym_metanet/engines/casadi.py")).read())
    fns = {f.name: f for f in tree.body if isinstance(f, ast.FunctionDef)}
    out = ["(* GENERATED on every run by translator/compilegen.py (T12) from src/sym_metanet/engines/casadi.py: the compile helpers *)",
           "From Coq Require Import List ZArith Bool String.",
           "From SM Require Import PySupport.",
           "Import ListNotations.", "",
           "Section Gen.",
           "Context {E L O V : Type}.",
           "Variable ename : E -> string.", "Variable lname : L -> string.", "Variable oname : O -> string.",
           "Variable vcat : list V -> V.",
           "Variable net_links : list L.", "Variable net_origins : list O.",
           "Variable lflow : L -> V.", "Variable oflow : O -> V.", ""]
    for name, spec in FUNCS.items():
        if name not in fns:
            raise Unsupported(f"{name} not found in engines/casadi.py")
        out.append(F(fns[name], spec).translate())
        out.append("")
    out += ["End Gen.", ""]
    return "\n".join(out)


if __name__ == "__main__":
    import sys
    print(translate(sys.argv[1] if len(sys.argv) > 1 else "/repo"))


# ---------------------------------------------------------------------------------------------------------------
# Engine.to_function itself: the scan that only raises is skipped (T5 reads it), the rest is translated statement by
# statement: the dictionary comprehensions over net.states / actions / disturbances / next_states, the calls of the four
# helpers (those that mutate the lists they are handed return them), `if parameters:` / `if more_out:`, and the
# positions of the four lists in the final `cs.Function("F", <values in>, <values out>, <names in>, <names out>, ...)`.
def _only_raises(st):
    return isinstance(st, ast.For) and not st.orelse and all(
        isinstance(b, ast.If) and not b.orelse and len(b.body) == 1 and isinstance(b.body[0], ast.Raise) for b in st.body)


def translate_to_function(tree):
    cls = next((c for c in tree.body if isinstance(c, ast.ClassDef) and c.name == "Engine"), None)
    fn = next((f for f in (cls.body if cls else []) if isinstance(f, ast.FunctionDef) and f.name == "to_function"), None)
    if fn is None:
        raise Unsupported("Engine.to_function not found")
    names = [a.arg for a in fn.args.args]
    if names != ["self", "net", "compact", "more_out", "parameters"] or not fn.args.kwarg or fn.args.kwarg.arg != "other_parameters" \
            or [ast.unparse(d) for d in fn.args.defaults] != ["0", "False", "None"]:
        raise Unsupported("to_function: parameters / defaults are not (self, net, compact=0, more_out=False, parameters=None, **other_parameters)")
    body = [s for s in fn.body if not (isinstance(s, ast.Expr) and isinstance(s.value, ast.Constant))]
    if not body or not _only_raises(body[0]):
        raise Unsupported("to_function: does not start with the readiness scan (a loop that only raises)")
    lines = []
    have = {"parameters": "optdict"}          # variable -> kind
    groups = {"states": "states", "actions": "actions", "disturbances": "disturbances", "next_states": "next_states"}
    for st in body[1:]:
        src = ast.unparse(st)
        if isinstance(st, ast.If) and src.replace("\n", " ").split() == "if parameters is None: parameters = {}".split():
            lines.append("let parameters := match parameters with Some p_ => p_ | None => [] end in")
            have["parameters"] = "dict"
            continue
        if isinstance(st, ast.Assign) and len(st.targets) == 1 and isinstance(st.targets[0], ast.Name) and isinstance(st.value, ast.DictComp):
            x, dc = st.targets[0].id, st.value
            g = dc.generators[0]
            ok = len(dc.generators) == 1 and not g.ifs and isinstance(g.target, ast.Tuple) and len(g.target.elts) == 2 \
                and all(isinstance(e, ast.Name) for e in g.target.elts) and isinstance(dc.key, ast.Name) and dc.key.id == g.target.elts[0].id \
                and isinstance(g.iter, ast.Call) and not g.iter.args and isinstance(g.iter.func, ast.Attribute) and g.iter.func.attr == "items" \
                and isinstance(g.iter.func.value, ast.Attribute) and isinstance(g.iter.func.value.value, ast.Name) \
                and g.iter.func.value.value.id == "net" and g.iter.func.value.attr in groups
            if ok:
                el, vs = (e.id for e in g.target.elts)
                v = ast.unparse(dc.value)
                flt = {f"_filter_vars({vs})": "filter_indep", f"_filter_vars({vs}, independent=False)": "filter_any",
                       f"_filter_vars({vs}, independent=True)": "filter_indep", f"_filter_vars({vs}, False)": "filter_any"}.get(v)
                if flt:
                    lines.append(f"let {x} := map (fun '({el}, {vs}) => ({el}, {flt} {vs})) net_{g.iter.func.value.attr} in")
                    have[x] = "ddict"
                    continue
            raise Unsupported(f"to_function: comprehension {src[:70]!r}")
        if isinstance(st, ast.Assign) and len(st.targets) == 1 and isinstance(st.targets[0], ast.Tuple) and isinstance(st.value, ast.Call) \
                and isinstance(st.value.func, ast.Name) and st.value.func.id in ("_gather_inputs", "_gather_outputs") and not st.value.keywords:
            a, b = (e.id for e in st.targets[0].elts)
            args = [ast.unparse(z) for z in st.value.args]
            want = ["ddict"] * (3 if st.value.func.id == "_gather_inputs" else 1)
            if [have.get(z) for z in args[:-1]] != want or args[-1] != "compact":
                raise Unsupported(f"to_function: call {src[:70]!r}")
            lines.append(f"let '({a}, {b}) := gen{st.value.func.id} {' '.join(args)} in")
            have[a], have[b] = "lstr", "lV"
            continue
        if isinstance(st, ast.If) and not st.orelse and len(st.body) == 1 and isinstance(st.body[0], ast.Expr) \
                and isinstance(st.body[0].value, ast.Call) and isinstance(st.body[0].value.func, ast.Name):
            c = st.body[0].value
            test = ast.unparse(st.test)
            args = [ast.unparse(z) for z in c.args]
            if c.func.id == "_add_parameters_to_inputs" and test == "parameters" and have.get("parameters") == "dict" and not c.keywords \
                    and len(args) == 4 and [have.get(z) for z in args[:3]] == ["lstr", "lV", "dict"] and args[3] == "compact":
                lines.append(f"let '({args[0]}, {args[1]}) := if negb (isnil_ parameters) then gen_add_parameters_to_inputs {' '.join(args)} "
                             f"else ({args[0]}, {args[1]}) in")
                continue
            if c.func.id == "_add_flows_to_outputs" and test == "more_out" and not c.keywords and len(args) == 7 \
                    and [have.get(z) for z in args[:2]] == ["lstr", "lV"] and args[2:] == ["self", "net", "parameters", "other_parameters", "compact"] \
                    and have.get("parameters") == "dict":
                lines.append(f"match (if more_out then gen_add_flows_to_outputs "
                             f"{args[0]} {args[1]} parameters compact else Some ({args[0]}, {args[1]})) with\n  | None => None\n  | Some ({args[0]}, {args[1]}) =>")
                lines.append("@@close")
                continue
            raise Unsupported(f"to_function: conditional call {src[:70]!r}")
        if isinstance(st, ast.Return) and isinstance(st.value, ast.Call) and ast.unparse(st.value.func) == "cs.Function" and not st.value.keywords:
            args = st.value.args
            if len(args) != 6 or not (isinstance(args[0], ast.Constant) and isinstance(args[0].value, str)):
                raise Unsupported("to_function: cs.Function is not called with (name, values in, values out, names in, names out, options)")
            a = [ast.unparse(z) for z in args[1:5]]
            if [have.get(z) for z in a] != ["lV", "lV", "lstr", "lstr"]:
                raise Unsupported(f"to_function: cs.Function arguments {a}")
            # CasADi: Function(name, ex_in, ex_out, name_in, name_out, opts)
            lines.append(f"Some (combine {a[2]} {a[0]}, combine {a[3]} {a[1]})")
            break
        raise Unsupported(f"to_function: statement {src[:70]!r}")
    else:
        raise Unsupported("to_function: no `return cs.Function(...)`")
    nclose = lines.count("@@close")
    lines = [l for l in lines if l != "@@close"]
    body_s = "\n  ".join(lines) + "\n  end" * nclose
    return ("Definition gen_to_function (net_states net_actions net_disturbances net_next_states : list (E * list (string * V)))\n"
            "    (filter_indep filter_any : list (string * V) -> list (string * V))\n"
            "    (compact : Z) (more_out : bool) (parameters : option (list (string * V)))\n"
            "  : option (list (string * V) * list (string * V)) :=\n  " + body_s + ".")


_translate_helpers = translate


def translate(repo):          # noqa: F811  (the helpers' text with to_function added inside the section)
    text = _translate_helpers(repo)
    tree = ast.parse(open(os.path.join(repo, "src/sym_metanet/engines/casadi.py")).read())
    tf = translate_to_function(tree)
    return text.replace("End Gen.", "Definition isnil_ {T} (l : list T) : bool := match l with [] => true | _ => false end.\n\n" + tf + "\n\nEnd Gen.")
