#!/usr/bin/env python3
"""T6: the element-layer glue of blocks/{links,nodes,origins,destinations}.py -> gen/BlocksGen.v.

The dynamics methods (Link.get_flow / step_dynamics / _get_equilibrium_speed, Node.get_downstream_density /
get_upstream_speed_and_flow, the get_speed / get_flow / step_dynamics / _get_exiting_link of the four origin
classes, the get_density / _get_entering_link of the two destination classes) are executed SYMBOLICALLY from their
Python AST: every Python value is a Coq term of a known kind (number A, vector list A, optional number, lane count Q,
node / link / origin / destination id, edge list ...), every statement becomes a monadic binder (the `res` monad of
Blocks.v: Python failure points - assert, first() of nothing, a missing key, None used as a number - are explicit
errors), `if` statements become `if`/`match` terms that return the tuple of the variables they assign, method calls
become calls of the generated definition of the method the class hierarchy (read from the AST) resolves them to, with
a `match` on the element kind where the receiver's class is not known statically.

What the translator ASSUMES (its idiom table, the trusted part of this generator):
  * element attributes are the model's accessors (ATTR_* below: link.rho_crit = lp P m Prhocrit, link.states["rho"]
    = s_rho st m, origin.states["w"] = s_w st o, ...; x[0] / x[-1] / x[:-1] / x[1:] = vfirst / vlast / vinit / vtail);
  * Network.in_links / out_links / origins_by_node / destinations_by_node / nodes_by_link / origins / destinations are
    Graph.v's in_links / out_links / origin_at / dest_at / nodes_of_link / origins_dict / dests_dict (that tie is the
    subject of C08/C09 and of the graph-order correspondence);
  * the engine object's methods are the fields of the engine record (PRIMS below), engine selection is T4's subject;
  * the class of an element is its kind in the universe (KINDS below).
Anything outside the supported shapes raises Unsupported: the generated file is then replaced by a stub and every
theorem that rests on it fails (fail closed).
"""
import ast
import os

from translator.tables import Unsupported

FILES = ["blocks/links.py", "blocks/nodes.py", "blocks/origins.py", "blocks/destinations.py"]

TY = {"num": "A", "vec": "list A", "opt": "option A", "optq": "option Q", "q": "Q", "nat": "nat", "bool": "bool",
      "str": "string", "node": "nat", "link": "nat", "origin": "nat", "dest": "nat", "edges": "list edge",
      "edge": "edge", "natlist": "list nat", "vecs": "list (list A)"}

# class <-> kind of the universe (pattern on the scrutinee)
KINDS = {
    "origin": ("okind_of U {t}", [("Origin", "OIdeal"), ("MainstreamOrigin", "OMain"),
                                   ("MeteredOnRamp", "ORamp _"), ("SimplifiedMeteredOnRamp", "OSimp _")]),
    "dest": ("dkind_of U {t}", [("Destination", "DFree"), ("CongestedDestination", "DCong")]),
    "link": ("lvsl (linkd U {t})", [("Link", "None"), ("LinkWithVsl", "Some _")]),
    "node": (None, [("Node", None)]),
}
ROOT = {"origin": "Origin", "dest": "Destination", "link": "Link", "node": "Node"}
ROOT_OF = {c: k for k, (_, cs) in KINDS.items() for c, _ in cs}

LINK_PAR = {"L": "PL", "rho_max": "Prhomax", "rho_crit": "Prhocrit", "v_free": "Pvfree", "a": "Pa",
            "turnrate": "Pturn", "alpha": "Palpha"}
# the key of the single control input of each origin class (after init_vars)
ORIGIN_ACTION = {"MainstreamOrigin": "v_ctrl", "MeteredOnRamp": "r", "SimplifiedMeteredOnRamp": "q"}

# engine record fields: (field, argument kinds, defaults for omitted trailing arguments, result kind)
PRIMS = {
    ("nodes", "get_upstream_flow"): ("e_up_flow", ["vec", "num", "vec", "opt"], 3, "num"),
    ("nodes", "get_upstream_speed"): ("e_up_speed", ["vec", "vec"], 2, "num"),
    ("nodes", "get_downstream_density"): ("e_down_dens", ["vec"], 1, "num"),
    ("links", "get_flow"): ("e_flow", ["vec", "vec", "num"], 3, "vec"),
    ("links", "step_density"): ("e_step_rho", ["vec", "vec", "vec", "num", "num", "num"], 6, "vec"),
    ("links", "step_speed"): ("e_step_v", ["vec"] * 5 + ["num"] * 6 + ["opt"] * 5, 11, "vec"),
    ("links", "Veq"): ("e_Veq", ["vec", "num", "num", "num"], 4, "vec"),
    ("links", "controlled_Veq"): ("e_cVeq", ["vec", "vec", "natlist", "num", "num", "num", "num"], 7, "vec"),
    ("origins", "step_queue"): ("e_step_w", ["num"] * 4, 4, "num"),
    ("origins", "get_mainstream_flow"): ("e_main", ["num"] * 9, 9, "num"),
    ("origins", "get_ramp_flow"): ("e_ramp", ["num"] * 8 + ["str"], 9, "num"),
    ("origins", "get_simplifiedramp_flow"): ("e_simp", ["num"] * 8 + ["str"], 9, "num"),
    ("destinations", "get_congestion_free_downstream_density"): ("e_dfree", ["num", "num"], 2, "num"),
    ("destinations", "get_congested_downstream_density"): ("e_dcong", ["num", "num", "num"], 3, "num"),
}

# entry points: one dispatching definition per (element kind, method), the call being the one Network.step /
# ElementBase.step / the node make: (coq name, receiver kind, method, value keywords {name: kind}, positional link?)
STEP_PARS = {"tau": "num", "eta": "num", "kappa": "num", "T": "num", "delta": "opt", "phi": "opt"}
ENTRIES = [
    ("gd_link_flow", "link", "get_flow", {}),
    ("gd_origin_speed", "origin", "get_speed", {"T": "num"}),
    ("gd_origin_flow", "origin", "get_flow", {"T": "num"}),
    ("gd_dest_density", "dest", "get_density", {}),
    ("gd_node_down", "node", "get_downstream_density", {}),
    ("gd_node_up", "node", "get_upstream_speed_and_flow", {"link": "link", "T": "num"}),
    ("gd_link_step", "link", "step_dynamics", dict(STEP_PARS, positive_next_speed="bool", positive_next_density="bool")),
    ("gd_origin_step", "origin", "step_dynamics", dict(STEP_PARS, positive_next_queue="bool")),
]


class V:
    """a symbolic Python value: kind, Coq term, static extra"""
    __slots__ = ("k", "t", "x")

    def __init__(self, k, t=None, x=None):
        self.k, self.t, self.x = k, t, x

    def __repr__(self):
        return f"V({self.k}, {self.t}, {self.x})"


def atom(t):
    return t.replace("_", "a").replace("'", "a").isalnum()


def par(t):
    return t if atom(t) or (t.startswith("(") and t.endswith(")") and t.count("(") == 1) else f"({t})"


JOIN = {("num", "none"): "opt", ("opt", "none"): "opt", ("opt", "num"): "opt", ("num", "vec"): "vec", ("opt", "vec"): "vec",
        ("none", "q"): "optq", ("none", "optq"): "optq", ("optq", "q"): "optq"}


def join_kind(a, b):
    if a == b:
        return a
    k = JOIN.get((a, b)) or JOIN.get((b, a))
    if k is None:
        raise Unsupported(f"values of kinds {a} and {b} meet at the end of a branch")
    return k


class Gen:
    def __init__(self, repo):
        self.classes = {}          # name -> (ClassDef, base name or None)
        for f in FILES:
            tree = ast.parse(open(os.path.join(repo, "src/sym_metanet", f)).read())
            for n in tree.body:
                if isinstance(n, ast.ClassDef):
                    base = None
                    for b in n.bases:
                        bn = b.value.id if isinstance(b, ast.Subscript) and isinstance(b.value, ast.Name) else \
                            (b.id if isinstance(b, ast.Name) else None)
                        if bn in ROOT_OF or bn in self.classes:
                            base = bn
                    self.classes[n.name] = (n, base)
        expected = set(ROOT_OF)
        elems = {c for c in self.classes if self.root(c) is not None}
        if elems != expected:
            raise Unsupported(f"element classes {sorted(elems)} differ from the modelled ones {sorted(expected)}")
        self.check_constructors()
        self.defs = []             # emitted Coq definitions, in dependency order
        self.inst = {}             # instance key -> (coq name, result V template (kind/x), None while in progress)
        self.n = 0

    # ---- the attribute table rests on the constructors storing their arguments unchanged ----
    CONSTRUCTORS = {
        "Link": ("self, nb_segments, lanes, length, maximum_density, critical_density, free_flow_velocity, a, turnrate=1.0, name=None",
                 ["super().__init__(name)", "self.N = nb_segments", "self.lam = lanes", "self.L = length",
                  "self.rho_max = maximum_density", "self.rho_crit = critical_density", "self.v_free = free_flow_velocity",
                  "self.a = a", "self.turnrate = turnrate"]),
        "LinkWithVsl": ("self, *args, segments_with_vsl, alpha, **kwargs",
                        ["super().__init__(*args, **kwargs)", "self.vsl = sorted(segments_with_vsl)", "self.alpha = alpha",
                         "for index in self.vsl:\n    if index >= self.N or index < 0:\n        raise ValueError('Invalid segment index for VSL sign.')"]),
        "MeteredOnRamp": ("self, capacity, flow_eq_type='out', name=None",
                          ["super().__init__(name)", "self.C = capacity", "self.flow_eq_type = flow_eq_type"]),
        "SimplifiedMeteredOnRamp": ("self, capacity, flow_eq_type='limited', name=None",
                                    ["super().__init__(capacity, flow_eq_type, name)"]),
    }
    STORED = {"N", "lam", "L", "rho_max", "rho_crit", "v_free", "a", "turnrate", "vsl", "alpha", "C", "flow_eq_type"}

    def check_constructors(self):
        for cname, (cd, _) in self.classes.items():
            for fn in cd.body:
                if not isinstance(fn, ast.FunctionDef):
                    continue
                if fn.name == "__init__":
                    if cname not in self.CONSTRUCTORS:
                        raise Unsupported(f"{cname} has a constructor the attribute table knows nothing about")
                    a = ast.parse(ast.unparse(fn.args), mode="eval") if False else fn.args
                    for x in a.posonlyargs + a.args + a.kwonlyargs + [y for y in (a.vararg, a.kwarg) if y]:
                        x.annotation = None
                    body = [ast.unparse(s) for s in fn.body
                            if not (isinstance(s, ast.Expr) and isinstance(s.value, ast.Constant))]
                    if (ast.unparse(a), body) != self.CONSTRUCTORS[cname] or fn.decorator_list:
                        raise Unsupported(f"{cname}.__init__ is not the constructor the attribute table was written for")
                else:
                    for x in ast.walk(fn):
                        if isinstance(x, ast.Attribute) and isinstance(x.ctx, (ast.Store, ast.Del)) and x.attr in self.STORED:
                            raise Unsupported(f"{cname}.{fn.name} line {x.lineno}: stores the element parameter .{x.attr}")
                        if isinstance(x, ast.Call) and isinstance(x.func, ast.Name) and x.func.id in ("setattr", "delattr"):
                            raise Unsupported(f"{cname}.{fn.name} line {x.lineno}: {x.func.id}")
            for st_ in cd.body:
                if isinstance(st_, (ast.Assign, ast.AnnAssign)):
                    for t in (st_.targets if isinstance(st_, ast.Assign) else [st_.target]):
                        if isinstance(t, ast.Name) and t.id in self.STORED:
                            raise Unsupported(f"{cname}: class attribute {t.id} shadows an element parameter")
        for c in self.CONSTRUCTORS:
            if not any(isinstance(fn, ast.FunctionDef) and fn.name == "__init__" for fn in self.classes[c][0].body):
                raise Unsupported(f"{c} no longer has its own constructor")

    # ---- class hierarchy ----
    def root(self, c):
        seen = set()
        while c is not None and c not in seen:
            seen.add(c)
            if c in ROOT_OF and self.classes.get(c, (None, None))[1] is None:
                return ROOT_OF[c]
            c = self.classes.get(c, (None, None))[1]
        return None

    def mro(self, c):
        out = []
        while c is not None:
            out.append(c)
            c = self.classes[c][1]
        return out

    def subclasses(self, c):
        return [d for d in self.classes if c in self.mro(d)]

    def resolve(self, c, meth):
        for d in self.mro(c):
            for fn in self.classes[d][0].body:
                if isinstance(fn, ast.FunctionDef) and fn.name == meth:
                    return d, fn
        raise Unsupported(f"{c}.{meth} not found")

    def declares_states(self, c):
        for d in self.mro(c):
            for st_ in self.classes[d][0].body:
                if isinstance(st_, ast.Assign) and any(isinstance(t, ast.Name) and t.id == "_states" for t in st_.targets):
                    return isinstance(st_.value, (ast.Set, ast.List, ast.Tuple)) and bool(st_.value.elts)
        return False

    def fresh(self, base):
        self.n += 1
        return f"{base}_{self.n}"

    # ---- coercions (upward: pure; downward opt -> num: a failure point) ----
    def coerce(self, v, kind, blk, what=""):
        if v.k == kind:
            return v.t
        if kind == "num":
            if v.k == "q":
                return f"ofQ {par(v.t)}"
            if v.k == "opt":
                x = self.fresh("x")
                blk.append(("bind", x, f"of_opt ENoneFlow {par(v.t)}"))
                return x
            if v.k == "int" and v.x == 0:
                return "zero"
        if kind == "vec":
            if v.k in ("num", "q", "opt"):
                return f"[{self.coerce(v, 'num', blk, what)}]"
        if kind == "opt":
            if v.k == "none":
                return "None"
            if v.k == "optq":
                return f"option_map ofQ {par(v.t)}"
            if v.k in ("num", "q"):
                return f"Some {par(self.coerce(v, 'num', blk, what))}"
        if kind == "optq":
            if v.k == "none":
                return "None"
            if v.k == "q":
                return f"Some {par(v.t)}"
        if kind == "vecs" and v.k == "plist":
            return "[" + "; ".join(self.coerce(e, "vec", blk, what) for e in v.x) + "]"
        if kind == "bool" and v.k == "bool":
            return v.t
        raise Unsupported(f"a value of kind {v.k} where {kind} is needed {what}")

    def coq_type(self, v):
        if v.k == "tuple":
            return "(" + " * ".join(self.coq_type(e) for e in v.x) + ")"
        if v.k == "dict":
            vs = list(v.x.values())
            return self.coq_type(vs[0]) if len(vs) == 1 else "(" + " * ".join(self.coq_type(e) for e in vs) + ")"
        if v.k not in TY:
            raise Unsupported(f"a value of kind {v.k} has no Coq type")
        return TY[v.k]

    # ---- joins of structured values ----
    def join(self, a, b):
        if a.k == "tuple" and b.k == "tuple" and len(a.x) == len(b.x):
            return V("tuple", None, [self.join(x, y) for x, y in zip(a.x, b.x)])
        if a.k == "dict" and b.k == "dict" and list(a.x) == list(b.x):
            return V("dict", None, {k: self.join(a.x[k], b.x[k]) for k in a.x})
        k = join_kind(a.k, b.k)
        cls = a.x if a.x == b.x else None
        return V(k, None, cls)

    def coerce_to(self, v, tmpl, blk):
        """term of v coerced to the shape of template tmpl"""
        if tmpl.k == "tuple":
            return "(" + ", ".join(self.coerce_to(x, y, blk) for x, y in zip(v.x, tmpl.x)) + ")"
        if tmpl.k == "dict":
            ts = [self.coerce_to(v.x[k], tmpl.x[k], blk) for k in tmpl.x]
            return ts[0] if len(ts) == 1 else "(" + ", ".join(ts) + ")"
        return self.coerce(v, tmpl.k, blk)

    def rebind(self, tmpl, name):
        """value of shape tmpl read back from Coq variable / pattern; returns (pattern, value)"""
        if tmpl.k == "tuple":
            ps, vs = zip(*[self.rebind(x, self.fresh(name)) for x in tmpl.x])
            return "(" + ", ".join(ps) + ")", V("tuple", None, list(vs))
        if tmpl.k == "dict":
            items = [(k, self.rebind(x, self.fresh(name + k))) for k, x in tmpl.x.items()]
            pat = items[0][1][0] if len(items) == 1 else "(" + ", ".join(p for _, (p, _) in items) + ")"
            return pat, V("dict", None, {k: v for k, (_, v) in items})
        return name, V(tmpl.k, name, tmpl.x)

    # ---- terms out of binder lists ----
    @staticmethod
    def wrap(blk, final):
        t = final
        for kind, pat, term in reversed(blk):
            if kind == "let":
                t = f"let {pat} := {term} in\n  {t}"
            elif kind == "letpat":
                t = f"let '{pat} := {term} in\n  {t}"
            elif kind == "bind":
                t = f"{pat} <- {term} ;;\n  {t}"
            elif kind == "guard":
                t = f"(if {term} then\n  {t}\n  else Err {pat})"
        return t

    # ------------------------------------------------------------------
    # expressions
    def ev(self, n, env, blk):
        if isinstance(n, ast.Name):
            if n.id not in env:
                raise Unsupported(f"line {n.lineno}: name {n.id} is not bound on this path")
            return env[n.id]
        if isinstance(n, ast.Constant):
            if n.value is None:
                return V("none")
            if isinstance(n.value, bool):
                return V("bool", "true" if n.value else "false")
            if isinstance(n.value, int):
                return V("int", str(n.value), n.value)
            if isinstance(n.value, str):
                return V("str", f'"{n.value}"%string', n.value)
            raise Unsupported(f"line {n.lineno}: constant {n.value!r}")
        if isinstance(n, ast.Tuple):
            return V("tuple", None, [self.ev(e, env, blk) for e in n.elts])
        if isinstance(n, ast.List) and not n.elts:
            return V("plist", None, [])
        if isinstance(n, ast.Dict):
            if not all(isinstance(k, ast.Constant) and isinstance(k.value, str) for k in n.keys):
                raise Unsupported(f"line {n.lineno}: dictionary with non-literal keys")
            return V("dict", None, {k.value: self.ev(v, env, blk) for k, v in zip(n.keys, n.values)})
        if isinstance(n, ast.Attribute):
            return self.attribute(self.ev(n.value, env, blk), n.attr, n)
        if isinstance(n, ast.Subscript):
            return self.subscript(self.ev(n.value, env, blk), n.slice, env, blk, n)
        if isinstance(n, ast.Call):
            return self.call(n, env, blk)
        if isinstance(n, ast.BinOp):
            a, b = self.ev(n.left, env, blk), self.ev(n.right, env, blk)
            if isinstance(n.op, ast.Sub) and a.k == "q" and b.k == "q":
                return V("q", f"({a.t} - {b.t})%Q")
            if isinstance(n.op, ast.Add) and {a.k, b.k} <= {"num", "opt"}:
                return V("num", f"add {par(self.coerce(a, 'num', blk))} {par(self.coerce(b, 'num', blk))}")
            raise Unsupported(f"line {n.lineno}: arithmetic {type(n.op).__name__} on {a.k}, {b.k} in the element layer")
        if isinstance(n, (ast.Compare, ast.BoolOp, ast.UnaryOp)):
            return V("bool", self.cond(n, env, blk))
        raise Unsupported(f"line {n.lineno}: expression {type(n).__name__}")

    def attribute(self, b, attr, n):
        if b.k == "link":
            if attr in LINK_PAR:
                return V("num", f"lp P {par(b.t)} {LINK_PAR[attr]}")
            if attr == "lam":
                return V("q", f"llanes (linkd U {par(b.t)})")
            if attr == "N":
                return V("nat", f"lN (linkd U {par(b.t)})")
            if attr == "vsl":
                if not set(b.x) <= set(self.subclasses("LinkWithVsl")):
                    raise Unsupported(f"line {n.lineno}: .vsl of a link that need not have signs")
                return V("natlist", f"lvsl_of {par(b.t)}")
            if attr == "states":
                return V("attrdict", None, {"rho": V("vec", f"s_rho st {par(b.t)}"), "v": V("vec", f"s_v st {par(b.t)}")})
            if attr == "actions":
                if not set(b.x) <= set(self.subclasses("LinkWithVsl")):
                    raise Unsupported(f"line {n.lineno}: .actions of a link that need not have any")
                return V("attrdict", None, {"v_ctrl": V("vec", f"s_vc st {par(b.t)}")})
            return V("bound", None, (b, attr))
        if b.k == "origin":
            if attr == "states":
                return V("attrdict", None, {"w": V("num", f"s_w st {par(b.t)}")})
            if attr == "disturbances":
                return V("attrdict", None, {"d": V("num", f"s_do st {par(b.t)}")})
            if attr == "actions":
                keys = {ORIGIN_ACTION.get(c) for c in self.exact_classes(b)}
                if len(keys) != 1 or None in keys:
                    raise Unsupported(f"line {n.lineno}: .actions of an origin whose class is one of {self.exact_classes(b)}")
                return V("attrdict", None, {keys.pop(): V("num", f"s_uo st {par(b.t)}")})
            if attr == "C":
                return V("num", f"ocap P {par(b.t)}")
            if attr == "flow_eq_type":
                return V("str", f"flow_eq_type_of (okind_of U {par(b.t)})")
            return V("bound", None, (b, attr))
        if b.k == "dest":
            if attr == "disturbances":
                if not set(self.exact_classes(b)) <= set(self.subclasses("CongestedDestination")):
                    raise Unsupported(f"line {n.lineno}: .disturbances of a destination that need not have any")
                return V("attrdict", None, {"d": V("num", f"s_dd st {par(b.t)}")})
            return V("bound", None, (b, attr))
        if b.k == "node":
            return V("bound", None, (b, attr))
        if b.k == "net":
            if attr in ("origins_by_node", "destinations_by_node", "nodes_by_link", "origins", "destinations"):
                return V("netattr", None, attr)
            if attr in ("in_links", "out_links"):
                return V("netfun", None, attr)
        if b.k == "engine":
            if attr in ("links", "nodes", "origins", "destinations"):
                return V("enggroup", None, attr)
            if attr in ("vcat", "max"):
                return V("engfun", None, attr)
        if b.k == "enggroup":
            if (b.x, attr) in PRIMS:
                return V("engprim", None, (b.x, attr))
        if b.k == "plist" and attr == "append":
            return V("append", None, b)
        raise Unsupported(f"line {n.lineno}: attribute .{attr} of a value of kind {b.k}")

    def exact_classes(self, b):
        """the classes an element value can have"""
        return list(b.x)

    def all_of(self, kind):
        return tuple(c for c, _ in KINDS[kind][1])

    def subscript(self, b, sl, env, blk, n):
        idx = None
        if isinstance(sl, ast.Constant):
            idx = sl.value
        elif isinstance(sl, ast.UnaryOp) and isinstance(sl.op, ast.USub) and isinstance(sl.operand, ast.Constant):
            idx = -sl.operand.value
        if b.k == "attrdict":
            if not isinstance(idx, str) or idx not in b.x:
                raise Unsupported(f"line {n.lineno}: key {idx!r} of an element dictionary holding {sorted(b.x)}")
            return b.x[idx]
        if b.k == "vec":
            if idx == 0:
                return V("num", f"vfirst {par(b.t)}")
            if idx == -1:
                return V("num", f"vlast {par(b.t)}")
            if isinstance(sl, ast.Slice) and sl.step is None:
                lo = sl.lower.value if isinstance(sl.lower, ast.Constant) else None
                hi = -sl.upper.operand.value if isinstance(sl.upper, ast.UnaryOp) and isinstance(sl.upper.op, ast.USub) \
                    and isinstance(sl.upper.operand, ast.Constant) else None
                if sl.lower is None and hi == -1:
                    return V("vec", f"vinit {par(b.t)}")
                if lo == 1 and sl.upper is None:
                    return V("vec", f"vtail {par(b.t)}")
            raise Unsupported(f"line {n.lineno}: index/slice of a vector other than [0], [-1], [:-1], [1:]")
        if b.k == "edge":
            if idx in (-1, 2):
                return V("link", f"e_link {par(b.t)}", self.all_of("link"))
            if idx == 0:
                return V("node", f"e_up {par(b.t)}", ("Node",))
            if idx == 1:
                return V("node", f"e_down {par(b.t)}", ("Node",))
        if b.k == "tuple" and isinstance(idx, int) and -len(b.x) <= idx < len(b.x):
            return b.x[idx]
        if b.k == "netattr":
            key = self.ev(sl, env, blk)
            x = self.fresh("x")
            if b.x == "origins_by_node" and key.k == "node":
                blk.append(("bind", x, f"of_opt EKey (origin_at g {par(key.t)})"))
                return V("origin", x, self.all_of("origin"))
            if b.x == "destinations_by_node" and key.k == "node":
                blk.append(("bind", x, f"of_opt EKey (dest_at g {par(key.t)})"))
                return V("dest", x, self.all_of("dest"))
            if b.x == "origins" and key.k == "origin":
                blk.append(("bind", x, f"of_opt EKey (dict_get {par(key.t)} (origins_dict g))"))
                return V("node", x, ("Node",))
            if b.x == "destinations" and key.k == "dest":
                blk.append(("bind", x, f"of_opt EKey (dict_get {par(key.t)} (dests_dict g))"))
                return V("node", x, ("Node",))
            if b.x == "nodes_by_link" and key.k == "link":
                blk.append(("bind", x, f"of_opt EKey (nodes_of_link g {par(key.t)})"))
                return V("tuple", None, [V("node", f"fst {x}", ("Node",)), V("node", f"snd {x}", ("Node",))])
        raise Unsupported(f"line {n.lineno}: subscript of a value of kind {b.k}")

    # ---- conditions: Coq bool term ----
    def cond(self, n, env, blk):
        if isinstance(n, ast.BoolOp):
            op = "&&" if isinstance(n.op, ast.And) else "||"
            return "(" + f" {op} ".join(par(self.cond(v, env, blk)) for v in n.values) + ")"
        if isinstance(n, ast.UnaryOp) and isinstance(n.op, ast.Not):
            return f"negb {par(self.cond(n.operand, env, blk))}"
        if isinstance(n, ast.Compare) and len(n.ops) == 1:
            op, a, b = n.ops[0], self.ev(n.left, env, blk), self.ev(n.comparators[0], env, blk)
            if isinstance(op, (ast.Is, ast.IsNot)) and b.k == "none":
                if a.k in ("opt", "optq"):
                    t = f"is_some {par(a.t)}"
                    return t if isinstance(op, ast.IsNot) else f"negb ({t})"
                if a.k == "none":
                    return "false" if isinstance(op, ast.IsNot) else "true"
                if a.k in TY:
                    return "true" if isinstance(op, ast.IsNot) else "false"
            if isinstance(op, (ast.In, ast.NotIn)) and b.k == "netattr" and a.k == "node":
                f = {"origins_by_node": "origin_at", "destinations_by_node": "dest_at"}.get(b.x)
                if f:
                    t = f"is_some ({f} g {par(a.t)})"
                    return t if isinstance(op, ast.In) else f"negb ({t})"
            if a.k == "nat" and b.k == "int":
                if isinstance(op, ast.Eq):
                    return f"({a.t} =? {b.x})%nat"
                if isinstance(op, ast.Gt):
                    return f"({b.x} <? {a.t})%nat"
                if isinstance(op, ast.NotEq):
                    return f"negb ({a.t} =? {b.x})%nat"
            if isinstance(op, ast.Eq) and b.k == "int" and b.x == 0:
                if a.k == "optq":
                    return f"optq_eq0 {par(a.t)}"
                if a.k == "q":
                    return f"Qeq_bool {par(a.t)} 0"
                if a.k == "none":
                    return "false"
            raise Unsupported(f"line {n.lineno}: comparison {type(op).__name__} between {a.k} and {b.k}")
        v = self.ev(n, env, blk)
        if v.k == "bool":
            return v.t
        raise Unsupported(f"line {n.lineno}: truth value of a {v.k}")

    # ---- calls ----
    def args_of(self, n, env, blk):
        """positional values (stars expanded into ('star', V)), keyword dict"""
        pos, kw = [], {}
        for a in n.args:
            if isinstance(a, ast.Starred):
                pos.append(("star", self.star(a.value, env, blk)))
            else:
                pos.append(("one", self.ev(a, env, blk)))
        for k in n.keywords:
            if k.arg is None:
                d = self.ev(k.value, env, blk)
                if d.k != "kwargs":
                    raise Unsupported(f"line {n.lineno}: ** of a {d.k}")
                for kk, vv in d.x.items():
                    if kk in kw:
                        raise Unsupported(f"line {n.lineno}: keyword {kk} given twice")
                    kw[kk] = vv
            else:
                kw[k.arg] = self.ev(k.value, env, blk)
        return pos, kw

    def star(self, n, env, blk):
        """*X: a list of vectors (Coq list (list A))"""
        if isinstance(n, ast.GeneratorExp) and len(n.generators) == 1 and not n.generators[0].ifs:
            g_ = n.generators[0]
            it = self.ev(g_.iter, env, blk)
            if it.k != "edges":
                raise Unsupported(f"line {n.lineno}: generator over a {it.k}")
            e = self.fresh("e")
            env2 = dict(env)
            b2 = []
            self.bind_target(g_.target, V("edge", e), env2, b2)
            body = self.ev(n.elt, env2, b2)
            t = self.wrap(b2, f"Ok {par(self.coerce(body, 'vec', b2))}")
            x = self.fresh("xs")
            blk.append(("bind", x, f"mapM (fun {e} => {t}) {par(it.t)}"))
            return V("vecs", x, it.t)
        v = self.ev(n, env, blk)
        if v.k == "vecs":
            return v
        if v.k == "plist":
            return V("vecs", self.coerce(v, "vecs", blk))
        raise Unsupported(f"line {n.lineno}: * of a {v.k}")

    def call(self, n, env, blk):
        f = n.func
        if isinstance(f, ast.Name):
            if f.id == "len" and len(n.args) == 1:
                a = self.ev(n.args[0], env, blk)
                if a.k == "edges":
                    return V("nat", f"List.length {par(a.t)}")
            if f.id == "any" and len(n.args) == 1:
                a = self.ev(n.args[0], env, blk)
                if a.k == "edges":          # a view of (node, node, link) triples: any() = non-empty
                    return V("bool", f"(0 <? List.length {par(a.t)})%nat")
            if f.id == "first" and len(n.args) == 1 or \
                    (f.id == "next" and len(n.args) == 1 and isinstance(n.args[0], ast.Call)
                     and isinstance(n.args[0].func, ast.Name) and n.args[0].func.id == "iter"):
                a = self.ev(n.args[0] if f.id == "first" else n.args[0].args[0], env, blk)
                if a.k == "edges":
                    x = self.fresh("e")
                    blk.append(("bind", x, f"first_edge {par(a.t)}"))
                    return V("edge", x)
            if f.id == "isinstance" and len(n.args) == 2 and isinstance(n.args[1], ast.Name):
                a = self.ev(n.args[0], env, blk)
                if a.k in KINDS and n.args[1].id in self.classes:
                    scrut, table = KINDS[a.k]
                    yes = [p for c, p in table if c in self.subclasses(n.args[1].id)]
                    if not yes:
                        return V("bool", "false")
                    return V("bool", f"match {scrut.format(t=par(a.t))} with {' | '.join(yes)} => true | _ => false end")
            raise Unsupported(f"line {n.lineno}: call of {f.id}")
        fv = self.ev(f, env, blk)
        if fv.k == "netfun":
            pos, kw = self.args_of(n, env, blk)
            if len(pos) == 1 and not kw and pos[0][0] == "one" and pos[0][1].k == "node":
                return V("edges", f"{fv.x} g {par(pos[0][1].t)}")
            raise Unsupported(f"line {n.lineno}: net.{fv.x} of something that is not one node")
        if fv.k == "engfun":
            pos, kw = self.args_of(n, env, blk)
            if kw:
                raise Unsupported(f"line {n.lineno}: keywords in engine.{fv.x}")
            if fv.x == "vcat":
                if len(pos) == 1 and pos[0][0] == "star":
                    # concatenating nothing is a failure point (NumPy raises; CasADi's empty vector fails later)
                    src = pos[0][1].x if pos[0][1].x else pos[0][1].t
                    blk.append(("guard", "EEmpty", f"(0 <? List.length {par(src)})%nat"))
                    return V("vec", f"e_vcat E {par(pos[0][1].t)}")
                if all(p[0] == "one" for p in pos) and pos:
                    return V("vec", "e_vcat E [" + "; ".join(self.coerce(p[1], "vec", blk) for p in pos) + "]")
            if fv.x == "max" and len(pos) == 2 and pos[0][0] == "one" and pos[0][1].k == "int" and pos[0][1].x == 0:
                x = pos[1][1]
                if x.k == "vec":
                    return V("vec", f"e_max E zero {par(x.t)}")
                if x.k == "num":
                    return V("num", f"e_max_s E zero {par(x.t)}")
            raise Unsupported(f"line {n.lineno}: engine.{fv.x} with these arguments")
        if fv.k == "engprim":
            field, kinds, nreq, res = PRIMS[fv.x]
            pos, kw = self.args_of(n, env, blk)
            if kw or any(p[0] != "one" for p in pos) or not (nreq <= len(pos) <= len(kinds)):
                raise Unsupported(f"line {n.lineno}: engine.{fv.x[0]}.{fv.x[1]} with keywords / stars / {len(pos)} arguments")
            ts = [par(self.coerce(p[1], k, blk, f"(argument {i + 1} of {fv.x[1]}, line {n.lineno})"))
                  for i, (p, k) in enumerate(zip(pos, kinds))]
            ts += ["None"] * (len(kinds) - len(pos))
            return V(res, f"{field} E " + " ".join(ts))
        if fv.k == "append":
            pos, kw = self.args_of(n, env, blk)
            if len(pos) != 1 or kw or pos[0][0] != "one":
                raise Unsupported(f"line {n.lineno}: append")
            fv.x.x.append(pos[0][1])
            return V("none")
        if fv.k == "bound":
            recv, meth = fv.x
            pos, kw = self.args_of(n, env, blk)
            return self.method_call(recv, meth, pos, kw, blk, n)
        raise Unsupported(f"line {n.lineno}: call of a {fv.k}")

    def method_call(self, recv, meth, pos, kw, blk, n):
        if any(p[0] != "one" for p in pos):
            raise Unsupported(f"line {n.lineno}: starred argument in a method call")
        pos = [p[1] for p in pos]
        classes = self.exact_classes(recv)
        scrut, table = KINDS[recv.k]
        # group the receiver's possible classes by the definition the call resolves to
        targets = {}
        for c, pat in table:
            if c in classes:
                d, fn = self.resolve(c, meth)
                targets.setdefault(d, (fn, []))[1].append((c, pat))
        calls = []
        for d, (fn, cps) in targets.items():
            term, res = self.instance(d, fn, recv.k, par(recv.t), pos, kw, n)
            calls.append((cps, term, res))
        out = calls[0][2]
        for _, _, r in calls[1:]:
            out = self.join(out, r)
        x = self.fresh("r")
        if len(calls) == 1:
            term = calls[0][1]
        else:
            arms = []
            for cps, t, r in calls:
                if self.shape(r) != self.shape(out):
                    y = self.fresh("y")
                    pat, val = self.rebind(r, y)
                    b2 = []
                    ct = self.coerce_to(val, out, b2)
                    t = f"{y} <- {t} ;;\n  " + (f"let '{pat} := {y} in " if pat != y else "") + self.wrap(b2, f"Ok {par(ct)}")
                arms.append(" | ".join(p_ for _, p_ in cps) + f" => {t}")
            if sum(len(cps) for cps, _, _ in calls) < len(table):
                arms.append("_ => Err EAssert")      # kinds the receiver's static class excludes
            term = f"match {scrut.format(t=par(recv.t))} with\n  | " + "\n  | ".join(arms) + "\n  end"
        pat, val = self.rebind(out, x)
        blk.append(("bind", x, term))
        if pat != x:
            blk.append(("letpat", pat, x))
        return val

    def shape(self, v):
        if v.k == "tuple":
            return ("tuple",) + tuple(self.shape(e) for e in v.x)
        if v.k == "dict":
            return ("dict",) + tuple((k, self.shape(e)) for k, e in v.x.items())
        return v.k

    # ---- one generated definition per (definition, argument kinds) ----
    def instance(self, cls, fn, rk, recv_t, pos, kw, n):
        """bind the call's arguments to fn's parameters; returns (call term, result template).  `self` stands for
        every class whose method resolution gives this definition"""
        a = fn.args
        if a.posonlyargs or a.kwonlyargs:
            raise Unsupported(f"{cls}.{fn.name}: positional-only / keyword-only parameters")
        if fn.decorator_list:
            raise Unsupported(f"{cls}.{fn.name}: decorated ({ast.unparse(fn.decorator_list[0])[:40]})")
        if any(not isinstance(d_, ast.Constant) for d_ in a.defaults):
            raise Unsupported(f"{cls}.{fn.name}: a parameter default that is not a constant")
        names = [p.arg for p in a.args][1:]
        defaults = dict(zip(names[len(names) - len(a.defaults):], a.defaults))
        bound = {}
        if len(pos) > len(names):
            if a.vararg is None:
                raise Unsupported(f"line {n.lineno}: too many positional arguments for {cls}.{fn.name}")
            pos = pos[:len(names)]            # *_ swallows the rest
        for nm, v in zip(names, pos):
            bound[nm] = v
        extra = {}
        for k, v in kw.items():
            if k in names:
                if k in bound:
                    raise Unsupported(f"line {n.lineno}: {cls}.{fn.name} gets {k} twice")
                bound[k] = v
            elif a.kwarg is not None:
                extra[k] = v
            else:
                raise Unsupported(f"line {n.lineno}: {cls}.{fn.name} has no parameter {k}")
        for nm in names:
            if nm not in bound:
                if nm not in defaults:
                    raise Unsupported(f"line {n.lineno}: {cls}.{fn.name} is called without {nm}")
                bound[nm] = self.ev(defaults[nm], {}, [])
        # Coq parameters: every bound / extra value that has a Coq kind (net, engine, None, constants are static)
        params, args, env = [], [], {}
        recv_name = {"link": "m", "origin": "o", "dest": "d", "node": "n"}[rk]
        selfset = tuple(c for c in self.subclasses(cls) if self.resolve(c, fn.name)[0] == cls)
        env[fn.args.args[0].arg] = V(rk, recv_name, selfset)
        key = [cls, fn.name]

        def formal(nm, v, prefix=""):
            if v.k in TY:
                cn = prefix + nm
                params.append(f"({cn} : {TY[v.k]})")
                args.append(par(v.t))
                key.append((prefix + nm, v.k, str(v.x) if v.k in KINDS else ""))
                return V(v.k, cn, v.x)
            if v.k in ("none", "net", "engine", "int"):
                if v.k in ("none", "int"):
                    key.append((prefix + nm, v.k, str(v.x)))
                return v
            raise Unsupported(f"line {n.lineno}: argument {nm} of kind {v.k} for {cls}.{fn.name}")
        for nm in names:
            env[nm] = formal(nm, bound[nm])
        if a.kwarg is not None:
            env[a.kwarg.arg] = V("kwargs", None, {k: formal(k, v, "kw_") for k, v in sorted(extra.items())})
        if a.vararg is not None:
            env[a.vararg.arg] = V("varargs")
        key = tuple(key)
        if key not in self.inst:
            self.inst[key] = None
            nprev = sum(1 for k_ in self.inst if k_[:2] == key[:2]) - 1
            cname = f"g_{cls}__{fn.name}" + (f"_{nprev}" if nprev else "")
            body, res = self.function(cls, fn, env)
            self.defs.append((cname, f"Definition {cname} ({recv_name} : nat) {' '.join(params)} : res {par(self.coq_type(res))} :=\n  {body}."))
            self.inst[key] = (cname, res, [p_.strip('()').split(' : ')[0] for p_ in params])
        elif self.inst[key] is None:
            raise Unsupported(f"{cls}.{fn.name} is recursive")
        cname, res, _ = self.inst[key]
        return " ".join([cname, recv_t] + args), res

    # ------------------------------------------------------------------
    # statements
    def function(self, cls, fn, env):
        self.rets = getattr(self, "rets", [])
        saved, self.rets = self.rets, []
        body = self.seq(list(fn.body), dict(env), None, f"{cls}.{fn.name}")
        rets, self.rets = self.rets, saved
        if not rets:
            raise Unsupported(f"{cls}.{fn.name}: no return")
        out = rets[0][1]
        for _, v in rets[1:]:
            out = self.join(out, v)
        for tok, v in rets:
            b2 = []
            body = body.replace(tok, self.wrap(b2, f"Ok {par(self.coerce_to(v, out, b2))}"))
        return body, out

    @staticmethod
    def always_returns(stmts):
        for s in stmts:
            if isinstance(s, ast.Return):
                return True
            if isinstance(s, ast.If) and s.orelse and Gen.always_returns(s.body) and Gen.always_returns(s.orelse):
                return True
        return False

    @staticmethod
    def has_return(stmts):
        return any(isinstance(x, ast.Return) for s in stmts for x in ast.walk(s))

    @staticmethod
    def assigned(stmts):
        out = []
        for s in stmts:
            for x in ast.walk(s):
                tg = []
                if isinstance(x, ast.Assign):
                    tg = x.targets
                elif isinstance(x, (ast.AnnAssign, ast.AugAssign)):
                    tg = [x.target]
                for t in tg:
                    for nm in ast.walk(t):
                        if isinstance(nm, ast.Name) and nm.id not in out:
                            out.append(nm.id)
        return out

    def bind_target(self, tgt, v, env, blk):
        if isinstance(tgt, ast.Name):
            if tgt.id == "_":
                return
            if v.k in TY and not atom(v.t):
                x = self.fresh(tgt.id)
                blk.append(("let", x, v.t))
                v = V(v.k, x, v.x)
            env[tgt.id] = v
            return
        if isinstance(tgt, ast.Tuple):
            if v.k == "edge" and len(tgt.elts) == 3:
                parts = [V("node", f"e_up {par(v.t)}", ("Node",)), V("node", f"e_down {par(v.t)}", ("Node",)),
                         V("link", f"e_link {par(v.t)}", self.all_of("link"))]
            elif v.k == "tuple" and len(v.x) == len(tgt.elts):
                parts = v.x
            else:
                raise Unsupported(f"line {tgt.lineno}: unpacking a {v.k}")
            for t, p in zip(tgt.elts, parts):
                self.bind_target(t, p, env, blk)
            return
        raise Unsupported(f"line {tgt.lineno}: assignment to {type(tgt).__name__}")

    def is_engine_guard(self, s):
        from translator.forwarding import is_none_guard
        return is_none_guard(s)

    def seq(self, stmts, env, fin, where):
        """Coq term (type res R) of: run stmts in env, then fin(env) (None: the function must have returned)"""
        blk = []
        for i, s in enumerate(stmts):
            rest = stmts[i + 1:]
            if isinstance(s, ast.Expr) and isinstance(s.value, ast.Constant) and isinstance(s.value.value, str):
                continue
            if isinstance(s, ast.Pass) or self.is_engine_guard(s):
                continue
            if isinstance(s, ast.Expr) and isinstance(s.value, ast.Call):
                v = self.ev(s.value, env, blk)
                if v.k != "none":
                    raise Unsupported(f"line {s.lineno}: the result of a call is dropped")
                continue
            if isinstance(s, (ast.Assign, ast.AnnAssign)):
                if isinstance(s, ast.Assign) and len(s.targets) != 1 or s.value is None:
                    raise Unsupported(f"line {s.lineno}: multiple-target / bare annotated assignment")
                v = self.ev(s.value, env, blk)
                self.bind_target(s.targets[0] if isinstance(s, ast.Assign) else s.target, v, env, blk)
                continue
            if isinstance(s, ast.AugAssign) and isinstance(s.target, ast.Name) and isinstance(s.op, ast.Add):
                a, b = self.ev(s.target, env, blk), self.ev(s.value, env, blk)
                if a.k != "num":
                    raise Unsupported(f"line {s.lineno}: += on a {a.k}")
                self.bind_target(s.target, V("num", f"add {par(a.t)} {par(self.coerce(b, 'num', blk))}"), env, blk)
                continue
            if isinstance(s, ast.Assert):
                blk.append(("guard", "EAssert", self.cond(s.test, env, blk)))
                continue
            if isinstance(s, ast.Return):
                if s.value is None:
                    raise Unsupported(f"line {s.lineno}: bare return")
                v = self.ev(s.value, env, blk)
                tok = f"⟦RET{len(self.rets)}:{id(self)}⟧"
                self.rets.append((tok, v))
                return self.wrap(blk, tok)
            if isinstance(s, ast.For):
                self.for_loop(s, env, blk)
                continue
            if isinstance(s, ast.If):
                return self.wrap(blk, self.if_stmt(s, rest, env, fin, where))
            raise Unsupported(f"line {s.lineno}: statement {type(s).__name__} in {where}")
        if fin is None:
            raise Unsupported(f"{where}: a path reaches the end of the function without returning")
        return self.wrap(blk, fin(env))

    def for_loop(self, s, env, blk):
        """for <pattern> in <edges>: X.append(e1); Y.append(e2)  ==>  X, Y = lists built by mapM"""
        it = self.ev(s.iter, env, blk)
        if it.k != "edges" or s.orelse:
            raise Unsupported(f"line {s.lineno}: loop over a {it.k}")
        for st_ in s.body:
            ok = isinstance(st_, ast.Expr) and isinstance(st_.value, ast.Call) and isinstance(st_.value.func, ast.Attribute) \
                and st_.value.func.attr == "append" and isinstance(st_.value.func.value, ast.Name) and len(st_.value.args) == 1
            if not ok or env.get(st_.value.func.value.id, V("?")).k != "plist" or env[st_.value.func.value.id].x:
                raise Unsupported(f"line {st_.lineno}: loop body other than appending to an empty list")
        for st_ in s.body:
            e = self.fresh("e")
            env2 = dict(env)
            b2 = []
            self.bind_target(s.target, V("edge", e), env2, b2)
            body = self.ev(st_.value.args[0], env2, b2)
            t = self.wrap(b2, f"Ok {par(self.coerce(body, 'vec', b2))}")
            x = self.fresh(st_.value.func.value.id)
            blk.append(("bind", x, f"mapM (fun {e} => {t}) {par(it.t)}"))
            env[st_.value.func.value.id] = V("vecs", x, it.t)
        # Python's loop variables outlive the loop (bound to the last item, or left as they were over nothing):
        # whatever they are called is unusable afterwards
        for nm in ast.walk(s.target):
            if isinstance(nm, ast.Name) and nm.id != "_":
                env[nm.id] = V("leaked-loop-variable")

    def narrowing(self, test, env):
        """`X is None` / `X is not None` on an optional variable: (name, positive?)"""
        if isinstance(test, ast.Compare) and len(test.ops) == 1 and isinstance(test.left, ast.Name) \
                and isinstance(test.comparators[0], ast.Constant) and test.comparators[0].value is None \
                and isinstance(test.ops[0], (ast.Is, ast.IsNot)) and env.get(test.left.id, V("?")).k == "opt":
            return test.left.id, isinstance(test.ops[0], ast.IsNot)
        return None

    def if_stmt(self, s, rest, env, fin, where):
        nar = self.narrowing(s.test, env)
        cblk = []
        envT, envF = dict(env), dict(env)
        if nar:
            x = self.fresh(nar[0])
            (envT if nar[1] else envF)[nar[0]] = V("num", x)
            (envF if nar[1] else envT)[nar[0]] = V("none")

            def ite(t_then, t_else):
                some, none = (t_then, t_else) if nar[1] else (t_else, t_then)
                return f"match {env[nar[0]].t} with\n  | Some {x} => {some}\n  | None => {none}\n  end"
        else:
            t_ = s.test
            if isinstance(t_, ast.Call) and isinstance(t_.func, ast.Name) and t_.func.id == "isinstance" and len(t_.args) == 2 \
                    and isinstance(t_.args[0], ast.Name) and isinstance(t_.args[1], ast.Name) \
                    and env.get(t_.args[0].id, V("?")).k in KINDS and t_.args[1].id in self.classes:
                v_ = env[t_.args[0].id]            # the class test narrows what the variable can be in each branch
                sub = set(self.subclasses(t_.args[1].id))
                envT[t_.args[0].id] = V(v_.k, v_.t, tuple(c_ for c_ in v_.x if c_ in sub))
                envF[t_.args[0].id] = V(v_.k, v_.t, tuple(c_ for c_ in v_.x if c_ not in sub))
            c = self.cond(s.test, env, cblk)
            if c in ("true", "false"):        # decided by the kinds of the values: only one branch exists
                return self.wrap(cblk, self.seq((s.body if c == "true" else s.orelse) + rest, env, fin, where))

            def ite(t_then, t_else):
                return f"(if {c}\n  then {t_then}\n  else {t_else})"
        after = (lambda e: self.seq(rest, e, fin, where)) if rest or fin is None else fin
        if self.always_returns(s.body) or (s.orelse and self.always_returns(s.orelse)):
            return self.wrap(cblk, ite(self.seq(s.body + rest if not self.always_returns(s.body) else s.body, envT, fin, where),
                                      self.seq(s.orelse + rest if not self.always_returns(s.orelse) else s.orelse, envF, fin, where)))
        if self.has_return(s.body) or self.has_return(s.orelse):
            raise Unsupported(f"line {s.lineno}: a branch that returns on some paths only")
        # join: both branches fall through; the `if` yields the tuple of the variables it assigns
        names = self.assigned(s.body + s.orelse)
        ends = []

        def capture(e):
            ends.append(e)
            return f"⟦JOIN{len(ends) - 1}:{id(s)}⟧"
        tT = self.seq(s.body, envT, capture, where)
        tF = self.seq(s.orelse, envF, capture, where) if s.orelse else capture(envF)
        live, tmpl, dead = [], [], []
        for nm in [nm for nm in names if all(nm in e for e in ends)]:
            try:
                t = ends[0][nm]
                for e in ends[1:]:
                    t = self.join(t, e[nm])
                self.coq_type(t)
            except Unsupported:
                dead.append(nm)      # what the branches leave in it cannot be one value: unusable afterwards
                continue
            live.append(nm)
            tmpl.append(t)
        env2 = {k: v for k, v in env.items() if k not in names}
        for nm in dead:
            env2[nm] = V("differs-between-branches")
        pats = []
        for nm, t in zip(live, tmpl):
            pat, val = self.rebind(t, self.fresh(nm))
            pats.append(pat)
            env2[nm] = val
        terms = [tT, tF]
        for i, e in enumerate(ends):
            b2 = []
            parts = [self.coerce_to(e[nm], t, b2) for nm, t in zip(live, tmpl)]
            tup = "tt" if not parts else (parts[0] if len(parts) == 1 else "(" + ", ".join(parts) + ")")
            terms = [t_.replace(f"⟦JOIN{i}:{id(s)}⟧", self.wrap(b2, f"Ok {par(tup)}")) for t_ in terms]
        j = self.fresh("j")
        pat = "_" if not pats else (pats[0] if len(pats) == 1 else "(" + ", ".join(pats) + ")")
        k_ = after(env2)
        head = f"{j} <- {ite(terms[0], terms[1])} ;;\n  "
        if pat == "_" or (len(pats) == 1 and atom(pat)):
            head = f"{pat if pat != '_' else j} <- {ite(terms[0], terms[1])} ;;\n  "
            return self.wrap(cblk, head + k_)
        return self.wrap(cblk, head + f"let '{pat} := {j} in\n  " + k_)


PRELUDE = '''(* GENERATED by translator/blocks.py from blocks/{links,nodes,origins,destinations}.py - do not edit *)
From Coq Require Import QArith List String Arith Bool.
From SM Require Import Num Graph Engine Expr Types Blocks.
Import ListNotations.

Section BlocksGen.
Context {A : Type} {NA : Num A}.
Variable E : engine A.
Variable U : universe.
Variable P : params A.
Variable g : graph.
Variable st : state A.

Definition is_some {T} (x : option T) : bool := match x with Some _ => true | None => false end.
Definition of_opt {T} (e : err) (x : option T) : res T := match x with Some y => Ok y | None => Err e end.
Definition first_edge (l : list edge) : res edge := match l with e :: _ => Ok e | [] => Err EEmpty end.
Definition optq_eq0 (x : option Q) : bool := match x with Some d => Qeq_bool d 0 | None => false end.
Definition lvsl_of (m : nat) : list nat := match lvsl (linkd U m) with Some l => l | None => [] end.
Definition flow_eq_type_of (k : okind) : string :=
  match k with ORamp true => "in" | ORamp false => "out" | OSimp true => "limited" | OSimp false => "unlimited"
             | _ => "" end%string.
'''


def translate(repo):
    G = Gen(repo)
    entries = []
    for cname, rk, meth, pars in ENTRIES:
        classes = G.all_of(rk)
        if meth == "step_dynamics" and rk == "origin":
            # ElementBase.step returns before step_dynamics for a class that declares no states
            classes = tuple(c for c in classes if G.declares_states(c))
        letter = {"link": "m", "origin": "o", "dest": "d", "node": "n"}[rk]
        recv = V(rk, letter, classes)
        kw = {"net": V("net"), "engine": V("engine")}
        params = []
        for nm, k in pars.items():
            kw[nm] = V(k, f"a_{nm}", G.all_of(k) if k in KINDS else None)
            params.append(f"(a_{nm} : {TY[k]})")
        blk = []
        fake = ast.parse("0").body[0]
        val = G.method_call(recv, meth, [], kw, blk, fake)
        while blk and blk[-1][0] == "letpat":
            blk.pop()
        assert blk[-1][0] == "bind"
        term = G.wrap(blk[:-1], blk[-1][2])
        G.defs.append((cname, f"Definition {cname} ({letter} : nat) {' '.join(params)} : res {par(G.coq_type(val))} :=\n  {term}."))
        entries.append((cname, rk, meth, list(pars), list(classes)))
    # the default values of the parameters of every translated method (element-level calls rely on them)
    seen, rows = set(), []
    for key, val in G.inst.items():
        cls, meth = key[0], key[1]
        if (cls, meth) in seen:
            continue
        seen.add((cls, meth))
        fn = G.resolve(cls, meth)[1]
        a = fn.args
        names = [x.arg for x in a.args]
        for nm, dflt in zip(names[len(names) - len(a.defaults):], a.defaults):
            rows.append((f"{cls}.{meth}.{nm}", ast.unparse(dflt)))
    rows.sort()
    deftab = "Definition gen_defaults : list (string * string) :=\n  [" + ";\n   ".join(
        '("' + k + '", "' + v.replace('"', "'") + '")' for k, v in rows) + "]%string.\n"
    text = PRELUDE + "\n" + "\n\n".join(d for _, d in G.defs) + "\n\nEnd BlocksGen.\n\n" + deftab
    return text, entries


if __name__ == "__main__":
    import sys
    t, e = translate(sys.argv[1] if len(sys.argv) > 1 else "/repo")
    print(t)
    print("(*", e, "*)")
