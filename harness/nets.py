"""Network descriptions shared by the Coq model and the implementation:
generation of valid topologies, construction through the public API,
emission as Coq terms, numeric points."""
import itertools
import math
import random

OKINDS = ["ideal", "main", "ramp_in", "ramp_out", "simp_lim", "simp_unl"]
DKINDS = ["free", "cong"]
COQ_OKIND = {"ideal": "OIdeal", "main": "OMain", "ramp_in": "(ORamp true)",
             "ramp_out": "(ORamp false)", "simp_lim": "(OSimp true)", "simp_unl": "(OSimp false)"}
COQ_DKIND = {"free": "DFree", "cong": "DCong"}
RAMPS = {"ramp_in", "ramp_out", "simp_lim", "simp_unl"}
LPARS = ["L", "rho_max", "rho_crit", "v_free", "a", "turnrate", "alpha"]
GPARS = ["T", "tau", "eta", "kappa", "delta", "phi"]


class Net:
    """A network description: construction ops + element structure."""

    def __init__(self):
        self.ops = []          # ("node", n) | ("link", u, l, d) | ("origin", o, n) | ("dest", d, n)
        self.links = {}        # l -> dict(N=int, lanes=int, vsl=None|list[int])
        self.origins = {}      # o -> kind
        self.dests = {}        # d -> kind
        self.has_delta = False
        self.has_phi = False
        self.family = "?"
        # elements that are attached and later replaced (not part of the final graph)
        self.x_links = {}
        self.x_origins = {}
        self.x_dests = {}

    # ---- the graph the ops denote (simulation of networkx insertion order) ----
    def graph(self):
        nodes = {}             # n -> [orig, dest]   (dict keeps insertion order)
        edges = {}             # (u, d) -> l
        for op in self.ops:
            if op[0] == "node":
                nodes.setdefault(op[1], [None, None])
            elif op[0] == "link":
                _, u, l, d = op
                nodes.setdefault(u, [None, None])
                nodes.setdefault(d, [None, None])
                edges[(u, d)] = l
            elif op[0] == "origin":
                nodes.setdefault(op[2], [None, None])[0] = op[1]
            elif op[0] == "dest":
                nodes.setdefault(op[2], [None, None])[1] = op[1]
        return ([(n, a[0], a[1]) for n, a in nodes.items()],
                [(u, d, l) for (u, d), l in edges.items()])

    def out_links(self, n):
        return [e for e in self.graph()[1] if e[0] == n]

    def in_links(self, n):
        return [e for e in self.graph()[1] if e[1] == n]

    def links_order(self):
        nodes, edges = self.graph()
        return [e for (n, _, _) in nodes for e in edges if e[0] == n]

    def is_valid(self):
        nodes, edges = self.graph()
        ls = [e[2] for e in edges]
        os_ = [o for (_, o, _) in nodes if o is not None]
        ds = [d for (_, _, d) in nodes if d is not None]
        if len(set(ls)) != len(ls) or len(set(os_)) != len(os_) or len(set(ds)) != len(ds):
            return False
        for (n, o, d) in nodes:
            nin = len([e for e in edges if e[1] == n])
            nout = len([e for e in edges if e[0] == n])
            if o is not None and d is not None:
                return False
            if nin == 0 and nout == 0:
                return False
            if nin == 0 and o is None:
                return False
            if nout == 0 and d is None:
                return False
            if o is not None:
                if self.origins[o] not in RAMPS and nin > 0:
                    return False
                if nout > 1:
                    return False
            if d is not None:
                if nin > 1 or nout > 0:
                    return False
        return True

    def is_valid_shared(self):
        return self.is_valid()

    def canonical(self):
        nodes, edges = self.graph()
        return (tuple(sorted((n, None if o is None else (o, self.origins.get(o)), None if d is None else (d, self.dests.get(d)))
                             for (n, o, d) in nodes)),
                tuple(sorted(edges)))

    # ---- signature used to count distinct topologies ----
    def signature(self):
        nodes, edges = self.graph()
        degs = sorted((len([e for e in edges if e[1] == n]), len([e for e in edges if e[0] == n]),
                       self.origins.get(o, "-") if o is not None else "-",
                       self.dests.get(d, "-") if d is not None else "-") for (n, o, d) in nodes)
        ls = sorted((v["N"], v["lanes"], tuple(v["vsl"]) if v["vsl"] is not None else (-1,))
                    for v in self.links.values())
        return (tuple(degs), tuple(ls), self.has_delta, self.has_phi)

    def nontrivial(self):
        nodes, edges = self.graph()
        for (n, o, d) in nodes:
            if len([e for e in edges if e[1] == n]) >= 2 or len([e for e in edges if e[0] == n]) >= 2:
                return True
        if any(v["vsl"] is not None for v in self.links.values()):
            return True
        return any(k != "ideal" for k in self.origins.values()) or "cong" in self.dests.values()

    # ---- Coq terms ----
    def coq_universe(self):
        nl = max(self.links) + 1 if self.links else 0
        infos = []
        for l in range(nl):
            v = self.links.get(l, dict(N=0, lanes=0, vsl=None))
            vsl = "None" if v["vsl"] is None else "(Some [" + "; ".join(f"{i}%nat" for i in v["vsl"]) + "])"
            infos.append(f"{{| lN := {v['N']}%nat; llanes := ({v['lanes']} # 1)%Q; lvsl := {vsl} |}}")
        no = max(self.origins) + 1 if self.origins else 0
        oks = [COQ_OKIND[self.origins.get(o, "ideal")] for o in range(no)]
        nd = max(self.dests) + 1 if self.dests else 0
        dks = [COQ_DKIND[self.dests.get(d, "free")] for d in range(nd)]
        return ("{| linkd := fun l => nth l [" + "; ".join(infos)
                + "] {| lN := 0%nat; llanes := 0%Q; lvsl := None |}; okind_of := fun o => nth o ["
                + "; ".join(oks) + "] OIdeal; dkind_of := fun d => nth d [" + "; ".join(dks)
                + "] DFree |}")

    def coq_graph(self):
        nodes, edges = self.graph()

        def opt(x):
            return "None" if x is None else f"(Some {x}%nat)"
        ns = "; ".join(f"{{| nid := {n}%nat; n_orig := {opt(o)}; n_dest := {opt(d)} |}}" for (n, o, d) in nodes)
        es = "; ".join(f"{{| e_up := {u}%nat; e_down := {d}%nat; e_link := {l}%nat |}}" for (u, d, l) in edges)
        return f"{{| g_nodes := [{ns}]; g_edges := [{es}] |}}"

    def to_json(self):
        return {"ops": [list(o) for o in self.ops],
                "links": {str(k): v for k, v in self.links.items()},
                "origins": {str(k): v for k, v in self.origins.items()},
                "dests": {str(k): v for k, v in self.dests.items()},
                "has_delta": self.has_delta, "has_phi": self.has_phi, "family": self.family,
                "x_links": {str(k): v for k, v in self.x_links.items()},
                "x_origins": {str(k): v for k, v in self.x_origins.items()},
                "x_dests": {str(k): v for k, v in self.x_dests.items()}}

    @staticmethod
    def from_json(j):
        n = Net()
        n.ops = [tuple(o) for o in j["ops"]]
        n.links = {int(k): v for k, v in j["links"].items()}
        n.origins = {int(k): v for k, v in j["origins"].items()}
        n.dests = {int(k): v for k, v in j["dests"].items()}
        n.has_delta = j["has_delta"]
        n.has_phi = j["has_phi"]
        n.family = j.get("family", "?")
        n.x_links = {int(k): v for k, v in j.get("x_links", {}).items()}
        n.x_origins = {int(k): v for k, v in j.get("x_origins", {}).items()}
        n.x_dests = {int(k): v for k, v in j.get("x_dests", {}).items()}
        return n


def with_replacements(net, rng):
    """the same final network, built through a history in which some links / origins /
    destinations are first attached as other objects and then replaced"""
    import copy
    n2 = copy.deepcopy(net)
    ops = []
    nl = (max(list(net.links) + [0]) + 1)
    no = (max(list(net.origins) + [0]) + 1)
    nd = (max(list(net.dests) + [0]) + 1)
    for op in net.ops:
        if rng.random() < 0.5:
            if op[0] == "link":
                n2.x_links[nl] = dict(N=rng.choice([1, 2, 3]), lanes=rng.choice([1, 2, 3]), vsl=None)
                ops.append(("link", op[1], nl, op[3]))
                nl += 1
            elif op[0] == "origin":
                n2.x_origins[no] = rng.choice(OKINDS)
                ops.append(("origin", no, op[2]))
                no += 1
            elif op[0] == "dest":
                n2.x_dests[nd] = rng.choice(DKINDS)
                ops.append(("dest", nd, op[2]))
                nd += 1
        ops.append(op)
    n2.ops = ops
    return n2


def with_late_replacements(net, rng):
    """build the network with some links / origins / destinations being other objects, USE it
    (validate, step, read look-ups), then replace those by the final elements"""
    import copy
    n2 = copy.deepcopy(net)
    nl = (max(list(net.links) + list(net.x_links) + [0]) + 1)
    no = (max(list(net.origins) + list(net.x_origins) + [0]) + 1)
    nd = (max(list(net.dests) + list(net.x_dests) + [0]) + 1)
    first, later = [], []
    interior = {op[3] for op in net.ops if op[0] == "link"}      # nodes with an entering link
    for op in net.ops:
        if op[0] == "link" and rng.random() < 0.6:
            n2.x_links[nl] = dict(net.links[op[2]], vsl=None)
            first.append(("link", op[1], nl, op[3]))
            later.append(op)
            nl += 1
        elif op[0] == "origin" and op[2] in interior and rng.random() < 0.5:
            later.append(op)          # an on-ramp at an interior node: attached only after the network was used
        elif op[0] == "origin" and rng.random() < 0.6:
            n2.x_origins[no] = net.origins[op[1]] if rng.random() < 0.7 else rng.choice(OKINDS)
            first.append(("origin", no, op[2]))
            later.append(op)
            no += 1
        elif op[0] == "dest" and rng.random() < 0.6:
            n2.x_dests[nd] = rng.choice(DKINDS)
            first.append(("dest", nd, op[2]))
            later.append(op)
            nd += 1
        else:
            first.append(op)
    n2.ops = first + [("use",)] + later
    return n2


def coq_options(opts):
    names = ["pi_v", "pi_rho", "pi_w", "pn_v", "pn_rho", "pn_w"]
    return "{| " + "; ".join(f"{n} := {'true' if opts.get(n) else 'false'}" for n in names) + " |}"


OPT_KW = {"pi_v": "positive_init_speed", "pi_rho": "positive_init_density",
          "pi_w": "positive_init_queue", "pn_v": "positive_next_speed",
          "pn_rho": "positive_next_density", "pn_w": "positive_next_queue"}


def opts_kwargs(opts):
    """keyword arguments of Network.step for an option set; NO option set at all (None / {}) passes nothing:
    the library's own defaults (documented: all False) are then what is exercised"""
    if not opts:
        return {}
    return {OPT_KW[k]: bool(opts.get(k)) for k in OPT_KW}


# ---------------------------------------------------------------------------
# topology generation
def _mklink(rng, nmax=4, vslp=0.3, n=None):
    N = n if n is not None else rng.choice([1, 1, 2, 3, nmax])
    vsl = None
    if rng.random() < vslp:
        k = rng.choice([0, 1, N])
        vsl = sorted(rng.sample(range(N), min(k, N)))
    return dict(N=N, lanes=rng.choice([1, 2, 3, 4]), vsl=vsl)


def from_edges(edge_list, origins, dests, rng, order="given", delta=None, phi=None, family="?",
               linkmk=None):
    """edge_list: [(u, d)], origins: {node: kind}, dests: {node: kind}."""
    net = Net()
    net.family = family
    ops = []
    for l, (u, d) in enumerate(edge_list):
        net.links[l] = (linkmk or _mklink)(rng)
        ops.append(("link", u, l, d))
    for o, (n, k) in enumerate(sorted(origins.items())):
        net.origins[o] = k
        ops.append(("origin", o, n))
    for d, (n, k) in enumerate(sorted(dests.items())):
        net.dests[d] = k
        ops.append(("dest", d, n))
    if order == "shuffled":
        rng.shuffle(ops)
        # random explicit add_node calls in front / between
        nodes = sorted({x for (u, d) in edge_list for x in (u, d)})
        for n in nodes:
            if rng.random() < 0.4:
                ops.insert(rng.randrange(len(ops) + 1), ("node", n))
    net.ops = ops
    net.has_delta = rng.random() < 0.6 if delta is None else delta
    net.has_phi = rng.random() < 0.6 if phi is None else phi
    return net


def random_valid(rng, nmax=6):
    """rejection sampling of a valid topology on <= nmax nodes"""
    for _ in range(2000):
        n = rng.randint(2, nmax)
        p = rng.choice([0.15, 0.25, 0.4])
        edges = [(u, d) for u in range(n) for d in range(n)
                 if (u != d and rng.random() < p) or (u == d and rng.random() < 0.05)]
        if not edges:
            continue
        origins, dests = {}, {}
        ok = True
        for x in range(n):
            nin = len([e for e in edges if e[1] == x])
            nout = len([e for e in edges if e[0] == x])
            if nin == 0 and nout == 0:
                ok = False
                break
            if nin == 0:
                if nout > 1:
                    ok = False
                    break
                origins[x] = rng.choice(OKINDS)
            elif nout == 0:
                if nin > 1:
                    ok = False
                    break
                dests[x] = rng.choice(DKINDS)
            elif nout == 1 and rng.random() < 0.35:
                origins[x] = rng.choice(sorted(RAMPS))
        if not ok:
            continue
        net = from_edges(edges, origins, dests, rng, order=rng.choice(["given", "shuffled"]),
                         family="random")
        if net.is_valid():
            return net
    raise RuntimeError("no valid topology found")


def families(rng):
    """the fixed topology families of DESIGN 1.5"""
    out = []

    def add(name, edges, origins, dests, **kw):
        net = from_edges(edges, origins, dests, rng, family=name, **kw)
        assert net.is_valid(), name
        out.append(net)

    for ok in OKINDS:
        for dk in DKINDS:
            add(f"single-{ok}-{dk}", [(0, 1)], {0: ok}, {1: dk})
    add("chain3", [(0, 1), (1, 2), (2, 3)], {0: "main"}, {3: "cong"})
    add("merge2", [(0, 2), (1, 2), (2, 3)], {0: "main", 1: "ideal"}, {3: "free"})
    add("merge3", [(0, 3), (1, 3), (2, 3), (3, 4)], {0: "main", 1: "ramp_out", 2: "simp_lim"}, {4: "cong"})
    add("bifur2", [(0, 1), (1, 2), (1, 3)], {0: "ideal"}, {2: "free", 3: "cong"})
    add("bifur3", [(0, 1), (1, 2), (1, 3), (1, 4)], {0: "main"}, {2: "free", 3: "cong", 4: "free"})
    add("junction22", [(0, 2), (1, 2), (2, 3), (2, 4)], {0: "main", 1: "ramp_in"}, {3: "free", 4: "cong"})
    for rk in sorted(RAMPS):
        add(f"interior-{rk}", [(0, 1), (1, 2)], {0: "main", 1: rk}, {2: "free"}, delta=True)
        add(f"interior-{rk}-nodelta", [(0, 1), (1, 2)], {0: "ideal", 1: rk}, {2: "cong"}, delta=False)
    add("ring-ramp", [(0, 1), (1, 0), (1, 2)], {0: "ramp_out"}, {2: "free"}, delta=True)
    add("selfloop", [(0, 1), (1, 1), (1, 2)], {0: "main"}, {2: "free"})
    add("merge-ramp", [(0, 2), (1, 2), (2, 3)], {0: "main", 1: "ideal", 2: "ramp_out"}, {3: "free"}, delta=True)
    add("lanedrop", [(0, 1), (1, 2)], {0: "main"}, {2: "free"}, phi=True,
        linkmk=lambda r, c=itertools.count(): dict(N=r.choice([1, 3]), lanes=[3, 2][next(c) % 2], vsl=None))
    add("lanegain", [(0, 1), (1, 2)], {0: "main"}, {2: "free"}, phi=True,
        linkmk=lambda r, c=itertools.count(): dict(N=2, lanes=[2, 4][next(c) % 2], vsl=None))
    add("samelanes-phi", [(0, 1), (1, 2)], {0: "ideal"}, {2: "free"}, phi=True,
        linkmk=lambda r: dict(N=2, lanes=3, vsl=None))
    add("vsl-all", [(0, 1), (1, 2)], {0: "main"}, {2: "cong"},
        linkmk=lambda r: dict(N=3, lanes=2, vsl=[0, 1, 2]))
    add("vsl-one", [(0, 1), (1, 2)], {0: "ramp_in"}, {2: "free"},
        linkmk=lambda r: dict(N=3, lanes=2, vsl=[1]))
    add("vsl-empty", [(0, 1)], {0: "ideal"}, {1: "free"}, linkmk=lambda r: dict(N=2, lanes=2, vsl=[]))
    add("single-seg-chain", [(0, 1), (1, 2), (2, 3)], {0: "simp_unl"}, {3: "free"},
        linkmk=lambda r: dict(N=1, lanes=2, vsl=None))
    add("seg1-merge-drop", [(0, 1), (1, 2), (2, 3)], {0: "main", 1: "ramp_out"}, {3: "free"},
        delta=True, phi=True,
        linkmk=lambda r, c=itertools.count(): [dict(N=2, lanes=3, vsl=None), dict(N=1, lanes=3, vsl=None),
                                               dict(N=2, lanes=2, vsl=None)][next(c) % 3])
    add("seg1-merge-drop-vsl", [(0, 1), (1, 2), (2, 3)], {0: "ideal", 1: "simp_lim"}, {3: "cong"},
        delta=True, phi=True,
        linkmk=lambda r, c=itertools.count(): [dict(N=1, lanes=2, vsl=None), dict(N=1, lanes=2, vsl=[0]),
                                               dict(N=1, lanes=4, vsl=None)][next(c) % 3])
    add("junction-ramp-lanes", [(0, 2), (1, 2), (2, 3), (3, 4), (3, 5)],
        {0: "main", 1: "ideal", 2: "ramp_in"}, {4: "free", 5: "cong"}, delta=True, phi=True,
        linkmk=lambda r, c=itertools.count(): [dict(N=2, lanes=3, vsl=[1]), dict(N=1, lanes=1, vsl=None),
                                               dict(N=3, lanes=4, vsl=None), dict(N=1, lanes=2, vsl=None),
                                               dict(N=2, lanes=1, vsl=None)][next(c) % 5])
    add("two-cycle", [(0, 1), (1, 2), (2, 1), (2, 3)], {0: "main"}, {3: "free"})
    # long links: set-iteration order of the speed-limit segments ({1, 8} iterates as 8, 1), two-digit segment
    # indices (rho_L_10 sorts before rho_L_2)
    add("vsl-long", [(0, 1), (1, 2)], {0: "main"}, {2: "free"},
        linkmk=lambda r, c=itertools.count(): [dict(N=9, lanes=2, vsl=[1, 8]), dict(N=17, lanes=2, vsl=[3, 16])][next(c) % 2])
    add("long-link", [(0, 1), (1, 2)], {0: "ramp_out"}, {2: "cong"},
        linkmk=lambda r, c=itertools.count(): [dict(N=12, lanes=3, vsl=None), dict(N=2, lanes=3, vsl=[0])][next(c) % 2])
    add("merge-simp-unl", [(0, 2), (1, 2), (2, 3)], {0: "main", 1: "ideal", 2: "simp_unl"}, {3: "free"}, delta=True)
    # action names interleave in element order (r, q, r; v_ctrl of a VSL link, r, v_ctrl of the mainstream origin):
    # grouping by variable name and stacking by element differ
    add("interleaved-actions", [(0, 1), (1, 2), (2, 3), (3, 4)], {0: "ramp_out", 1: "simp_lim", 2: "ramp_in", 3: "simp_unl"},
        {4: "cong"}, delta=True)
    # the ramp's node is inserted before the node of the mainstream origin (downstream section added first)
    add("ramp-before-main", [(1, 2), (2, 3), (0, 1)], {0: "main", 1: "ramp_out", 2: "simp_lim"}, {3: "cong"}, delta=True,
        linkmk=lambda r, c=itertools.count(): [dict(N=2, lanes=2, vsl=[0]), dict(N=1, lanes=2, vsl=None),
                                               dict(N=2, lanes=2, vsl=[1])][next(c) % 3])
    # more shapes: a ring with neither origin nor destination, two parallel paths that re-merge, a node with three
    # entering and three leaving links, links of exactly two segments, a single-segment link into a destination
    add("pure-ring", [(0, 1), (1, 2), (2, 0)], {}, {})
    add("parallel-remerge", [(0, 1), (1, 2), (1, 3), (2, 4), (3, 4), (4, 5)], {0: "main"}, {5: "cong"}, phi=True)
    add("junction33", [(0, 3), (1, 3), (2, 3), (3, 4), (3, 5), (3, 6)], {0: "main", 1: "ideal", 2: "ramp_out"},
        {4: "free", 5: "cong", 6: "free"})
    add("two-seg-links", [(0, 1), (1, 2), (2, 3)], {0: "simp_lim", 1: "ramp_in"}, {3: "cong"}, delta=True, phi=True,
        linkmk=lambda r, c=itertools.count(): dict(N=2, lanes=[3, 2, 3][next(c) % 3], vsl=None))
    add("dest-single-seg", [(0, 1), (1, 2)], {0: "ideal"}, {2: "cong"},
        linkmk=lambda r, c=itertools.count(): dict(N=[3, 1][next(c) % 2], lanes=2, vsl=None))
    add("merge-merge", [(0, 2), (1, 2), (2, 4), (3, 4), (4, 5)], {0: "main", 1: "ideal", 3: "ramp_out"}, {5: "free"})
    add("merge-bifur-merge", [(0, 2), (1, 2), (2, 3), (2, 4), (3, 5), (4, 5), (5, 6)], {0: "main", 1: "ideal"},
        {6: "cong"})
    return out


# ---------------------------------------------------------------------------
# numeric points
def random_params(net, rng):
    pv = {}
    for l in net.links:
        rc = rng.uniform(25, 40)
        pv[f"lp.{l}.L"] = rng.uniform(0.5, 2.0)
        pv[f"lp.{l}.rho_max"] = rng.uniform(150, 200)
        pv[f"lp.{l}.rho_crit"] = rc
        pv[f"lp.{l}.v_free"] = rng.uniform(90, 130)
        # (a = 2 exactly now and then: the one common value for which the equilibrium speed is also defined
        # for a negative density, so that states with negative entries are not all "not a number")
        pv[f"lp.{l}.a"] = rng.uniform(1.2, 2.5) if rng.random() < 0.8 else 2.0
        pv[f"lp.{l}.turnrate"] = rng.uniform(0.2, 3.0)
        # (non-compliance factor: usually a small positive number; zero and - drivers slower than the sign - slightly
        # negative values are numbers like any other for the formulas)
        r_ = rng.random()
        pv[f"lp.{l}.alpha"] = rng.uniform(0.0, 0.2) if r_ < 0.7 else (0.0 if r_ < 0.85 else rng.uniform(-0.2, -0.02))
    # turn rates: sometimes all equal (the default 1.0, or a common value), sometimes one leaving link of a
    # node closed (turn rate exactly 0) - legal values a rule may mishandle
    nodes_, edges_ = net.graph()
    mode = rng.random()
    for (n, _, _) in nodes_:
        outs = [l for (u, d, l) in edges_ if u == n]
        if mode < 0.25:
            for l in outs:
                pv[f"lp.{l}.turnrate"] = 1.0
        elif mode < 0.4 and len(outs) >= 2:
            c = rng.choice([0.5, 1.0, 2.0])
            for l in outs:
                pv[f"lp.{l}.turnrate"] = c
        elif mode < 0.55 and len(outs) >= 2:
            pv[f"lp.{rng.choice(outs)}.turnrate"] = 0.0
    for o in net.origins:
        pv[f"C.{o}"] = rng.uniform(1500, 2500)
    pv["g.T"] = 10 / 3600
    pv["g.tau"] = rng.uniform(15, 25) / 3600
    # (an anticipation, merging or lane-drop constant of exactly zero switches that term off: a legal number)
    pv["g.eta"] = rng.uniform(30, 70) if rng.random() < 0.92 else 0.0
    pv["g.kappa"] = rng.uniform(20, 50)
    pv["g.delta"] = rng.uniform(0.005, 0.02) if rng.random() < 0.92 else 0.0
    pv["g.phi"] = rng.uniform(0.5, 3.0) if rng.random() < 0.92 else 0.0
    return pv


def random_state(net, pv, rng, mode="interior"):
    """mode: interior | boundary | negative (for clamp tests)"""
    sv = {}

    def pick(lo, hi, specials):
        if mode == "boundary" and rng.random() < 0.45:
            return rng.choice(specials)
        if mode == "negative" and rng.random() < 0.4:
            return -rng.uniform(0, hi - lo) * 0.5
        return rng.uniform(lo, hi)

    for l, v in net.links.items():
        rmax, rc, vf = pv[f"lp.{l}.rho_max"], pv[f"lp.{l}.rho_crit"], pv[f"lp.{l}.v_free"]
        for i in range(v["N"]):
            sv[f"rho.{l}.{i}"] = pick(1.0, rmax, [0.0, rmax, rc, 1e-3])
            sv[f"v.{l}.{i}"] = pick(1.0, 1.2 * vf, [0.0, vf, 1e-3, 0.04 * vf])
        if v["vsl"] is not None:
            for k in range(len(v["vsl"])):
                # (also: a sign showing exactly the free-flow speed, or slightly more - it still binds when the
                # non-compliance factor is negative)
                sv[f"vc.{l}.{k}"] = pick(20.0, 150.0, [1e6, math.inf, 20.0, vf, 1.03 * vf])
    for o, k in net.origins.items():
        sv[f"w.{o}"] = pick(0.0, 200.0, [0.0, 1000.0])
        sv[f"d.{o}"] = pick(0.0, 3000.0, [0.0, 6000.0])
        if k == "main":
            sv[f"u.{o}"] = pick(10.0, 150.0, [1e6, math.inf, 0.0, 3.0])
        elif k in ("ramp_in", "ramp_out"):
            sv[f"u.{o}"] = pick(0.0, 1.0, [0.0, 1.0, 1.5])      # (a rate above one is not refused by the library)
        else:
            sv[f"u.{o}"] = pick(0.0, 3000.0, [0.0, 1e6])
    for d in net.dests:
        sv[f"dd.{d}"] = pick(0.0, 120.0, [0.0, 200.0])
    return sv
