"""Regenerating the generated Coq files from /repo and (re)building the development.

One build directory (/verif/coq) is shared by all checks; a file lock serialises
regeneration + make.  Generated files are rewritten only when their content
changes, so an unchanged tree rebuilds nothing.
"""
import fcntl
import hashlib
import os
import re
import subprocess
import sys
import time

VERIF = os.path.dirname(os.path.dirname(os.path.abspath(__file__)))
COQ = os.path.join(VERIF, "coq")
TH = os.path.join(COQ, "theories")
GEN = os.path.join(TH, "gen")
REPO = os.environ.get("VERIF_REPO", "/repo")
LOCK = os.path.join(VERIF, ".build.lock")

AXIOM_WHITELIST = {
    "ClassicalDedekindReals.sig_forall_dec",
    "ClassicalDedekindReals.sig_not_dec",
    "FunctionalExtensionality.functional_extensionality_dep",
    "Classical_Prop.classic",
    "functional_extensionality_dep",
    "sig_forall_dec",
    "sig_not_dec",
    "classic",
}
FORBIDDEN = re.compile(r"\b(Admitted|admit|Axiom|Parameter|Conjecture|Unset Guard|bypass_check|"
                       r"type-in-type|impredicative-set|Admit Obligations)\b")


class Lock:
    def __enter__(self):
        self.f = open(LOCK, "w")
        fcntl.flock(self.f, fcntl.LOCK_EX)
        return self

    def __exit__(self, *a):
        fcntl.flock(self.f, fcntl.LOCK_UN)
        self.f.close()


def write_if_changed(path, text):
    try:
        if open(path).read() == text:
            return False
    except FileNotFoundError:
        pass
    os.makedirs(os.path.dirname(path), exist_ok=True)
    with open(path, "w") as f:
        f.write(text)
    return True


def regenerate():
    """run the translators; returns {generator: error text or None}"""
    sys.path.insert(0, VERIF)
    status = {}
    from translator import engines as T12
    for lib, fname, mod, outf in (("np", "numpy.py", "Np", "EnginesNp.v"),
                                  ("cs", "casadi.py", "Cs", "EnginesCs.v")):
        key = f"T-engines-{lib}"
        try:
            text, _ = T12.translate(f"{REPO}/src/sym_metanet/engines/{fname}", lib, mod)
            write_if_changed(os.path.join(GEN, outf), text)
            status[key] = None
        except Exception as e:  # fail closed: the model is not regenerable
            status[key] = f"{type(e).__name__}: {e}"
            # a stale generated file must not be mistaken for the current code
            write_if_changed(os.path.join(GEN, outf),
                             f"(* translator failed: {status[key]} *)\n"
                             "Definition translator_failed : False := I.\n")
    try:
        from translator import blocks as T6
        text, _ = T6.translate(REPO)
        write_if_changed(os.path.join(GEN, "BlocksGen.v"), text)
        status["T-blocks"] = None
    except Exception as e:
        status["T-blocks"] = f"{type(e).__name__}: {e}"
        write_if_changed(os.path.join(GEN, "BlocksGen.v"),
                         f"(* translator failed: {status['T-blocks']} *)\n"
                         "Definition translator_failed : False := I.\n")
    from translator import pins as T9
    for grp in T9.GROUPS:
        try:
            write_if_changed(os.path.join(GEN, f"Pin_{grp}.v"), T9.translate(REPO, grp))
            status[f"T-pin-{grp}"] = None
        except Exception as e:
            status[f"T-pin-{grp}"] = f"{type(e).__name__}: {e}"
            write_if_changed(os.path.join(GEN, f"Pin_{grp}.v"),
                             f"(* translator failed: {status['T-pin-' + grp]} *)\n"
                             "Definition translator_failed : False := I.\n")
    try:
        from translator import lookups as T8
        write_if_changed(os.path.join(GEN, "Lookups.v"), T8.translate(REPO))
        status["T-lookups"] = None
    except Exception as e:
        status["T-lookups"] = f"{type(e).__name__}: {e}"
        write_if_changed(os.path.join(GEN, "Lookups.v"),
                         f"(* translator failed: {status['T-lookups']} *)\n"
                         "Definition translator_failed : False := I.\n")
    try:
        from translator import initvars as T7
        write_if_changed(os.path.join(GEN, "InitVars.v"), T7.translate(REPO))
        status["T-initvars"] = None
    except Exception as e:
        status["T-initvars"] = f"{type(e).__name__}: {e}"
        write_if_changed(os.path.join(GEN, "InitVars.v"),
                         f"(* translator failed: {status['T-initvars']} *)\n"
                         "Definition translator_failed : False := I.\n")
    try:
        from translator import validity as T10
        write_if_changed(os.path.join(GEN, "ValidGen.v"), T10.translate(REPO))
        status["T-validity"] = None
    except Exception as e:
        status["T-validity"] = f"{type(e).__name__}: {e}"
        write_if_changed(os.path.join(GEN, "ValidGen.v"),
                         f"(* translator failed: {status['T-validity']} *)\n"
                         "Definition translator_failed : False := I.\n")
    try:
        from translator import construct as T11
        write_if_changed(os.path.join(GEN, "ConstructGen.v"), T11.translate(REPO))
        status["T-construct"] = None
    except Exception as e:
        status["T-construct"] = f"{type(e).__name__}: {e}"
        write_if_changed(os.path.join(GEN, "ConstructGen.v"),
                         f"(* translator failed: {status['T-construct']} *)\n"
                         "Definition translator_failed : False := I.\n")
    try:
        from translator import compilegen as T12c
        write_if_changed(os.path.join(GEN, "CompileGen.v"), T12c.translate(REPO))
        status["T-compile"] = None
    except Exception as e:
        status["T-compile"] = f"{type(e).__name__}: {e}"
        write_if_changed(os.path.join(GEN, "CompileGen.v"),
                         f"(* translator failed: {status['T-compile']} *)\n"
                         "Definition translator_failed : False := I.\n")
    try:
        from translator import cachegen as T13
        write_if_changed(os.path.join(GEN, "CacheGen.v"), T13.translate(REPO))
        status["T-cache"] = None
    except Exception as e:
        status["T-cache"] = f"{type(e).__name__}: {e}"
        write_if_changed(os.path.join(GEN, "CacheGen.v"),
                         f"(* translator failed: {status['T-cache']} *)\n"
                         "Definition translator_failed : False := I.\n")
    try:
        from translator import tables as T34
        text = T34.translate(REPO)
        write_if_changed(os.path.join(GEN, "Tables.v"), text)
        status["T-tables"] = None
    except ImportError:
        pass
    except Exception as e:
        status["T-tables"] = f"{type(e).__name__}: {e}"
        write_if_changed(os.path.join(GEN, "Tables.v"),
                         f"(* translator failed: {status['T-tables']} *)\n"
                         "Definition translator_failed : False := I.\n")
    return status


def coq_files():
    out = []
    for root, _, files in os.walk(TH):
        for f in files:
            if f.endswith(".v"):
                out.append(os.path.relpath(os.path.join(root, f), COQ))
    return sorted(out)


def write_coqproject():
    text = "-Q theories SM\n" + "\n".join(coq_files()) + "\n"
    if write_if_changed(os.path.join(COQ, "_CoqProject"), text) or \
            not os.path.exists(os.path.join(COQ, "Makefile")):
        subprocess.run(["coq_makefile", "-f", "_CoqProject", "-o", "Makefile"], cwd=COQ,
                       check=True, capture_output=True)


def make(jobs=16, timeout=3000):
    """full .vo build (no -vos); -k so one broken file does not hide the others"""
    p = subprocess.run(["timeout", str(timeout), "make", "-k", f"-j{jobs}"], cwd=COQ,
                       capture_output=True, text=True)
    return p.returncode, p.stdout[-20000:] + p.stderr[-20000:]


def direct_deps(rel_v):
    try:
        src = open(os.path.join(TH, rel_v)).read()
    except FileNotFoundError:
        return []
    src = re.sub(r"\(\*.*?\*\)", "", src, flags=re.S)
    out = []
    for m in re.finditer(r"From\s+(SM[\w.]*)\s+Require\s+(?:Import|Export)?\s*([^.]*?)\.(?=\s)", src, re.S):
        pre = m.group(1).split(".")[1:]
        for name in m.group(2).split():
            cand = os.path.join(*(pre + name.split("."))) + ".v"
            if os.path.exists(os.path.join(TH, cand)):
                out.append(cand)
    return out


def vo_ok(rel_v, _memo=None):
    """is the .vo of theories-relative file rel_v present, newer than its source, and not older
    than the (recursively up-to-date) .vo of everything it requires?  (make -k leaves a stale
    .vo in place when a rebuild fails, so existence alone proves nothing.)"""
    memo = {} if _memo is None else _memo
    if rel_v in memo:
        return memo[rel_v]
    memo[rel_v] = False
    v = os.path.join(TH, rel_v)
    vo = v + "o"
    if not (os.path.exists(vo) and os.path.exists(v) and os.path.getmtime(vo) >= os.path.getmtime(v)):
        return False
    t = os.path.getmtime(vo)
    for d in direct_deps(rel_v):
        if not vo_ok(d, memo) or os.path.getmtime(os.path.join(TH, d) + "o") > t:
            return False
    memo[rel_v] = True
    return True


def deps_of(rel_v, seen=None):
    """transitive SM dependencies (theories-relative .v paths) of a file, from its Require lines"""
    if seen is None:
        seen = set()
    if rel_v in seen:
        return seen
    seen.add(rel_v)
    try:
        src = open(os.path.join(TH, rel_v)).read()
    except FileNotFoundError:
        return seen
    src = re.sub(r"\(\*.*?\*\)", "", src, flags=re.S)
    for m in re.finditer(r"From\s+(SM[\w.]*)\s+Require\s+(?:Import|Export)?\s*([^.]*?)\.(?=\s)", src, re.S):
        pre = m.group(1).split(".")[1:]
        for name in m.group(2).split():
            parts = pre + name.split(".")
            cand = os.path.join(*parts) + ".v"
            if os.path.exists(os.path.join(TH, cand)):
                deps_of(cand, seen)
    return seen


def theory_hash():
    h = hashlib.sha256()
    for f in coq_files():
        h.update(f.encode())
        h.update(open(os.path.join(COQ, f), "rb").read())
    return h.hexdigest()[:20]


def grep_forbidden(files):
    hits = []
    for rel in files:
        try:
            src = open(os.path.join(TH, rel)).read()
        except FileNotFoundError:
            continue
        nocom = re.sub(r"\(\*.*?\*\)", "", src, flags=re.S)
        for m in FORBIDDEN.finditer(nocom):
            hits.append(f"{rel}: {m.group(0)}")
    return hits


def theorems_in(rel_v):
    try:
        src = open(os.path.join(TH, rel_v)).read()
    except FileNotFoundError:
        return []
    src = re.sub(r"\(\*.*?\*\)", "", src, flags=re.S)
    return re.findall(r"^\s*(?:Theorem|Lemma|Corollary|Example)\s+([\w']+)", src, re.M)


def print_assumptions(rel_v, timeout=600):
    """re-run coqc on a property file and parse its Print Assumptions output.
    returns (ok, {theorem: [axioms]}, raw)"""
    path = os.path.join(TH, rel_v)
    p = subprocess.run(["timeout", str(timeout), "coqc", "-Q", TH, "SM", path],
                       capture_output=True, text=True, cwd=COQ)
    if p.returncode != 0:
        return False, {}, (p.stderr + p.stdout)[-4000:]
    thms = re.findall(r"Print Assumptions\s+([\w'.]+)\s*\.", re.sub(r"\(\*.*?\*\)", "", open(path).read(), flags=re.S))
    # coqc prints, per Print Assumptions: "Closed under the global context" or "Axioms:\n name : type ..."
    blocks = re.split(r"(?=^Closed under the global context|^Axioms:)", p.stdout, flags=re.M)
    blocks = [b for b in blocks if b.startswith("Closed under") or b.startswith("Axioms:")]
    res = {}
    for name, b in zip(thms, blocks):
        if b.startswith("Closed"):
            res[name] = []
        else:
            res[name] = re.findall(r"^([\w.']+)\s*:", b[len("Axioms:"):], re.M)
    if len(blocks) != len(thms):
        return False, res, f"expected {len(thms)} assumption blocks, got {len(blocks)}"
    return True, res, p.stdout[-2000:]


def purge_stale():
    """make -k leaves the previous .vo of a file that no longer compiles (or whose dependencies do not):
    remove them, so that nothing evaluated afterwards runs a compiled model of some earlier source"""
    memo = {}
    for f in coq_files():
        rel = os.path.relpath(os.path.join(COQ, f), TH)
        if not vo_ok(rel, memo):
            base = os.path.join(TH, rel)[:-2]
            for ext in (".vo", ".vos", ".vok", ".glob"):
                try:
                    os.remove(base + ext)
                except FileNotFoundError:
                    pass


def build(verbose=False):
    """regenerate + make under the lock. returns dict(gen=..., rc=..., log=..., wall=...)"""
    t0 = time.time()
    with Lock():
        gen = regenerate()
        write_coqproject()
        rc, log = make()
        if rc != 0:
            purge_stale()
    if verbose:
        print(log[-3000:])
    return dict(gen=gen, rc=rc, log=log, wall=time.time() - t0)


if __name__ == "__main__":
    r = build(verbose=True)
    print({k: v for k, v in r.items() if k != "log"})
    bad = [f for f in coq_files() if not vo_ok(os.path.relpath(os.path.join(COQ, f), TH))]
    print("not built:", bad)
    sys.exit(1 if (r["rc"] != 0 or bad or any(r["gen"].values())) else 0)
