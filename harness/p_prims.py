"""Primitive-level slice: the generated Coq definitions of every engine primitive
(at the expression-tree instance) against direct calls of the NumPy and CasADi
primitive implementations.  Serves C15 (engine vs engine), C17 (origin flow
bounds) and C18 (neutral controls) at the primitive level.
"""
import itertools
import math

import numpy as np

from harness import dyn, tree
from translator.engines import SIG, PREFIX

HEADER = ("From Coq Require Import QArith List String.\n"
          "From SM Require Import Num Expr.\nFrom SM.gen Require Import EnginesNp EnginesCs.\n"
          "Import ListNotations.\nSet Printing Width 1000000.\nSet Printing Depth 1000000.\n"
          "Definition vvar (k n : nat) : list expr := map (fun i => Var (Rho k i)) (seq 0 n).\n"
          "Definition svar (k : nat) : expr := Var (Que k).\n")

STR_VARIANTS = {"get_ramp_flow": ["in", "out"], "get_simplifiedramp_flow": ["limited", "unlimited"]}
RET_VECTOR = {"get_flow", "step_density", "step_speed", "Veq", "controlled_Veq"}


def variants():
    """every (class, method, suffix, sig, choice) with choice fixing N, optional presence, strings,
    vsl index lists"""
    out = []
    for cls, methods in SIG.items():
        for name, vs in methods.items():
            for suffix, sig in vs:
                opt = [p for p, t in sig.items() if t == "OS"]
                has_v = any(t == "V" for t in sig.values())
                Ns = [1, 2, 4] if has_v else [0]
                strs = STR_VARIANTS.get(name, [None])
                for N in Ns:
                    if name == "step_speed":
                        optsets = [(), ("q_ramp", "delta"), ("lanes_drop", "phi", "rho_crit"),
                                   ("q_ramp", "delta", "lanes_drop", "phi", "rho_crit"),
                                   ("q_ramp",), ("delta", "phi", "rho_crit")]
                    else:
                        optsets = [tuple(c) for r in range(len(opt) + 1)
                                   for c in itertools.combinations(opt, r)]
                    for present in optsets:
                        for s in strs:
                            if name == "controlled_Veq":
                                vsls = [[], [0], list(range(N)), [N - 1]] if N > 1 else [[], [0]]
                                if N >= 4:
                                    # signs with a gap, and a sign list that is not in increasing order (entry k of
                                    # the limits belongs to segment vsl[k] whatever the order)
                                    vsls += [[0, 2], [2, 0], [N - 1, 1]]
                                vsls = [list(x) for x in {tuple(v) for v in vsls}]
                            else:
                                vsls = [None]
                            for vsl in sorted(vsls, key=lambda x: (x is None, x)):
                                out.append(dict(cls=cls, name=name, suffix=suffix, sig=sig, N=N,
                                                present=present, s=s, vsl=vsl))
                                if name == "get_ramp_flow" and s == "out":
                                    # the documented default of the flow-equation type is "out": the same call with
                                    # the argument left out
                                    out.append(dict(cls=cls, name=name, suffix=suffix, sig=sig, N=N,
                                                    present=present, s=s, vsl=vsl, omit_str=True))
    return out


def veclen(var, pname):
    if var["name"] == "controlled_Veq" and pname == "v_ctrl":
        return len(var["vsl"])
    return var["N"]


def coq_term(var, mod):
    args = []
    for k, (p, t) in enumerate(var["sig"].items()):
        if t == "V":
            args.append(f"(vvar {k} {veclen(var, p)})")
        elif t == "S":
            args.append(f"(svar {k})")
        elif t == "OS":
            args.append(f"(Some (svar {k}))" if p in var["present"] else "None")
        elif t == "I":
            args.append("[" + "; ".join(f"{i}%nat" for i in var["vsl"]) + "]")
        elif t == "STR":
            args.append(f'"{var["s"]}"%string')
    call = f"{mod}.{PREFIX[var['cls']]}{var['name']}{var['suffix']} (A:=expr) " + " ".join(args)
    if var["name"] in RET_VECTOR and var["suffix"] == "":
        return f"map show ({call})"
    return f"[show ({call})]"


def tokens(var):
    """{param: list of tokens or token}"""
    tk = {}
    for k, (p, t) in enumerate(var["sig"].items()):
        if t == "V":
            tk[p] = [f"rho.{k}.{i}" for i in range(veclen(var, p))]
        elif t == "S" or (t == "OS" and p in var["present"]):
            tk[p] = f"w.{k}"
    return tk


# scalars that come from element variables (engine.var / user arrays: shape (1,), 0-d or float)
STATE_SCALARS = {"q_orig", "q_ramp", "d", "w", "r", "v_ctrl", "qdes", "rho_destination", "q",
                 "v_first", "rho_first", "rho_last"}
# ... of which these are obtained by indexing a state vector
INDEXED_SCALARS = {"v_first", "rho_first", "rho_last"}
POS = {"lanes", "L", "T", "tau", "eta", "kappa", "a", "v_free", "rho_crit", "C", "beta", "betas",
       "delta", "phi"}


def sample_value(p, rng, mode, ctx):
    """admissible value for parameter named p"""
    def nonneg(hi, specials):
        if mode == "boundary" and rng.random() < 0.4:
            return rng.choice(specials)
        return rng.uniform(0.0, hi)
    if p in ("rho", "rho_down", "rho_first", "rho_last", "rho_firsts", "rho_destination"):
        return nonneg(ctx["rho_max"], [0.0, ctx["rho_max"], ctx["rho_crit"], 1e-3])
    if p in ("v", "v_up", "v_first", "v_lasts", "Veq"):
        return nonneg(130.0, [0.0, 1e-3, ctx["v_free"], 0.04 * ctx["v_free"], 0.05 * ctx["v_free"]])
    if p == "v_ctrl":
        return nonneg(150.0, [0.0, 1e6, 20.0, 0.03 * ctx["v_free"]])
    if p in ("q", "q_up", "q_lasts", "q_orig", "q_ramp", "qdes"):
        return nonneg(4000.0, [0.0, 1e6])
    if p in ("w",):
        return nonneg(300.0, [0.0])
    if p in ("d",):
        return nonneg(4000.0, [0.0, 1e4])
    if p == "r":
        return nonneg(1.0, [0.0, 1.0, 1.5])
    if p == "rho_max":
        return ctx["rho_max"]
    if p == "rho_crit":
        return ctx["rho_crit"]
    if p == "v_free":
        return ctx["v_free"]
    if p == "lanes":
        return float(rng.choice([1, 2, 3, 4]))
    if p == "lanes_drop":
        return float(rng.choice([-2, -1, 1, 2]))
    if p == "L":
        return rng.uniform(0.4, 2.0)
    if p == "T":
        return 10 / 3600
    if p == "tau":
        return rng.uniform(15, 25) / 3600
    if p == "eta":
        return rng.uniform(30, 70)
    if p == "kappa":
        return rng.uniform(20, 50)
    if p == "a":
        r_ = rng.random()
        if r_ < 0.2:
            return rng.choice([2.0, 3.0, 1.0])        # whole-number exponents (written a=2 by a user: see call_impl)
        if r_ < 0.32:
            return rng.uniform(0.5, 1.0)              # any positive exponent is a fundamental diagram
        return rng.uniform(1.2, 2.6)
    if p == "C":
        return rng.uniform(1500, 2500)
    if p in ("beta", "betas"):
        return rng.uniform(0.1, 3.0)
    if p == "delta":
        return rng.uniform(0.005, 0.02)
    if p == "phi":
        return rng.uniform(0.5, 3.0)
    if p == "alpha":
        return rng.uniform(0.0, 0.2) if rng.random() < 0.8 else rng.uniform(-0.2, -0.02)
    raise KeyError(p)


def sample_point(var, rng, mode):
    ctx = {"rho_crit": rng.uniform(25, 40), "rho_max": rng.uniform(150, 200),
           "v_free": rng.uniform(90, 130)}
    vals = {}
    for p, t in var["sig"].items():
        if t == "V":
            vals[p] = [sample_value(p, rng, mode, ctx) for _ in range(veclen(var, p))]
        elif t == "S" or (t == "OS" and p in var["present"]):
            vals[p] = sample_value(p, rng, mode, ctx)
    if var["name"] == "get_mainstream_flow" and rng.random() < 0.25:
        # an exponent below one, the limited speed at and just below the critical speed e^(-1/a) v_free - where the
        # speed-limited flow x (-a ln x)^(1/a) is largest and meets the capacity flow -, demand to spare
        vals["a"] = rng.uniform(0.5, 0.95)
        vals["v_ctrl"] = vals["v_free"] * math.exp(-1.0 / vals["a"]) * rng.choice([1.0, 0.97, 0.9, 0.8, 0.6])
        vals["v_first"] = vals["v_free"]
        vals["d"] = 1e4
    return vals


def excluded(var, vals):
    if var["name"] == "get_upstream_speed":
        return abs(sum(vals["q_lasts"])) <= 1e-6
    if var["name"] == "get_downstream_density":
        return abs(sum(vals["rho_firsts"])) <= 1e-6
    return False


def call_impl(var, vals, lib, scalar_shape="float"):
    """call the real primitive.  lib = 'np' | 'cs'. Returns flat list of floats."""
    import casadi as cs
    from sym_metanet.engines import casadi as E_cs, numpy as E_np
    mod = E_np if lib == "np" else E_cs
    fn = getattr(getattr(mod, var["cls"]), var["name"])
    args = []
    for p, t in var["sig"].items():
        if t == "V":
            if var["suffix"] == "_s":
                raise RuntimeError
            x = np.array(vals[p], dtype=float)
            args.append(x.copy() if lib == "np" else cs.DM(x))
        elif t == "S" or t == "OS":
            if p not in vals:
                args.append(None)
                continue
            x = vals[p]
            if lib == "np" and p not in STATE_SCALARS:
                # model / link parameters reach the engines as Python numbers; whole numbers as Python ints
                # (lanes=2, a=2 is how a user writes them)
                if isinstance(x, float) and x.is_integer() and abs(x) < 1e6:
                    x = int(x)
            elif lib == "np":
                if scalar_shape == "vec1" and p in INDEXED_SCALARS:
                    x = np.float64(x)     # state[0] / state[-1]: a NumPy scalar
                elif scalar_shape == "vec1":
                    x = np.array([x], dtype=float)
                elif scalar_shape == "zerod":
                    x = np.array(x, dtype=float)
            else:
                x = cs.DM(x) if scalar_shape != "float" else x
            args.append(x)
        elif t == "I":
            args.append(list(var["vsl"]))
        elif t == "STR":
            if var.get("omit_str"):
                continue
            args.append(bytes(var["s"], "ascii").decode("ascii"))     # equal to, but not the same object as, the literal
    if var["suffix"] == "_s":
        # scalar variant of Veq: call with python/0-d scalars
        args = [vals[p] if lib == "np" else cs.DM(vals[p]) for p in var["sig"]]
    before = [a.copy() if isinstance(a, np.ndarray) else None for a in args]
    with np.errstate(all="ignore"):
        res = fn(*args)
    for (p, _t), a, b in zip(var["sig"].items(), args, before):
        if b is not None and not (a.shape == b.shape and np.array_equal(a, b, equal_nan=True)):
            raise ArgumentModified(f"the {'NumPy' if lib == 'np' else 'CasADi'} primitive modified its argument {p} in place: "
                                   f"{b.tolist()} -> {a.tolist()}")
    return [float(x) for x in np.array(res, dtype=float).reshape(-1)]


class ArgumentModified(Exception):
    pass


def call_stacked(var, stacked, lib):
    """a scalar-signature primitive called with VECTORS (length > 1) for the quantities that come from element
    variables (several ramps / operating points at once), numbers for the model parameters"""
    import casadi as cs
    from sym_metanet.engines import casadi as E_cs, numpy as E_np
    mod = E_np if lib == "np" else E_cs
    fn = getattr(getattr(mod, var["cls"]), var["name"])
    args = []
    for p, t in var["sig"].items():
        if t in ("S", "OS"):
            if p not in stacked:
                args.append(None)
            elif isinstance(stacked[p], list):
                x = np.array(stacked[p], dtype=float)
                args.append(x.copy() if lib == "np" else cs.DM(x))
            else:
                args.append(stacked[p])
        elif t == "STR":
            args.append(var["s"])
        else:
            raise RuntimeError("not a scalar-signature primitive")
    with np.errstate(all="ignore"):
        res = fn(*args)
    return [float(x) for x in np.array(res, dtype=float).reshape(-1)]


def run_primitives(ctx, points_per_variant, judge):
    """returns outcome dict.  judge(var, vals, np_vals, cs_vals, model_vals) -> list of failure strings
    (property-specific oracle on the implementation values)."""
    rng = ctx["rng"]
    vs = variants()
    failures, disagreements, info = [], [], []
    trees = {}
    if ctx["model_ok"]:
        try:
            res_np, _ = dyn.cached_eval([coq_term(v, "Np") for v in vs], HEADER)
            res_cs, _ = dyn.cached_eval([coq_term(v, "Cs") for v in vs], HEADER)
            trees = {"np": [[tree.parse(s) for s in r] for r in res_np],
                     "cs": [[tree.parse(s) for s in r] for r in res_cs]}
        except Exception as e:  # the model cannot be run: broken correspondence
            disagreements.append({"what": "model could not be evaluated", "error": str(e)[-400:]})
    evals = 0
    distinct = set()
    samples = []
    skipped = 0
    for vi, var in enumerate(vs):
        tk = tokens(var)
        for k in range(points_per_variant):
            mode = "boundary" if k % 2 else "interior"
            vals = sample_point(var, rng, mode)
            if excluded(var, vals):
                skipped += 1
                continue
            env = {}
            for p, t in tk.items():
                if isinstance(t, list):
                    env.update(dict(zip(t, vals[p])))
                else:
                    env[t] = vals[p]
            shape = ["float", "vec1", "zerod"][k % 3] if var["suffix"] == "" else "float"
            got = {}
            for lib in ("np", "cs"):
                try:
                    got[lib] = call_impl(var, vals, lib, shape)
                except Exception as e:
                    got[lib] = e
            evals += 1
            label = f"{var['cls']}.{var['name']}{var['suffix']} N={var['N']} present={list(var['present'])} type={var['s']} vsl={var['vsl']}"
            mvals = {}
            for lib in ("np", "cs"):
                if lib in trees:
                    out = []
                    brs = set()
                    for t_ in trees[lib][vi]:
                        v, mag, br, _ = tree.eval_tree(t_, env)
                        out.append((v, mag))
                        brs |= br
                    mvals[lib] = out
                    distinct.add((vi, frozenset(brs), shape))
            rec = {"primitive": label, "args": vals, "scalar_shape": shape}
            # correspondence: model (generated from each engine file) vs that engine's implementation
            for lib in ("np", "cs"):
                if isinstance(got[lib], Exception):
                    continue
                if lib in mvals:
                    if len(mvals[lib]) != len(got[lib]):
                        disagreements.append(dict(rec, what=f"{lib}: length {len(got[lib])} vs model {len(mvals[lib])}"))
                        continue
                    for i, ((mv, mag), iv) in enumerate(zip(mvals[lib], got[lib])):
                        if not tree.close(mv, iv, mag):
                            disagreements.append(dict(rec, what=f"{lib} entry {i}: impl {iv!r} vs model {mv!r}"))
                            break
            for msg in judge(var, vals, got["np"], got["cs"], mvals):
                failures.append(dict(rec, what=msg, key=f"prim:{label}", np=repr(got["np"]), cs=repr(got["cs"])))
            # "scalar or vector": the laws written for one origin / destination / node entry, evaluated for three
            # operating points at once, give element by element what three separate calls give (both engines)
            if ctx.get("stacked") and k < 2 and var["suffix"] == "" and not any(t in ("V", "I") for t in var["sig"].values()) \
                    and any(p in STATE_SCALARS for p in tokens(var)):
                pts3 = [vals] + [sample_point(var, rng, mode) for _ in range(2)]
                stacked = {p: ([q[p] for q in pts3] if p in STATE_SCALARS else vals[p]) for p in vals}
                try:
                    singles = []
                    for j in range(3):
                        one = {p: (stacked[p][j] if isinstance(stacked[p], list) else stacked[p]) for p in stacked}
                        singles.append(call_impl(var, one, "np", "float")[0])
                    for lib in ("np", "cs"):
                        vec = call_stacked(var, stacked, lib)
                        evals += 1
                        scale = max([abs(x) for x in singles if math.isfinite(x)] + [1.0])
                        if len(vec) != 3 or any(not tree.close(a, b, scale) for a, b in zip(vec, singles)):
                            failures.append(dict(rec, what=f"{'numpy' if lib == 'np' else 'casadi'} with vector arguments returns {vec}, "
                                                           f"three separate scalar calls give {singles}", key=f"prim-vector:{label}",
                                                 stacked=stacked))
                            break
                except Exception as e:
                    failures.append(dict(rec, what=f"vector arguments raised {e!r:.200}", key=f"prim-vector:{label}", stacked=stacked))
            if len(samples) < 4 and k == 1:
                samples.append(dict(rec, np=repr(got["np"])[:200], cs=repr(got["cs"])[:200]))
    cov = {"evaluations": evals, "distinct_nontrivial": len(distinct),
           "rule": "every primitive x variant (vector length 1/2/4, optional arguments present/absent, "
                   "string type, VSL index set) x points (interior / boundary incl. zero speed, zero "
                   "density, rho_max) x scalar argument shape (float, (1,), 0-d); distinct = "
                   "(variant, set of min/max/if sides taken in the model tree, scalar shape)",
           "samples": samples, "variants": len(vs), "skipped_excluded_0_over_0": skipped,
           "traces_validated_against_impl": evals if trees else 0}
    return {"failures": failures, "disagreements": disagreements, "coverage": cov, "info": info}


# ---------------------------------------------------------------------------
def judge_C15(var, vals, npv, csv, mvals):
    out = []
    if isinstance(npv, Exception) or isinstance(csv, Exception):
        if isinstance(npv, Exception) != isinstance(csv, Exception) or True:
            out.append(f"exception: numpy={npv!r:.200} casadi={csv!r:.200}")
        return out
    if len(npv) != len(csv):
        return [f"result lengths differ: numpy {len(npv)} casadi {len(csv)}"]
    scale = max([abs(x) for x in npv + csv if math.isfinite(x)] + [0.0])
    for i, (a, c) in enumerate(zip(npv, csv)):
        if not (math.isfinite(a) and math.isfinite(c)):
            out.append(f"entry {i} not finite: numpy={a} casadi={c}")
        elif not tree.close(a, c, scale):
            out.append(f"entry {i}: numpy={a!r} casadi={c!r}")
    return out[:1]


def run_C15(ctx):
    n = 6 if ctx["tier"] == "quick" else 60
    return run_primitives(dict(ctx, stacked=True), n, judge_C15)


def replay(failure):
    import json
    print(json.dumps(failure, indent=1, default=str))
    vs = [v for v in variants() if f"prim:{v['cls']}.{v['name']}{v['suffix']} N={v['N']} present={list(v['present'])} type={v['s']} vsl={v['vsl']}" == failure["key"]]
    if not vs:
        print("variant not found")
        return 1
    var = vs[0]
    vals = failure["args"]
    for lib in ("np", "cs"):
        try:
            print(lib, call_impl(var, vals, lib, failure.get("scalar_shape", "float")))
        except Exception as e:
            print(lib, "raised", repr(e))
    return 0
