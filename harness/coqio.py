"""Running the Coq model on generated cases (vm_compute inside coqc)."""
import os
import re
import subprocess
import tempfile
import shutil
from concurrent.futures import ThreadPoolExecutor

COQ_DIR = os.path.join(os.path.dirname(os.path.dirname(os.path.abspath(__file__))), "coq")
_TAIL = """Import ListNotations.
Set Printing Width 1000000.
Set Printing Depth 1000000.
"""
HEADER = ("From Coq Require Import QArith List String.\n"
          "From SM Require Import Num Graph Engine Expr Types Blocks Sym.\n" + _TAIL)
HEADER_SPEC = ("From Coq Require Import QArith List String.\n"
               "From SM Require Import Num Graph Expr Types Spec SpecSym.\n" + _TAIL)

STR_RE = re.compile(r'"([^"]*)"')


class CoqError(Exception):
    pass


def _big_stack():
    """vm_compute / printing of the trees of a large network (25+ links) overflows coqc's default 8 MB stack:
    raise the soft limit of the child to the hard limit (usually unlimited)"""
    import resource
    try:
        soft, hard = resource.getrlimit(resource.RLIMIT_STACK)
        resource.setrlimit(resource.RLIMIT_STACK, (hard, hard))
    except (ValueError, OSError):
        pass


def run_coq_file(text, workdir, name, timeout=600):
    path = os.path.join(workdir, name + ".v")
    with open(path, "w") as f:
        f.write(text)
    p = subprocess.run(["coqc", "-Q", os.path.join(COQ_DIR, "theories"), "SM", path],
                       capture_output=True, text=True, timeout=timeout, cwd=workdir, preexec_fn=_big_stack)
    if p.returncode != 0:
        raise CoqError(p.stderr[-3000:] + p.stdout[-500:])
    return p.stdout


def parse_evals(stdout):
    """split coqc output into the results of successive Eval commands:
    each starts with '     = ' and ends with '     : <type>'."""
    results = []
    cur = None
    for line in stdout.splitlines():
        if line.startswith("     = "):
            cur = [line[7:]]
        elif line.startswith("     : ") and cur is not None:
            results.append("\n".join(cur))
            cur = None
        elif cur is not None:
            cur.append(line)
    return results


def eval_cases(case_terms, header=HEADER, shard=None, jobs=14, timeout=900):
    """case_terms: list of Coq terms of type list string. Returns list of list[str]."""
    if not case_terms:
        return []
    if shard is None:
        shard = max(3, -(-len(case_terms) // jobs))
    workdir = tempfile.mkdtemp(prefix="smcases_", dir=os.environ.get("VERIF_TMP", "/tmp"))
    try:
        shards = [case_terms[i:i + shard] for i in range(0, len(case_terms), shard)]

        def run(k):
            text = header + "\n".join(f"Eval vm_compute in ({t})." for t in shards[k])
            out = run_coq_file(text, workdir, f"cases_{k}", timeout)
            res = parse_evals(out)
            if len(res) != len(shards[k]):
                raise CoqError(f"expected {len(shards[k])} results, got {len(res)}")
            return [STR_RE.findall(r) for r in res]

        with ThreadPoolExecutor(max_workers=jobs) as ex:
            parts = list(ex.map(run, range(len(shards))))
        return [r for part in parts for r in part]
    finally:
        shutil.rmtree(workdir, ignore_errors=True)


def parse_lines(lines):
    """'tag l i | tree' -> {'tag l i': tree string}; errors -> {'ERR': name} / {'tag l i': ('!', err)}"""
    out = {}
    for ln in lines:
        if ln.startswith("ERR "):
            out["ERR"] = ln[4:]
        elif " | " in ln:
            k, t = ln.split(" | ", 1)
            out[k] = t
        elif " ! " in ln:
            k, t = ln.split(" ! ", 1)
            out[k] = ("!", t)
    return out
