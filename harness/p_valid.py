"""Validity slice (C06): Network.is_valid against the Coq model Validity.v, whose verdict is
proved equivalent to the nine declarative conditions (props/C06.v)."""
import itertools
import random
import re

from harness import dyn, impl, nets

HEADER = ("From Coq Require Import QArith List String.\n"
          "From SM Require Import Num Graph Expr Types Validity.\n"
          "Import ListNotations.\nLocal Open Scope string_scope.\n"
          "Set Printing Width 1000000.\nSet Printing Depth 1000000.\n"
          "Definition show_elem (x : elem) : string := match x with EL l => \"L\" ++ snat l | EO o => \"O\" ++ snat o "
          "| ED d => \"D\" ++ snat d end.\n"
          "Definition show_msg (m : msg) : string := match m with\n"
          " | MDup x => \"dup \" ++ show_elem x | MBoth n => \"both \" ++ snat n | MIsolated n => \"isolated \" ++ snat n\n"
          " | MNoOrigin n => \"noorigin \" ++ snat n | MNoDest n => \"nodest \" ++ snat n\n"
          " | MOrigIn n o => \"origin_in \" ++ snat n | MOrigOut n o => \"origin_out \" ++ snat n\n"
          " | MDestIn n d => \"dest_in \" ++ snat n | MDestOut n d => \"dest_out \" ++ snat n end.\n"
          "Definition run_valid (U : universe) (g : graph) : list string :=\n"
          "  (if validb U g then \"valid\" else \"invalid\") :: map show_msg (is_valid_msgs U g).\n")

PATTERNS = [
    (r"Element (\S+) is duplicated", "dup"),
    (r"Node (\S+) must either have an origin or a destination", "both"),
    (r"Node (\S+) is connected to no link", "isolated"),
    (r"Node (\S+) has neither any entering links nor an origin", "noorigin"),
    (r"Node (\S+) has neither any exiting links nor a destination", "nodest"),
    (r"Expected node (\S+) to have no entering links", "origin_in"),
    (r"Expected node (\S+) to have at most one exiting link", "origin_out"),
    (r"Expected node (\S+) to have at most one entering link", "dest_in"),
    (r"Expected node (\S+) to have no exiting links", "dest_out"),
]


def kind_of(msg):
    for pat, k in PATTERNS:
        m = re.search(pat, msg)
        if m:
            name = m.group(1).rstrip(",.")
            return f"{k} {name}"
    return "unknown " + msg[:40]


def arbitrary(rng, nmax=3, share_p=0.15):
    """an arbitrary small graph description, possibly with shared link / origin / destination objects"""
    n = rng.randint(1, nmax)
    p = rng.choice([0.2, 0.4, 0.6])
    pairs = [(u, d) for u in range(n) for d in range(n) if rng.random() < (p if u != d else 0.1)]
    net = nets.Net()
    net.family = "arbitrary"
    ops = []
    nl = 0
    for (u, d) in pairs:
        if nl > 0 and rng.random() < share_p:
            l = rng.randrange(nl)
        else:
            l = nl
            nl += 1
            net.links[l] = dict(N=1, lanes=1, vsl=None)
        ops.append(("link", u, l, d))
    no = nd = 0
    for x in range(n):
        if rng.random() < 0.45:
            if no > 0 and rng.random() < share_p:
                o = rng.randrange(no)
            else:
                o = no
                no += 1
                net.origins[o] = rng.choice(nets.OKINDS)
            ops.append(("origin", o, x))
        if rng.random() < 0.35:
            if nd > 0 and rng.random() < share_p:
                d_ = rng.randrange(nd)
            else:
                d_ = nd
                nd += 1
                net.dests[d_] = rng.choice(nets.DKINDS)
            ops.append(("dest", d_, x))
        if rng.random() < 0.3:
            ops.append(("node", x))
    rng.shuffle(ops)
    net.ops = ops
    return net


def exhaustive(nn):
    """all graphs on exactly nn nodes over: any edge set (self-loops included), per node origin in
    {none, ideal, ramp}, destination in {none, free}; distinct objects"""
    nodes = list(range(nn))
    pairs = [(u, d) for u in nodes for d in nodes]
    out = []
    for mask in range(1 << len(pairs)):
        es = [pairs[i] for i in range(len(pairs)) if mask >> i & 1]
        for att in itertools.product(range(6), repeat=nn):
            net = nets.Net()
            net.family = f"exhaustive{nn}"
            ops = [("node", x) for x in nodes]
            for l, (u, d) in enumerate(es):
                net.links[l] = dict(N=1, lanes=1, vsl=None)
                ops.append(("link", u, l, d))
            no = nd = 0
            for x, a in zip(nodes, att):
                ok, dk = a % 3, a // 3
                if ok:
                    net.origins[no] = "ideal" if ok == 1 else "ramp_out"
                    ops.append(("origin", no, x))
                    no += 1
                if dk:
                    net.dests[nd] = "free"
                    ops.append(("dest", nd, x))
                    nd += 1
            net.ops = ops
            out.append(net)
    return out


def single_violations(net, rng):
    """from a VALID description: variants that violate (mostly) exactly one of the nine conditions each - so that
    every condition is the only and hence the first one met, also with raises=True - and, for validity that must
    not depend on insertion order, valid re-orderings in which a merge node is the node inserted last"""
    import copy
    nodes, edges = net.graph()
    ids = [n for (n, _, _) in nodes]
    new_n = max(ids) + 1
    new_l = max(list(net.links) + list(net.x_links) + [-1]) + 1
    new_o = max(list(net.origins) + list(net.x_origins) + [-1]) + 1
    new_d = max(list(net.dests) + list(net.x_dests) + [-1]) + 1
    indeg = {n: len([e for e in edges if e[1] == n]) for n in ids}
    outdeg = {n: len([e for e in edges if e[0] == n]) for n in ids}
    out = []

    def variant(tag, extra_ops=(), front_ops=(), drop=None, links=(), origins=(), dests=()):
        n2 = copy.deepcopy(net)
        n2.family = f"{tag}-{net.family}"
        for l in links:
            n2.links[l] = dict(N=1, lanes=1, vsl=None)
        for o, k in origins:
            n2.origins[o] = k
        for d, k in dests:
            n2.dests[d] = k
        ops = [op for op in n2.ops if op != drop]
        n2.ops = list(front_ops) + ops + list(extra_ops)
        if drop is not None and drop[0] == "origin":
            n2.x_origins[drop[1]] = n2.origins.pop(drop[1])
        if drop is not None and drop[0] == "dest":
            n2.x_dests[drop[1]] = n2.dests.pop(drop[1])
        out.append(n2)
    dnodes = [n for (n, _, d) in nodes if d is not None]
    onodes = [n for (n, o, _) in nodes if o is not None]
    for dn in dnodes[:2]:
        # (8) a second link merging directly into a destination node; the new source node is inserted after it
        variant("only8", extra_ops=[("link", new_n, new_l, dn), ("origin", new_o, new_n)], links=[new_l], origins=[(new_o, "ideal")])
        variant("only8-front", front_ops=[("origin", new_o, new_n), ("link", new_n, new_l, dn)], links=[new_l], origins=[(new_o, "ideal")])
        # (9) a destination node with an exit
        variant("only9", extra_ops=[("link", dn, new_l, new_n), ("dest", new_d, new_n)], links=[new_l], dests=[(new_d, "free")])
    interior = [n for n in ids if indeg[n] >= 1 and outdeg[n] == 1 and n not in onodes and n not in dnodes]
    for n in interior[:1]:
        variant("only6", extra_ops=[("origin", new_o, n)], origins=[(new_o, rng.choice(["ideal", "main"]))])     # (6)
    for n in [x for x in onodes if outdeg[x] == 1][:1]:
        variant("only7", extra_ops=[("link", n, new_l, new_n), ("dest", new_d, new_n)], links=[new_l], dests=[(new_d, "free")])  # (7)
    variant("only3", extra_ops=[("node", new_n)])                                                                  # (3)
    for op in [op for op in net.ops if op[0] == "origin" and indeg.get(op[2], 0) == 0][:1]:
        variant("only4", drop=op)                                                                                  # (4)
    for op in [op for op in net.ops if op[0] == "dest"][:1]:
        variant("only5", drop=op)                                                                                  # (5)
    for op in [op for op in net.ops if op[0] == "dest" and indeg.get(op[2], 0) == 1][:1]:
        # (5) with something else attached: the destination of a sink node replaced by an on-ramp (ramps may have
        # entering links, so nothing else is violated)
        variant("only5-ramp", drop=op, extra_ops=[("origin", new_o, op[2])], origins=[(new_o, rng.choice(["ramp_out", "simp_lim"]))])
    for dn in dnodes[:1]:
        variant("both2", extra_ops=[("origin", new_o, dn)], origins=[(new_o, "ramp_out")])                         # (2)
    if edges:
        (u, d, l) = edges[0]
        variant("dup1", extra_ops=[("link", new_n, l, new_n + 1), ("origin", new_o, new_n), ("dest", new_d, new_n + 1)],
                origins=[(new_o, "ideal")], dests=[(new_d, "free")])                                               # (1)
    # (1) once more, the second occurrence of the link on an edge that points BACK to a node inserted earlier (two
    # nodes that have neither origin nor destination and both entering and leaving links: nothing else is violated)
    mids = [n for n in ids if n not in onodes and n not in dnodes and indeg[n] >= 1 and outdeg[n] >= 1]
    if len(mids) >= 2 and edges:
        a_, b_ = mids[0], mids[-1]
        if ids.index(a_) < ids.index(b_) and not any(e[0] == b_ and e[1] == a_ for e in edges):
            variant("dup1-back", extra_ops=[("link", b_, edges[0][2], a_)])
    for m in [n for n in ids if indeg[n] >= 2][:2]:
        # still valid: every other node is inserted before the merge node
        variant("valid-merge-last", front_ops=[("node", x) for x in ids if x != m])
    return out


def run_C06(ctx):
    out = {"failures": [], "disagreements": [], "info": [],
           "coverage": {"evaluations": 0, "distinct_nontrivial": 0, "samples": []}}
    rng = ctx["rng"]
    quick = ctx["tier"] == "quick"
    cases = exhaustive(1) + exhaustive(2)
    if not quick:
        ex3 = exhaustive(3)
        cases += rng.sample(ex3, 20000)
    cases += [arbitrary(rng, nmax=rng.choice([2, 3, 4, 5])) for _ in range(400 if quick else 8000)]
    valid = nets.families(rng) + [nets.random_valid(rng, 8) for _ in range(30 if quick else 300)]
    cases += valid
    for vn in valid:
        cases += single_violations(vn, rng)
    # the same final graphs reached through REPLACEMENTS: an origin / destination / link first attached as another
    # object (often of another kind: ramp <-> plain origin) and then replaced - the verdict is about the graph as it
    # is now, whatever a construction call may have cached or short-cut on the way
    base = [c for c in cases if any(op[0] in ("origin", "dest") for op in c.ops)]
    picked = rng.sample(base, min(len(base), 400 if quick else 4000))
    cases += [nets.with_replacements(c, random.Random(7000 + i)) for i, c in enumerate(picked)]
    models = None
    if ctx["model_ok"]:
        try:
            res, _ = dyn.cached_eval([f"run_valid {n.coq_universe()} {n.coq_graph()}" for n in cases], HEADER)
            models = res
        except Exception as ex:
            out["disagreements"].append({"what": "validation model could not be evaluated", "error": str(ex)[-400:]})
    distinct = set()
    pv_cache = {}
    for ci, net in enumerate(cases):
        pv = nets.random_params(net, rng)
        # a third of the cases: colliding element names; half: look-ups read / network validated in the
        # middle of the construction (the verdict must not depend on names or on earlier validations)
        names = {}
        if ci % 3 == 1:
            # names are free text: braces, percent signs, quotes, blanks (as in "N_{3}", "exit 100%", "D'1")
            odd = ["N_{%d}", "{%d}", "exit %d 100%%", "D'%d\"", "{}%d", "{0}{1}%d", "a b\t%d"]
            nodes_, _e = net.graph()
            for (n_, _o, _d) in nodes_:
                names[("n", n_)] = odd[(ci + n_) % len(odd)] % n_
            for l in net.links:
                names[("l", l)] = odd[(ci + l + 1) % len(odd)] % l
            for o in net.origins:
                names[("o", o)] = odd[(ci + o + 2) % len(odd)] % o
            for d in net.dests:
                names[("d", d)] = odd[(ci + d + 3) % len(odd)] % d
        if ci % 3 == 0:
            for l in net.links:
                names[("l", l)] = "same"
            for o in net.origins:
                names[("o", o)] = "same" if ci % 2 else "same_o"
            for d in net.dests:
                names[("d", d)] = "same" if ci % 2 else "same_d"
        try:
            R = impl.Real(net, pv, names=names, reads=random.Random(ci) if ci % 2 else None)
            ok, msgs = R.net.is_valid(raises=False)
        except Exception as ex:
            out["failures"].append({"key": "C06:raise", "net": net.to_json(), "what": f"is_valid(raises=False) raised {ex!r:.200}"})
            continue
        raised = None
        try:
            # the documented signature is is_valid(raises=False): positional and keyword calls are the same call
            R.net.is_valid(True) if ci % 2 else R.net.is_valid(raises=True)
        except Exception as ex:
            raised = ex
        out["coverage"]["evaluations"] += 1
        from sym_metanet import InvalidNetworkError
        rec = {"net": net.to_json()}
        # internal consistency of the implementation's answers (direct)
        if (raised is not None) != (not ok):
            out["failures"].append(dict(rec, key="C06:raises", what=f"verdict {ok} but raises=True "
                                        f"{'raised ' + repr(raised)[:100] if raised else 'did not raise'}"))
        if raised is not None and not isinstance(raised, InvalidNetworkError):
            out["failures"].append(dict(rec, key="C06:raisetype", what=f"raises=True raised {type(raised).__name__}"))
        if not ok and not msgs:
            out["failures"].append(dict(rec, key="C06:nomsg", what="invalid verdict without any message"))
        if ok and msgs:
            out["failures"].append(dict(rec, key="C06:msgs", what=f"valid verdict with messages {msgs[:2]}"))
        expect = net.is_valid_shared()
        if models is not None:
            m = models[ci]
            mv = (m[0] == "valid")
            if mv != expect:
                out["disagreements"].append(dict(rec, what=f"Coq validb = {mv} but the description-level nine conditions give {expect}"))
            elif mv != ok:
                cond = [x.split()[0] for x in m[1:]]
                out["failures"].append(dict(rec, key=f"C06:verdict:{'accepts' if ok else 'rejects'}:{','.join(sorted(set(cond))) or 'none'}",
                                            what=f"is_valid reports {ok}; the nine conditions (validb, proved equivalent) give {mv}; "
                                                 f"violated: {m[1:]}; implementation messages: {msgs[:3]}"))
            else:
                kinds = [kind_of(x).split()[0] for x in msgs]
                mk = [x.split()[0] for x in m[1:]]
                if kinds != mk:
                    out["info"].append(f"message kinds differ: impl {kinds} model {mk} on {net.to_json()['ops']}")
        elif ok != expect:
            out["failures"].append(dict(rec, key=f"C06:verdict:{'accepts' if ok else 'rejects'}",
                                        what=f"is_valid reports {ok}; the nine conditions give {expect}; messages {msgs[:3]}"))
        if net.graph()[1]:
            distinct.add(repr(net.canonical()))
    out["coverage"]["distinct_nontrivial"] = len(distinct)
    out["coverage"]["exhaustive"] = True
    out["coverage"]["rule"] = ("all graphs on 1 and 2 nodes (any edge set incl. self-loops) x per node origin {none, ideal, ramp} x "
                               "destination {none, free}" + ("" if quick else " + 20000 sampled graphs on 3 nodes") +
                               "; random arbitrary graphs to 5 nodes with shared link/origin/destination objects and shuffled "
                               "construction order; a sample of all of these rebuilt through histories that replace origins / destinations / links; valid families and random valid graphs; distinct = graphs with at least one "
                               "link up to construction order")
    out["coverage"]["samples"] = [cases[len(cases) // 3].to_json(), cases[-1].to_json()]
    out["coverage"]["traces_validated_against_impl"] = out["coverage"]["evaluations"]
    return out


def replay(failure):
    import json
    print(json.dumps(failure, indent=1, default=str))
    net = nets.Net.from_json(failure["net"])
    R = impl.Real(net, nets.random_params(net, random.Random(0)))
    print("is_valid now:", R.net.is_valid())
    print("nine conditions on the description:", net.is_valid_shared())
    return 0
