"""Property registry: Coq property file, generators it depends on, harness entry point."""

ENG = ["T-engines-np", "T-engines-cs"]
REALS = ["axioms of Coq's Reals (via Print Assumptions): ClassicalDedekindReals.sig_forall_dec, "
         "ClassicalDedekindReals.sig_not_dec, FunctionalExtensionality.functional_extensionality_dep, "
         "Classical_Prop.classic"]

PROPS = {
    "C15": dict(prop_file="props/C15.v", generators=ENG, module="harness.p_prims",
                slice="generated primitive definitions (expression trees) vs direct calls of both engines",
                trusted=REALS + ["float-level agreement of numpy.power / casadi pow etc. is dynamic only"]),
}
