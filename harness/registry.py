"""Property registry: Coq property file, generators it depends on, harness entry point."""

ENG = ["T-engines-np", "T-engines-cs"]
REALS = ["axioms of Coq's Reals (via Print Assumptions): ClassicalDedekindReals.sig_forall_dec, "
         "ClassicalDedekindReals.sig_not_dec, FunctionalExtensionality.functional_extensionality_dep, "
         "Classical_Prop.classic"]

DYN_TRUST = REALS + ["hand-written element-layer model Blocks.v (tied by the dynamics correspondence: expression trees "
                     "printed by Coq, evaluated in floats, against NumPy step and CasADi functions)",
                     "wf_graph (node ids unique, edge ends are nodes) is an invariant of the construction model "
                     "(C09) and validb is the validation model (C06)"]

PROPS = {
    "C01": dict(prop_file="props/C01.v", generators=ENG, module="harness.p_dyn",
                slice="Blocks.v trees (both generated engines) vs NumPy step and CasADi SX/MX functions",
                trusted=DYN_TRUST),
    "C15": dict(prop_file="props/C15.v", generators=ENG, module="harness.p_prims",
                slice="generated primitive definitions (expression trees) vs direct calls of both engines",
                trusted=REALS + ["float-level agreement of numpy.power / casadi pow etc. is dynamic only"]),
}
