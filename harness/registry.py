"""Property registry: Coq property file, generators it depends on, harness entry point."""

ENG = ["T-engines-np", "T-engines-cs"]
GLUE = dict(extra_prop_files=["props/Glue.v"])      # the tie of Blocks.v to the regenerated glue (T-blocks)
INITV = ["props/InitVars.v"]                        # the effect table of every init_vars (T-initvars)
INITV_TRUST = ["translator initvars.py (T7): the init_vars of blocks/*.py read as a list of effects (bind a new dictionary of "
               "given-or-new variables, drop the next states, clamp under a flag) -> gen/InitVars.v; any other statement fails closed"]
VALG = ["props/ValidGen.v"]                       # Validity.v proved equal to the regenerated Network.is_valid (T-validity)
VALG_TRUST = ["translator validity.py (T10): Network.is_valid executed symbolically from its AST into gen/ValidGen.v (passes, "
              "conditions, thresholds, messages, counting dictionary, isinstance over the class hierarchy); Validity.v is PROVED "
              "equal to it (props/ValidGen.v); trusted: its idiom table (self.links / in_links / out_links / origins / destinations "
              "are Graph.v's look-ups, `KEY in data` = the node entry has that attachment, an edge triple is truthy, a message is "
              "identified by its constant text, a counted object is kind + identity)"]
CONG = ["props/ConstructGen.v"]                   # Construct.v proved equal to the regenerated construction calls (T-construct)
CONG_TRUST = ["translator construct.py (T11): the seven construction calls of Network executed symbolically from their AST into "
              "gen/ConstructGen.v over NxSupport.v; Construct.v is PROVED equal to it (props/ConstructGen.v); trusted: NxSupport.v as "
              "model of DiGraph.add_node / add_nodes_from / add_edge / add_edges_from / `G.nodes[n][key] = v`, the typing of the "
              "parameters by their annotations, isinstance(x, Node/Link) = is_node / is_link, the arity rule of `f(*lst)`"]
LOOK = ["props/Lookups.v"]                         # pinned source of the derived look-ups and link views (T-lookups)
LOOK_TRUST = ["translator lookups.py (T8): the bodies of Network's derived look-ups, `elements`, `states`, `next_states` and of the "
              "two link views pinned as normalised source text (a pin, not a translation: any edit breaks it)"]
GLUE_TRUST = ["translator blocks.py (T6): symbolic execution of the dynamics methods of blocks/*.py into gen/BlocksGen.v; its "
              "idiom table (element attributes = model accessors, Network look-ups = Graph.v functions, engine methods = "
              "engine record fields, class = kind) is trusted; Blocks.v is PROVED equal to the regenerated definitions "
              "(props/Glue.v), so it is no longer tied by sampling only"]
REALS = ["axioms of Coq's Reals (via Print Assumptions): ClassicalDedekindReals.sig_forall_dec, "
         "ClassicalDedekindReals.sig_not_dec, FunctionalExtensionality.functional_extensionality_dep, "
         "Classical_Prop.classic"]

DYN_TRUST = REALS + GLUE_TRUST + ["element-layer model Blocks.v (proved equal to the regenerated glue; besides, the dynamics "
                     "correspondence: expression trees printed by Coq, evaluated in floats, against NumPy step and CasADi functions)",
                     "wf_graph (node ids unique, edge ends are nodes) is an invariant of the construction model "
                     "(C09) and validb is the validation model (C06)"]

PROPS = {
    "C01": dict(extra_prop_files=GLUE["extra_prop_files"] + ["props/GlueC01.v"], prop_file="props/C01.v", generators=ENG + ["T-blocks"], module="harness.p_dyn",
                slice="Blocks.v trees (both generated engines) vs NumPy step and CasADi SX/MX functions",
                trusted=DYN_TRUST),
    "C02": dict(GLUE, prop_file="props/C02.v", generators=ENG + ["T-blocks"], module="harness.p_dyn",
                slice="Blocks.v trees vs NumPy step and CasADi functions (the values the balance is about)",
                trusted=DYN_TRUST + ["C02's balances are stated on Spec.v values; model_conserves composes them with C01 for the regenerated engines"]),
    "C03": dict(extra_prop_files=GLUE["extra_prop_files"] + INITV, prop_file="props/C03.v", generators=ENG + ["T-blocks", "T-initvars"], module="harness.p_dyn",
                slice="Blocks.v trees (np, cs) vs NumPy/SX/MX; ToFunction.v arguments+result trees vs the compiled function",
                trusted=DYN_TRUST + ["Paramcoq only produces the term network_step_R; it is type-checked by the kernel",
                                     "ToFunction.v (hand-written model of to_function; tied by the compile correspondence)",
                                     "one symbolic type in the model: SX vs MX agreement is dynamic only"]),
    "C04": dict(extra_prop_files=GLUE["extra_prop_files"] + LOOK, prop_file="props/C04.v", generators=ENG + ["T-blocks", "T-tables", "T-lookups"], module="harness.p_dyn",
                slice="ToFunction.v arguments (names, symbols) + result trees vs F.name_in/out, sizes, numeric values",
                trusted=DYN_TRUST + ["ToFunction.v (hand-written model of to_function; tied by the compile correspondence)",
                                     "translator facts.py (the tests on `compact` of the compile helpers -> gen/Tables.v)"] + LOOK_TRUST),
    "C05": dict(GLUE, prop_file="props/C05.v", generators=ENG + ["T-blocks"], module="harness.p_dyn",
                slice="ToFunction.v (more_out) result trees vs the compiled function",
                trusted=["no axioms (Print Assumptions: closed under the global context)",
                         "Blocks.v / ToFunction.v as models of the Python code (tied by the correspondence)"] + GLUE_TRUST),
    "C16": dict(GLUE, prop_file="props/C16.v", generators=ENG + ["T-blocks"] + ["T-tables"], module="harness.p_dyn",
                slice="ToFunction.v with declared parameters vs the compiled function",
                trusted=DYN_TRUST + ["ToFunction.v (hand-written; tied by the compile correspondence)"]),
    "C06": dict(extra_prop_files=LOOK + VALG, prop_file="props/C06.v", generators=["T-tables", "T-lookups", "T-validity"], module="harness.p_valid",
                slice="Validity.v (verdict, message kinds) vs Network.is_valid on exhaustive small graphs and random graphs",
                trusted=["no axioms", "Graph.v as model of the networkx graph (tied by the correspondence); Validity.v is hand-written and PROVED equal to the regenerated is_valid",
                         "the nine conditions as formalised in specs/C06_spec.v",
                         "translator facts.py (report / raise sites of Network.is_valid -> gen/Tables.v)"] + VALG_TRUST),
    "C08": dict(extra_prop_files=LOOK + CONG, prop_file="props/C08.v", generators=["T-tables", "T-lookups", "T-construct"], module="harness.p_hist",
                slice="Construct.v + Cache.v (generated invalidation table) vs Network on histories of calls and reads",
                trusted=["no axioms", "Construct.v / Cache.v as models of networkx.DiGraph, functools.cached_property and "
                         "util/funcs.py::invalidate_cache (tied by the history correspondence)",
                         "translator tables.py (decorator lists of network.py -> gen/Tables.v)"] + LOOK_TRUST + CONG_TRUST),
    "C09": dict(extra_prop_files=LOOK + CONG, prop_file="props/C09.v", generators=["T-lookups", "T-construct"], module="harness.p_hist",
                slice="Construct.v vs Network on construction histories and the malformed-path stream",
                trusted=["no axioms", "Construct.v as model of the construction calls (hand-written; PROVED equal to the regenerated calls; the networkx primitives of NxSupport.v are tied by the history correspondence)"] + LOOK_TRUST + CONG_TRUST),
    "C07": dict(extra_prop_files=GLUE["extra_prop_files"] + VALG + INITV, prop_file="props/C07.v", generators=ENG + ["T-blocks", "T-validity", "T-initvars"], module="harness.p_dyn",
                slice="Blocks.v trees vs NumPy/CasADi; every graph the implementation's is_valid accepts is stepped and compiled",
                trusted=DYN_TRUST + ["PARTIAL: Python exceptions outside the modelled failure points, NumPy/CasADi shape rules and IEEE "
                                     "overflow / rounding are covered by the dynamic runs only (finiteness of a whole step is proved "
                                     "over the exact partial reals NumPR.v)", "ToFunction.v (hand-written; tied by the compile correspondence)"] + VALG_TRUST),
    "C10": dict(GLUE, prop_file="props/C10.v", generators=ENG + ["T-blocks"], module="harness.p_dyn",
                slice="Blocks.v trees vs CasADi functions; Jacobian sparsity vs variable sets of the Spec trees",
                trusted=DYN_TRUST + ["locality is stated on Spec.v values; model_locality composes it with C01 for the regenerated engines"]),
    "C11": dict(extra_prop_files=GLUE["extra_prop_files"] + INITV, prop_file="props/C11.v", generators=ENG + ["T-blocks", "T-initvars"] + ["T-tables"], module="harness.p_dyn",
                slice="Blocks.v trees under a clamping option set vs NumPy step and CasADi functions",
                trusted=["FunctionalExtensionality.functional_extensionality_dep (the only axiom; theorems hold for every numeric structure)",
                         "element-layer model Blocks.v (proved equal to the regenerated glue; tied by the dynamics correspondence besides)",
                         GLUE_TRUST[0], INITV_TRUST[0],
                         "translator facts.py (option defaults and phases of Network.step -> gen/Tables.v)"]),
    "C12": dict(extra_prop_files=INITV, prop_file="props/C12.v", generators=["T-tables", "T-initvars"], module="harness.p_dyn",
                slice="Lifecycle.v vs the implementation on lifecycle histories; Blocks.v trees vs NumPy/CasADi on re-used objects",
                trusted=["no axioms", "Lifecycle.v as model of the variable slots (tied by lifecycle histories)",
                         "translator effects.py: which expressions allocate a new value is a classification rule (trusted, PARTIAL)"] + INITV_TRUST),
    "C19": dict(extra_prop_files=INITV, prop_file="props/C19.v", generators=["T-tables", "T-initvars"], module="harness.p_life",
                slice="Lifecycle.v vs init_vars / step / construction / to_function histories on SX and MX",
                trusted=["no axioms", "Lifecycle.v as model of base.py slots, Network.step, to_function's readiness scan and "
                         "casadi.Function's free-symbol rule (tied by lifecycle histories)",
                         "translator facts.py (init_vars resets / step overwrites, read off blocks/*.py -> gen/Tables.v)"] + INITV_TRUST),
    "C13": dict(GLUE, prop_file="props/C13.v", generators=["T-tables", "T-blocks"], module="harness.p_sel",
                slice="EngineSel.v vs use/get_current_engine on selection histories; recording engines for every (selected, explicit) pair",
                trusted=["no axioms", "EngineSel.v as model of engines/core.py::use and the module-level selection",
                         "translator forwarding.py (call sites of blocks/*.py, network.py -> gen/Tables.v) and its classification rule"]),
    "C14": dict(GLUE, prop_file="props/C14.v", generators=ENG + ["T-blocks"], module="harness.p_dyn",
                slice="Blocks.v trees vs NumPy/CasADi on networks rebuilt in shuffled order",
                trusted=DYN_TRUST + ["names do not occur in Blocks.v; their absence of influence on the implementation is checked dynamically"]),
    "C17": dict(GLUE, prop_file="props/C17.v", generators=ENG + ["T-blocks"], module="harness.p_dyn",
                slice="generated origin primitives (trees) vs both engines; Blocks.v trees vs NumPy/CasADi at corner states",
                trusted=DYN_TRUST),
    "C18": dict(extra_prop_files=GLUE["extra_prop_files"] + INITV, prop_file="props/C18.v", generators=ENG + ["T-blocks", "T-initvars"], module="harness.p_dyn",
                slice="generated primitives (trees) vs both engines; Blocks.v trees vs NumPy/CasADi; paired controlled/plain networks",
                trusted=DYN_TRUST + ["literal IEEE inf controls are exercised dynamically only"]),
    "C15": dict(prop_file="props/C15.v", generators=ENG, module="harness.p_prims",
                slice="generated primitive definitions (expression trees) vs direct calls of both engines",
                trusted=REALS + ["float-level agreement of numpy.power / casadi pow etc. is dynamic only"]),
}

# T12: the layout functions of ToFunction.v proved equal to the regenerated compile helpers
COMPG_TRUST = ("translator compilegen.py (T12): the four compile helpers of engines/casadi.py executed symbolically from their AST into "
               "gen/CompileGen.v over PySupport.v; the layout functions of ToFunction.v are PROVED equal to it for every integer level "
               "(props/CompileGen.v); trusted: PySupport.v as model of dict / list / str, the unrolling of loops over literal tuples of "
               "names (aliasing), `for k, v in D.items(): D[k] = f(v)` as a map over values, cs.vcat / cs.vertcat as one stacking function, "
               "el.name and get_flow as functions of the element; to_function's own body (dict comprehensions, _filter_vars, the "
               "cs.Function call) stays pinned")
for _pid in ("C03", "C04", "C05", "C16"):
    _m = dict(PROPS[_pid])
    _m["extra_prop_files"] = list(_m.get("extra_prop_files", [])) + ["props/CompileGen.v"]
    _m["generators"] = list(_m.get("generators", [])) + ["T-compile"]
    _m["trusted"] = list(_m.get("trusted", [])) + [COMPG_TRUST]
    PROPS[_pid] = _m

# T13: what Cache.v assumes of a decorated call proved of the regenerated invalidate_cache
CACHEG_TRUST = ("translator cachegen.py (T13): util/funcs.py::invalidate_cache executed symbolically from its AST into gen/CacheGen.v over "
                "PyCacheSupport.v; Cache.v's `cache_drop` followed by the call is PROVED to be what the regenerated wrapper does "
                "(props/CacheGen.v); trusted: an instance's __dict__ restricted to cached-property names as name -> cached value, "
                "prop.attrname identifies the property, functools.wraps changes no behaviour; functools.cached_property itself (a read "
                "populates, a populated read returns the stored value) stays modelled by Cache.v and tied by the history correspondence")
for _pid in ("C08",):
    _m = dict(PROPS[_pid])
    _m["extra_prop_files"] = list(_m.get("extra_prop_files", [])) + ["props/CacheGen.v"]
    _m["generators"] = list(_m.get("generators", [])) + ["T-cache"]
    _m["trusted"] = list(_m.get("trusted", [])) + [CACHEG_TRUST]
    PROPS[_pid] = _m

# source pins (translator/pins.py): the hand-written models that are tied by sampling only have the text they were
# written from pinned, so that no edit of it goes unnoticed
PINS = {"compile": ["C03", "C04", "C05", "C16", "C19", "C13"], "selection": ["C13"], "cache": ["C08"],
        "construct": ["C09", "C08"], "validity": ["C06"], "stepping": ["C07", "C11", "C12", "C19"]}
PIN_TRUST = ("translator pins.py (T9): source text of the hand-modelled code pinned by string equality ({}) - a pin, not a "
             "translation: it detects every edit and proves nothing about meaning")
for _grp, _pids in PINS.items():
    for _pid in _pids:
        _m = dict(PROPS[_pid])
        _m["extra_prop_files"] = list(_m.get("extra_prop_files", [])) + [f"props/Pin_{_grp}.v"]
        _m["generators"] = list(_m.get("generators", [])) + [f"T-pin-{_grp}"]
        _m["trusted"] = list(_m.get("trusted", [])) + [PIN_TRUST.format(_grp)]
        PROPS[_pid] = _m
