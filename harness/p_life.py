"""Lifecycle slice (C19, C12): histories of init_vars / step / construction / to_function on a
small network, against Lifecycle.v; direct oracles on the returned function (no free symbol,
reacts to the current input symbols = reflects the most recent step) and on purity of stepping."""
import random

import numpy as np

from harness import dyn

HEADER = ("From Coq Require Import List String Arith.\nFrom SM Require Import Expr Lifecycle.\n"
          "Import ListNotations.\nLocal Open Scope string_scope.\n"
          "Set Printing Width 1000000.\nSet Printing Depth 1000000.\n"
          "Fixpoint joinn (l : list nat) : string := match l with [] => \"\" | [x] => snat x | x :: l' => snat x ++ \",\" ++ joinn l' end.\n"
          "Definition show_lres (r : lres) : string := match r with LOk => \"ok\" | LAssert => \"AssertionError\"\n"
          " | LTypeErr => \"TypeError\" | LRuntimeError => \"RuntimeError\" | LFunction els => \"function \" ++ joinn els end.\n"
          "Definition the_net : lnet := {| elems := [0; 1; 2; 3]%nat;\n"
          "  declares_any := fun e => match e with 5 => false | _ => true end;\n"
          "  declares_states := fun e => match e with 3 | 5 | 6 => false | _ => true end;\n"
          "  needs := fun e => match e with 0 => [2; 1] | 1 => [0; 3; 4; 6] | 2 => [0] | 4 => [1] | _ => [] end |}%nat.\n"
          "Definition run_life (ops : list lop) : list string := map show_lres (snd (lrun the_net (linit the_net) ops)).\n")

# element ids: 0 L0, 1 L1, 2 O0 (mainstream origin), 3 D0 (congested destination),
#              4 O1 (metered ramp added at N1 later), 5 D1 (plain destination replacing D0),
#              6 D2 (a second congested destination, attached later and never initialised on its own)
NAMES = {0: "L0", 1: "L1", 2: "O0", 3: "D0", 4: "O1", 5: "D1", 6: "D2"}
PARS = dict(T=10 / 3600, tau=18 / 3600, eta=60.0, kappa=40.0, delta=0.0122)
# steps may be taken with other model parameters: the compiled function must be the one of the LATEST step
PARS_V = [PARS, dict(PARS, tau=30 / 3600, eta=35.0, kappa=25.0), dict(PARS, tau=12 / 3600, eta=80.0, delta=0.02)]


class World:
    def __init__(self, sym, ramp="metered", forget=False):
        """ramp: kind of the on-ramp element 4; forget: drop the next states of an element just before it is
        stepped (the reference for 'reflects the most recent step': a step must overwrite them anyway)"""
        from sym_metanet import (CongestedDestination, Destination, Link, MainstreamOrigin, MeteredOnRamp,
                                 Network, Node, SimplifiedMeteredOnRamp)
        self.forget = forget
        from sym_metanet.engines.casadi import Engine as Cs
        from sym_metanet.engines.numpy import Engine as Np
        self.cs = Cs(sym)
        self.np = Np("rand")
        self.N = [Node(name=f"N{i}") for i in range(3)]
        self.el = {0: Link(2, 2, 1.0, 180.0, 33.0, 100.0, 1.8, name="L0"),
                   1: Link(1, 2, 1.0, 180.0, 33.0, 100.0, 1.8, name="L1"),
                   2: MainstreamOrigin(name="O0"), 3: CongestedDestination(name="D0"),
                   4: (MeteredOnRamp(2000.0, name="O1") if ramp == "metered" else
                       SimplifiedMeteredOnRamp(2000.0, name="O1")), 5: Destination(name="D1"),
                   6: CongestedDestination(name="D2")}
        self.ramp = ramp
        self.net = Network()
        self.net.add_path([self.N[0], self.el[0], self.N[1], self.el[1], self.N[2]], origin=self.el[2],
                          destination=self.el[3])
        self.rng = random.Random(7)

    def numbers(self, e):
        el = self.el[e]
        r = self.rng
        if e in (0, 1):
            return {"rho": np.array([r.uniform(10, 40) for _ in range(el.N)]),
                    "v": np.array([r.uniform(50, 100) for _ in range(el.N)])}
        if e == 2:
            return {"w": np.array([5.0]), "v_ctrl": np.array([90.0]), "d": np.array([1500.0])}
        if e == 4:
            return {"w": np.array([3.0]), ("r" if self.ramp == "metered" else "q"): np.array([0.7 if self.ramp == "metered" else 900.0]),
                    "d": np.array([400.0])}
        if e in (3, 6):
            return {"d": np.array([20.0])}
        return {}

    def apply(self, op):
        try:
            k = op[0]
            if k == "init":
                el = self.el[op[1]]
                if op[2] == "sym":
                    el.init_vars(engine=self.cs)
                elif op[2] == "same":
                    # re-initialised with the very variables it holds (so that nothing a later compilation meets is a
                    # new symbol): its next states are gone all the same
                    cur = {}
                    for grp in (el.states, el.actions, el.disturbances):
                        cur.update(grp or {})
                    el.init_vars(init_conditions=cur, engine=self.cs)
                else:
                    el.init_vars(init_conditions=self.numbers(op[1]), engine=self.cs)
                return "ok"
            if k == "stepall":
                pars = PARS_V[op[2] if len(op) > 2 else 0]
                if self.forget:
                    for el in self.net.elements:
                        if hasattr(el, "next_states"):
                            el.next_states = None
                if op[1] == "sym":
                    self.net.step(engine=self.cs, **pars)
                else:
                    ic = {self.el[e]: self.numbers(e) for e in self.el}
                    with np.errstate(all="ignore"):
                        self.net.step(engine=self.np, init_conditions=ic, **pars)
                return "ok"
            if k == "stepel":
                pars = PARS_V[op[2] if len(op) > 2 else 0]
                if self.forget:
                    self.el[op[1]].next_states = None
                with np.errstate(all="ignore"):
                    self.el[op[1]].step(net=self.net, engine=self.cs, **pars)
                return "ok"
            if k == "stepelfail":
                # an element-level step of a link that fails (tau, eta, kappa missing): nothing is stepped by it
                try:
                    self.el[op[1]].step(net=self.net, engine=self.cs, T=PARS["T"])
                except (TypeError, AssertionError):       # (AssertionError: the link was never initialised)
                    return "ok"
                return "did not fail"
            if k == "stepallmixed":
                # a symbolic Network.step in which the caller fixes SOME states to numbers (a float queue, a DM speed)
                import casadi as cs
                ic = {self.el[2]: {"w": 35.0}, self.el[1]: {"v": cs.DM([88.0])}}
                self.net.step(engine=self.cs, init_conditions={k_: v_ for k_, v_ in ic.items() if k_ in set(self.net.elements)},
                              **PARS_V[op[1] if len(op) > 1 else 0])
                return "ok"
            if k == "read":
                # the caller looks things up between the calls (every derived look-up the network offers): what a
                # look-up caches must not hide an element added afterwards from a later compilation
                n_ = self.net
                for attr in ("nodes_by_name", "links_by_name", "nodes_by_link", "origins", "origins_by_name", "origins_by_node",
                             "destinations", "destinations_by_name", "destinations_by_node"):
                    list(getattr(n_, attr))
                return "ok"
            if k == "add":
                if op[1] == 4:
                    self.net.add_origin(self.el[4], self.N[1])
                elif op[1] == 5:
                    self.net.add_destination(self.el[5], self.N[2])
                elif op[1] in (3, 6):
                    self.net.add_destination(self.el[op[1]], self.N[2])
                return "ok"
            if k == "tofun":
                eng_ = self.cs
                if len(op) > 1 and op[1] == "other":
                    # compiled by ANOTHER CasADi engine object, built for the other symbol type: what is compiled is the
                    # network's step, whoever compiles it
                    from sym_metanet.engines.casadi import Engine as Cs_
                    eng_ = Cs_("MX" if type(self.cs.var("probe_", 1)).__name__ == "SX" else "SX")
                F = eng_.to_function(self.net, compact=0, T=PARS["T"])
                self.last_F = F
                els = sorted({nm.split("_")[-1] for nm in F.name_in()})
                ids = sorted(i for i, n in NAMES.items() if n in els)
                return "function " + ",".join(str(i) for i in ids)
        except AssertionError:
            return "AssertionError"
        except TypeError:
            return "TypeError"
        except RuntimeError:
            return "RuntimeError"
        except Exception as ex:
            return "raised " + type(ex).__name__
        return "?"


def coq_op(op):
    k = op[0]
    if k in ("stepelfail", "read"):
        return None                  # no transition of the model
    if k == "stepallmixed":
        return "StepAll Symbols"     # (placeholder: histories containing it are not compared with the model)
    if k == "init":
        return f"InitVars {op[1]}%nat {'Symbols' if op[2] in ('sym', 'same') else 'Numbers'}"
    if k == "stepall":
        return f"StepAll {'Symbols' if op[1] == 'sym' else 'Numbers'}"
    if k == "stepel":
        return f"StepEl {op[1]}%nat"
    if k == "add":
        # add_destination replaces the destination of N2: the other one leaves the network
        if op[1] in (3, 5, 6):
            return "; ".join(f"DropElem {x}%nat" for x in (3, 5, 6) if x != op[1]) + f"; AddElem {op[1]}%nat"
        return f"AddElem {op[1]}%nat"
    return "ToFunction"


def random_history(rng, maxlen=10):
    """operations are restricted to what the model covers: elements are initialised one by one with
    engine symbols only (numbers enter through a NumPy Network.step), element.step is used only on
    members of the network and only while no member holds numbers (a CasADi step over NumPy arrays of
    shape (1,) fails the shape check: a property of mixing engines, not of the life cycle)"""
    h = []
    members = {0, 1, 2, 3}
    numeric = False
    for _ in range(rng.randint(1, maxlen)):
        r = rng.random()
        if r < 0.25:
            e = rng.choice(sorted(members - {5}))
            h.append(("init", e, "sym" if numeric or rng.random() < 0.7 else "same"))
        elif r < 0.45:
            k = rng.choice(["sym", "sym", "num"])
            h.append(("stepall", k, rng.randrange(3)))
            numeric = (k == "num")
        elif r < 0.62:
            if numeric:
                continue
            h.append(("stepel", rng.choice(sorted(members & {0, 1, 2, 4})), rng.randrange(3)))
        elif r < 0.65:
            if numeric:
                continue
            h.append(("stepelfail", rng.choice([0, 1])))
        elif r < 0.75:
            if rng.random() < 0.4:
                h.append(("read",))
            e = rng.choice([4, 5, 3, 6])
            h.append(("add", e))
            if e in (3, 5, 6):
                members -= {3, 5, 6}
            members.add(e)
        else:
            h.append(("tofun",))
    if not h or h[-1][0] != "tofun":
        h.append(("tofun",))
    return h


def directed_histories():
    T = ("tofun",)
    return [
        [T], [("stepall", "sym"), T], [("init", 0, "sym"), T],
        [("stepall", "sym"), ("tofun", "other")], [("add", 4), ("stepall", "sym"), ("tofun", "other")],
        [("stepall", "sym"), ("init", 0, "sym"), ("tofun", "other")],
        [("stepall", "sym"), ("init", 2, "same"), T], [("stepall", "sym"), ("init", 0, "same"), T],
        [("add", 4), ("stepall", "sym"), ("init", 4, "same"), T], [("stepall", "sym"), ("init", 2, "same"), ("stepel", 2), T],
        [("init", 0, "sym"), ("init", 1, "sym"), ("init", 2, "sym"), ("init", 3, "sym"), T],
        [("init", 0, "sym"), ("init", 1, "sym"), ("init", 2, "sym"), ("init", 3, "sym"), ("stepel", 0), T],
        [("init", 0, "sym"), ("init", 1, "sym"), ("init", 2, "sym"), ("init", 3, "sym"), ("stepel", 0), ("stepel", 1), ("stepel", 2), T],
        [("stepall", "sym"), ("init", 0, "sym"), T],
        [("stepall", "sym"), ("init", 0, "sym"), ("stepel", 0), T],
        [("stepall", "sym"), ("add", 4), T], [("stepall", "sym"), ("add", 4), ("init", 4, "sym"), T],
        [("stepall", "sym"), ("add", 4), ("stepall", "sym"), T],
        [("stepall", "num"), T], [("stepall", "num"), ("init", 0, "sym"), T],
        [("stepall", "num"), ("stepall", "sym"), T], [("stepall", "sym"), ("stepall", "num"), T],
        [("stepall", "sym"), ("add", 5), T], [("stepall", "sym"), ("add", 5), ("add", 3), T],
        [("stepall", "sym"), ("add", 5), ("add", 3), ("init", 3, "sym"), T],
        [("stepall", "sym"), ("init", 3, "sym"), T],
        # the latest step counts: the same element / the whole network stepped again with other parameters
        [("stepall", "sym", 0), ("stepel", 0, 1), T], [("stepall", "sym", 0), ("stepel", 2, 2), ("stepel", 1, 1), T],
        [("stepall", "sym", 1), ("stepall", "sym", 2), T],
        [("stepall", "sym", 0), ("add", 4), ("stepall", "sym", 1), ("stepel", 4, 2), ("stepel", 0, 2), T],
        # an element re-initialised after a numeric step (nothing symbolic of the old step is left to trip
        # CasADi's own free-variable check): compiling must still refuse
        [("add", 4), ("stepall", "num"), ("init", 4, "sym"), T],
        [("stepall", "num"), ("add", 4), ("stepall", "num"), ("init", 4, "sym"), T],
        [("stepall", "num"), ("init", 2, "sym"), T], [("stepall", "num"), ("init", 1, "sym"), T],
        [("add", 4), ("stepall", "sym"), ("init", 4, "sym"), T],
        [("add", 4), ("stepall", "sym"), ("init", 4, "sym"), ("stepel", 4, 1), T],
        # a congested destination attached after the last step and never initialised
        [("stepall", "sym"), ("add", 6), T], [("stepall", "sym"), ("add", 5), ("add", 6), T],
        [("stepall", "sym"), ("add", 5), ("stepall", "sym"), ("add", 6), T], [("stepall", "sym"), ("add", 6), ("stepall", "sym"), T],
        # look-ups read before an element is added: the compilation must still meet the new element
        [("stepall", "sym"), ("read",), ("add", 4), T], [("stepall", "sym"), ("read",), ("add", 6), T],
        [("stepall", "sym"), ("read",), ("add", 5), ("read",), ("add", 6), T],
        [("stepall", "sym"), ("read",), ("add", 4), ("init", 4, "sym"), T], [("read",), ("add", 4), ("stepall", "sym"), ("read",), ("add", 6), T],
        # a step that fails leaves the element unstepped
        [("init", 0, "sym"), ("init", 1, "sym"), ("init", 2, "sym"), ("init", 3, "sym"), ("stepel", 0), ("stepel", 2), ("stepelfail", 1), T],
        [("stepall", "sym"), ("init", 1, "sym"), ("stepelfail", 1), T], [("stepall", "sym"), ("init", 0, "sym"), ("stepelfail", 0), T],
        [("stepall", "sym"), ("stepelfail", 1), T],
        # some states fixed to numbers by the caller within a symbolic step: their next states are still results
        [("stepallmixed", 0), T], [("stepall", "sym", 1), ("stepallmixed", 2), T], [("add", 4), ("stepallmixed", 1), T],
    ]


def run_C19(ctx):
    out = {"failures": [], "disagreements": [], "info": [],
           "coverage": {"evaluations": 0, "distinct_nontrivial": 0, "samples": []}}
    rng = ctx["rng"]
    quick = ctx["tier"] == "quick"
    hs = directed_histories() + [random_history(rng) for _ in range(200 if quick else 4000)]
    models = None
    if ctx["model_ok"]:
        try:
            models, _ = dyn.cached_eval(["run_life [" + "; ".join(c for c in (coq_op(o) for o in h) if c) + "]" for h in hs], HEADER)
        except Exception as ex:
            out["disagreements"].append({"what": "lifecycle model could not be evaluated", "error": str(ex)[-500:]})
    distinct = set()
    ndir = len(directed_histories())
    for hi, h in enumerate(hs):
        for sym, ramp in ([(s_, r_) for s_ in ("SX", "MX") for r_ in ("metered", "simplified")] if hi < ndir or not quick
                          else [(("SX", "MX")[hi % 2], ("metered", "simplified")[(hi // 2) % 2])]):
            W = World(sym, ramp)
            obs = []
            shadow = Shadow()
            for oi, op in enumerate(h):
                r = W.apply(op)
                shadow.apply(op, r)
                out["coverage"]["evaluations"] += 1
                if op[0] == "add":
                    obs += ["ok", "ok", "ok"] if op[1] in (5, 3, 6) else ["ok"]
                elif op[0] == "stepelfail":
                    if r != "ok":
                        out["failures"].append({"key": "C19:stepelfail", "history": h[:oi + 1], "sym": sym, "ramp": ramp,
                                                "what": f"an element step without tau/eta/kappa returned {r} instead of raising TypeError"})
                elif op[0] == "read":
                    if r != "ok":
                        out["failures"].append({"key": "C19:read", "history": h[:oi + 1], "sym": sym, "ramp": ramp,
                                                "what": f"reading the network's look-ups returned {r}"})
                else:
                    obs.append(r)
                if op[0] == "tofun":
                    # ---- direct oracle on the implementation ----
                    must_raise = shadow.must_raise(W)
                    if r.startswith("function"):
                        F = W.last_F
                        if must_raise:
                            out["failures"].append({"key": "C19:returned:" + must_raise.split(":")[0], "history": h[:oi + 1], "sym": sym,
                                                    "ramp": ramp, "what": f"{sym}, {ramp} ramp: to_function returned a function although {must_raise}; "
                                                            f"arguments {F.name_in()} results {F.name_out()}"})
                        if F.has_free():
                            out["failures"].append({"key": "C19:free", "history": h[:oi + 1], "sym": sym,
                                                    "what": f"{sym}: returned function has free symbols {F.get_free()}"})
                        for msg in reflects_last_step(W, F) + content_is_latest(h[:oi + 1], sym, ramp, F) + levels_agree(W, F):
                            out["failures"].append({"key": "C19:stale:" + msg.split(":")[0], "history": h[:oi + 1], "sym": sym,
                                                    "ramp": ramp, "what": f"{sym}, {ramp} ramp: {msg}"})
                    elif r != "RuntimeError":
                        out["failures"].append({"key": "C19:error-class", "history": h[:oi + 1], "sym": sym,
                                                "what": f"{sym}: to_function raised {r} instead of a runtime error"})
            # (histories with a mixed step or a re-initialisation with the SAME symbols are judged by the direct oracle
            # only: the model gives every initialisation a new generation of symbols)
            if models is not None and not any(o[0] == "stepallmixed" or (o[0] == "init" and o[2] == "same") for o in h):
                # (the set of elements whose symbols are arguments: order is not part of the observable)
                m = ["function " + ",".join(sorted(x[9:].split(","), key=lambda t: int(t) if t.isdigit() else -1))
                     if x.startswith("function ") else x for x in models[hi]]
                if obs != m:
                    out["disagreements"].append({"what": f"history {h}: implementation {obs} model {m}", "history": h})
            distinct.add(repr(h))
    out["coverage"]["distinct_nontrivial"] = len(distinct)
    out["coverage"]["rule"] = ("histories on a 2-link chain with a mainstream origin and a congested destination, plus a metered "
                               "ramp added and the destination replaced later: init_vars of single elements (engine symbols or "
                               "numbers), Network.step (symbolic / NumPy numeric), element.step, construction calls, to_function; "
                               "SX and MX; 19 directed histories + random to length 10")
    out["coverage"]["samples"] = [{"history": hs[6]}, {"history": hs[-1]}]
    out["coverage"]["traces_validated_against_impl"] = len(hs)
    return out


class Shadow:
    """independent bookkeeping of what happened to each element object (for the direct oracle)"""

    def __init__(self):
        self.inited = {}
        self.stepped_after_init = {}
        self.members = {0, 1, 2, 3}

    def apply(self, op, r):
        if r != "ok":
            return
        if op[0] == "init":
            self.inited[op[1]] = True
            self.stepped_after_init[op[1]] = False
        elif op[0] in ("stepall", "stepallmixed"):
            for e in self.members:
                self.inited[e] = True
                self.stepped_after_init[e] = True
        elif op[0] == "stepel":
            if self.inited.get(op[1]):
                self.stepped_after_init[op[1]] = True
        elif op[0] == "add":
            if op[1] in (3, 5, 6):
                self.members -= {3, 5, 6}
            self.members.add(op[1])

    def must_raise(self, W):
        for e in sorted(self.members):
            if e == 5:
                continue
            if not self.inited.get(e):
                return f"uninitialised: element {NAMES[e]} has never been initialised"
            if e not in (3, 6) and not self.stepped_after_init.get(e):
                return f"unstepped: element {NAMES[e]} was not stepped after its last initialisation"
        return None


def reflects_last_step(W, F):
    """every result of F must be an expression of the CURRENT next states of the elements"""
    import casadi as cs
    msgs = []
    want = []
    for e in (0, 1):
        if W.el[e] in set(W.net.elements) and W.el[e].next_states:
            for nm, x in W.el[e].next_states.items():
                if isinstance(x, (cs.SX, cs.MX)):
                    want.append((f"{nm}_{NAMES[e]}+", x))
    for e in (2, 4):
        if W.el[e] in set(W.net.elements) and W.el[e].next_states:
            for nm, x in W.el[e].next_states.items():
                if isinstance(x, (cs.SX, cs.MX)):
                    want.append((f"{nm}_{NAMES[e]}+", x))
    names = F.name_out()
    if sorted(names) != sorted(n for n, _ in want):
        msgs.append(f"outputs: results {names} are not the next states of the current elements {[n for n, _ in want]}")
    return msgs


STATE_VARS, ACTION_VARS, DIST_VARS = ("rho", "v", "w"), ("v_ctrl", "r", "q"), ("d",)


def levels_agree(W, F):
    """'reflects the most recent step' at every documented level: the function compiled right now at the aggregated
    levels 1 and 2 returns, entry for entry, what the per-element function F (level 0) returns - the aggregated vectors
    being the per-element ones grouped by variable name in order of first appearance"""
    if F.has_free():
        return []
    if F.n_in() == 0 or F.n_out() == 0:
        return []
    names_in = [F.name_in(i) for i in range(F.n_in())]
    sizes_in = [F.size1_in(i) for i in range(F.n_in())]
    names_out = list(F.name_out())
    rng = random.Random(len(names_in) * 17 + 3)
    vals = {n: np.array([rng.uniform(5.0, 60.0) for _ in range(k)]) for n, k in zip(names_in, sizes_in)}
    r0 = F(*[vals[n] for n in names_in])
    r0 = r0 if isinstance(r0, (list, tuple)) else [r0]
    out0 = {n: np.array(x, dtype=float).reshape(-1) for n, x in zip(names_out, r0)}

    def var_of(name):
        for v in sorted(STATE_VARS + ACTION_VARS + DIST_VARS, key=len, reverse=True):
            if name.startswith(v + "_"):
                return v
        return None

    def grouped(names, table, which):
        order = []
        for n in names:
            v = var_of(n)
            if v in which and v not in order:
                order.append(v)
        return [(v, np.concatenate([table[n] for n in names if var_of(n) == v])) for v in order]
    msgs = []
    for level in (1, 2):
        try:
            G = W.cs.to_function(W.net, compact=level, T=PARS["T"])
        except Exception as ex:
            msgs.append(f"levels: compiling at level {level} raised {ex!r:.120} although level 0 compiles")
            continue
        gx, gu, gd = grouped(names_in, vals, STATE_VARS), grouped(names_in, vals, ACTION_VARS), grouped(names_in, vals, DIST_VARS)
        if level == 1:
            args = [a for _, a in gx + gu + gd]
        else:
            args = [np.concatenate([a for _, a in g]) if g else np.zeros(0) for g in (gx, gu, gd)]
        if level == 1:
            args = [a for a in args if len(a)] if G.n_in() != len(args) else args
        if [G.size1_in(i) for i in range(G.n_in())] != [len(a) for a in args] or not args:
            msgs.append(f"levels: the level-{level} function takes arguments of sizes {[G.size1_in(i) for i in range(G.n_in())]}, "
                        f"the grouping of the level-0 arguments gives {[len(a) for a in args]}")
            continue
        res = G(*args)
        res = res if isinstance(res, (list, tuple)) else [res]
        got = np.concatenate([np.array(x, dtype=float).reshape(-1) for x in res]) if res else np.zeros(0)
        base = {n[:-1]: x for n, x in out0.items()}
        exp_groups = grouped([n[:-1] for n in names_out], base, STATE_VARS)
        exp = np.concatenate([a for _, a in exp_groups]) if exp_groups else np.zeros(0)
        if got.shape != exp.shape or not np.allclose(got, exp, rtol=1e-9, atol=1e-9, equal_nan=True):
            msgs.append(f"levels: the level-{level} function returns {got.tolist()}; the level-0 results grouped by variable "
                        f"({[v for v, _ in exp_groups]}) are {exp.tolist()}")
            break
    return msgs


def content_is_latest(h, sym, ramp, F):
    """'reflects the most recent step', by value: the same history on new objects whose next states are dropped
    just before every step (so nothing of an earlier step can survive) must compile to the same function"""
    if F.has_free():
        return []                     # (reported separately; such a function cannot be evaluated)
    W2 = World(sym, ramp, forget=True)
    r = None
    for op in h:
        r = W2.apply(op)
    if not (isinstance(r, str) and r.startswith("function")):
        return [f"content: the same history on objects that forget their next states before each step gives {r}"]
    F2 = W2.last_F
    if F2.has_free():
        return []
    sig = [(F.name_in(i), F.size1_in(i)) for i in range(F.n_in())]
    sig2 = [(F2.name_in(i), F2.size1_in(i)) for i in range(F2.n_in())]
    if sig != sig2 or F.name_out() != F2.name_out():
        return [f"content: arguments/results {sig} {F.name_out()} differ from those of the forgetting reference {sig2} {F2.name_out()}"]
    rng = random.Random(len(h) * 131 + 5)
    args = [np.array([rng.uniform(5.0, 60.0) for _ in range(n)]) for _, n in sig]
    a = F(*args)
    b = F2(*args)
    a = a if isinstance(a, (list, tuple)) else [a]
    b = b if isinstance(b, (list, tuple)) else [b]
    msgs = []
    for nm, x, y in zip(F.name_out(), a, b):
        x = np.array(x, dtype=float).reshape(-1)
        y = np.array(y, dtype=float).reshape(-1)
        if x.shape != y.shape or not np.allclose(x, y, rtol=1e-9, atol=1e-9, equal_nan=True):
            msgs.append(f"content: result {nm} = {x.tolist()} is not that of the most recent step {y.tolist()} "
                        f"(arguments {[v.tolist() for v in args]})")
            break
    return msgs


def direct_keys(h, sym, ramp):
    """keys of the direct-oracle failures of a lifecycle history (as in run_C19, without the model)"""
    W = World(sym, ramp)
    shadow = Shadow()
    keys = set()
    for oi, op in enumerate(h):
        r = W.apply(op)
        shadow.apply(op, r)
        if op[0] == "tofun":
            must_raise = shadow.must_raise(W)
            if r.startswith("function"):
                F = W.last_F
                if must_raise:
                    keys.add("C19:returned:" + must_raise.split(":")[0])
                if F.has_free():
                    keys.add("C19:free")
                for msg in reflects_last_step(W, F) + content_is_latest(h[:oi + 1], sym, ramp, F) + levels_agree(W, F):
                    keys.add("C19:stale:" + msg.split(":")[0])
            elif r != "RuntimeError":
                keys.add("C19:error-class")
    return keys


def shrink(failure):
    key = failure.get("key")
    if "history" not in failure or not key:
        return failure
    sym, ramp = failure.get("sym", "SX"), failure.get("ramp", "metered")
    h = [tuple(op) for op in failure["history"]]
    try:
        if key not in direct_keys(h, sym, ramp):
            return failure
        changed = True
        while changed:
            changed = False
            for i in range(len(h) - 1):           # (the final to_function stays)
                h2 = h[:i] + h[i + 1:]
                if key in direct_keys(h2, sym, ramp):
                    h = h2
                    changed = True
                    break
    except Exception:
        return failure
    if len(h) < len(failure["history"]):
        failure = dict(failure, history=h, shrunk_from=len(failure["history"]),
                       what=failure["what"] + f"  [minimised history: {h}]")
    return failure


def replay(failure):
    import json
    print(json.dumps(failure, indent=1, default=str)[:3000])
    W = World(failure.get("sym", "SX"), failure.get("ramp", "metered"))
    for op in failure["history"]:
        print(op, "->", W.apply(tuple(op)))
    return 0
