"""Parser / float evaluator for the prefix token strings printed by Expr.show.

eval_tree returns (value, maxmag, branches): maxmag is the largest finite
intermediate magnitude (used in the comparison tolerance), branches the set of
(node index, side) taken at every min / max / iflt node.
"""
import math

import numpy as np

ARITY = {"+": 2, "-": 2, "*": 2, "/": 2, "~": 1, "sq": 1, "exp": 1, "log": 1, "pow": 2,
         "min": 2, "max": 2, "iflt": 4}


def parse(s):
    toks = s.split()
    pos = 0

    def rec():
        nonlocal pos
        t = toks[pos]
        k = pos
        pos += 1
        if t[0] == "$":
            return ("var", t[1:])
        if t[0] == "#":
            num, den = t[1:].split("/")
            return ("cst", int(num) / int(den))
        n = ARITY[t]
        return (t, k) + tuple(rec() for _ in range(n))

    tree = rec()
    if pos != len(toks):
        raise ValueError("trailing tokens in tree")
    return tree


def tree_vars(tree, acc=None):
    if acc is None:
        acc = set()
    if tree[0] == "var":
        acc.add(tree[1])
    elif tree[0] != "cst":
        for sub in tree[2:]:
            tree_vars(sub, acc)
    return acc


def tree_size(tree):
    if tree[0] in ("var", "cst"):
        return 1
    return 1 + sum(tree_size(s) for s in tree[2:])


def count_branch_nodes(tree):
    if tree[0] in ("var", "cst"):
        return 0
    return (1 if tree[0] in ("min", "max", "iflt") else 0) + sum(count_branch_nodes(s) for s in tree[2:])


class Ev:
    def __init__(self, env):
        self.env = env
        self.maxmag = 0.0
        self.branches = set()
        self.nonfinite = False

    def note(self, x):
        if math.isfinite(x):
            ax = abs(x)
            if ax > self.maxmag:
                self.maxmag = ax
        else:
            self.nonfinite = True
        return x

    def ev(self, t):
        op = t[0]
        if op == "var":
            return self.note(float(self.env[t[1]]))
        if op == "cst":
            return t[1]
        k = t[1]
        with np.errstate(all="ignore"):
            if op == "iflt":
                a = self.ev(t[2])
                b = self.ev(t[3])
                if a < b:
                    self.branches.add((k, 0))
                    return self.note(self.ev(t[4]))
                self.branches.add((k, 1))
                return self.note(self.ev(t[5]))
            a = np.float64(self.ev(t[2]))
            if op == "~":
                return self.note(float(-a))
            if op == "sq":
                return self.note(float(a * a))
            if op == "exp":
                return self.note(float(np.exp(a)))
            if op == "log":
                return self.note(float(np.log(a)))
            b = np.float64(self.ev(t[3]))
            if op == "+":
                r = a + b
            elif op == "-":
                r = a - b
            elif op == "*":
                r = a * b
            elif op == "/":
                r = a / b
            elif op == "pow":
                r = np.power(a, b)
            elif op == "min":
                self.branches.add((k, 0 if a <= b else 1))
                r = np.minimum(a, b)
            elif op == "max":
                self.branches.add((k, 0 if a >= b else 1))
                r = np.maximum(a, b)
            else:
                raise ValueError(op)
            return self.note(float(r))


def eval_tree(tree, env):
    e = Ev(env)
    v = e.ev(tree)
    return v, e.maxmag, e.branches, e.nonfinite


def close(a, b, scale, rtol=1e-9):
    if math.isnan(a) and math.isnan(b):
        return True
    if math.isinf(a) or math.isinf(b):
        return a == b
    return abs(a - b) <= rtol * (1.0 + abs(a) + abs(b) + scale)
