"""History slice: construction calls interleaved with look-up reads (C08, C09).

Histories over a small universe are run on the implementation and on the Coq model
(Construct.v + Cache.v with the invalidation table regenerated from network.py); after every
operation the exception class, the graph and - for reads - the returned value are compared.
Direct oracles: every look-up against a fresh Network sharing the same graph (C08); type of
every graph node / edge attribute and the documented path grammar (C09).
"""
import itertools
import random

from harness import dyn, impl

HEADER = ("From Coq Require Import List String.\n"
          "From SM Require Import Graph Expr Construct Cache CSym.\nFrom SM.gen Require Import Tables.\n"
          "Import ListNotations.\nSet Printing Width 1000000.\nSet Printing Depth 1000000.\n")

KEYS = ["nodes_by_name", "links_by_name", "nodes_by_link", "origins", "origins_by_name",
        "origins_by_node", "destinations", "destinations_by_name", "destinations_by_node"]
COQ_KEY = {"nodes_by_name": "KNodesByName", "links_by_name": "KLinksByName", "nodes_by_link": "KNodesByLink",
           "origins": "KOrigins", "origins_by_name": "KOriginsByName", "origins_by_node": "KOriginsByNode",
           "destinations": "KDests", "destinations_by_name": "KDestsByName",
           "destinations_by_node": "KDestsByNode"}
NN, NL, NO, ND, NX = 3, 3, 2, 2, 2


class IdAssoc:
    """insertion-ordered association list keyed by object identity (the last value given for a key wins, its
    position is that of its first insertion - as in a dict, but never merging two different objects)"""

    def __init__(self, pairs=()):
        self._p = []
        for k, v in pairs:
            for q in self._p:
                if q[0] is k:
                    q[1] = v
                    break
            else:
                self._p.append([k, v])

    def items(self):
        return [(k, v) for k, v in self._p]


class World:
    """the Python objects of a history: name ids are given by `names` (colliding or not)"""

    def __init__(self, names):
        from sym_metanet import (CongestedDestination, Destination, Link, MainstreamOrigin,
                                 MeteredOnRamp, Network, Node)
        self.names = names
        self.net = Network()
        self.n = [Node(name=f"N{names['n'][i]}") for i in range(NN)]
        self.l = [Link(2, 2, 1.0, 180.0, 33.0, 100.0, 1.8, name=f"N{names['l'][i]}") for i in range(NL)]
        self.o = [MainstreamOrigin(name=f"N{names['o'][0]}"), MeteredOnRamp(2000.0, name=f"N{names['o'][1]}")]
        self.d = [Destination(name=f"N{names['d'][0]}"), CongestedDestination(name=f"N{names['d'][1]}")]
        self.x = ["a string", 42]
        self.ids = {}
        for k, lst in (("n", self.n), ("l", self.l), ("x", self.x)):
            for i, ob in enumerate(lst):
                self.ids[id(ob)] = f"{k}{i}"
        self.oid = {id(ob): i for i, ob in enumerate(self.o)}
        self.did = {id(ob): i for i, ob in enumerate(self.d)}

    def as_iterable(self, lst):
        """the bulk calls take any iterable: lists, tuples, generators, iterators, zip - cycled through deterministically"""
        self.calls = getattr(self, "calls", 0) + 1
        kind = self.calls % 4
        if kind == 0:
            return lst
        if kind == 1:
            return tuple(lst)
        if kind == 2:
            return (x for x in lst)
        return iter(lst)

    def obj(self, tok):
        return {"n": self.n, "l": self.l, "x": self.x}[tok[0]][int(tok[1:])]

    def show(self, ob):
        return self.ids.get(id(ob), f"?{type(ob).__name__}")

    def apply(self, op):
        """returns exception class name or 'ok'"""
        net = self.net
        try:
            k = op[0]
            # every third construction call passes ALL its arguments by keyword (the documented parameter names)
            self.kwcalls = getattr(self, "kwcalls", 0) + (k in ("node", "nodes", "link", "links", "origin", "dest", "path"))
            bykw = self.kwcalls % 3 == 0
            if k == "node":
                net.add_node(node=self.obj(op[1])) if bykw else net.add_node(self.obj(op[1]))
            elif k == "nodes":
                it_ = self.as_iterable([self.obj(t) for t in op[1]])
                net.add_nodes(nodes=it_) if bykw else net.add_nodes(it_)
            elif k == "link":
                if bykw:
                    net.add_link(node_up=self.obj(op[1]), link=self.obj(op[2]), node_down=self.obj(op[3]))
                else:
                    net.add_link(self.obj(op[1]), self.obj(op[2]), self.obj(op[3]))
            elif k == "links":
                it_ = self.as_iterable([(self.obj(a), self.obj(b), self.obj(c)) for (a, b, c) in op[1]])
                net.add_links(links=it_) if bykw else net.add_links(it_)
            elif k == "links_bad":          # a bulk call that fails half-way: the last tuple lacks its downstream node
                net.add_links([(self.obj(a), self.obj(b), self.obj(c)) for (a, b, c) in op[1]] + [(self.obj(op[2][0]), self.obj(op[2][1]))])
            elif k == "nodes_bad":          # ... a None among the nodes
                net.add_nodes([self.obj(t) for t in op[1]] + [None] + [self.obj(t) for t in op[2]])
            elif k == "link_bad":           # ... add_link towards None
                net.add_link(self.obj(op[1]), self.obj(op[2]), None)
            elif k == "origin":
                if bykw:
                    net.add_origin(origin=self.o[op[1]], node=self.obj(op[2]))
                else:
                    net.add_origin(self.o[op[1]], self.obj(op[2]))
            elif k == "dest":
                if bykw:
                    net.add_destination(destination=self.d[op[1]], node=self.obj(op[2]))
                else:
                    net.add_destination(self.d[op[1]], self.obj(op[2]))
            elif k == "path":
                if bykw:
                    net.add_path(path=[self.obj(t) for t in op[1]],
                                 origin=None if op[2] is None else self.o[op[2]],
                                 destination=None if op[3] is None else self.d[op[3]])
                else:
                    net.add_path([self.obj(t) for t in op[1]],
                                 None if op[2] is None else self.o[op[2]],
                                 None if op[3] is None else self.d[op[3]])
            elif k == "read":
                return "ok", self.show_lookup(op[1], getattr(net, op[1]))
            return "ok", ""
        except Exception as ex:
            return type(ex).__name__, ""

    def show_graph(self, net=None):
        net = net or self.net
        G = net.graph
        ns = []
        for nd, data in G.nodes.data():
            o = data.get("origin")
            d = data.get("destination")
            ns.append(f"{self.show(nd)}:{'-' if o is None else self.oid.get(id(o), '?')}:"
                      f"{'-' if d is None else self.did.get(id(d), '?')}")
        ls = []
        for u in G.nodes:
            for v, data in G.succ[u].items():
                ls.append(f"{self.show(u)}>{self.show(data.get('link'))}>{self.show(v)}")
        return "nodes " + ",".join(ns) + " links " + ",".join(ls)

    def nameid(self, s):
        return s[1:] if isinstance(s, str) and s.startswith("N") else f"?{s}"

    def oshow(self, x):
        """identifier of an origin object; anything else that turns up in an origin look-up is shown as such"""
        return self.oid[id(x)] if id(x) in self.oid else f"<{type(x).__name__} {getattr(x, 'name', '?')}>"

    def dshow(self, x):
        return self.did[id(x)] if id(x) in self.did else f"<{type(x).__name__} {getattr(x, 'name', '?')}>"

    def show_lookup(self, key, val):
        if key in ("nodes_by_name", "links_by_name"):
            return ",".join(f"{self.nameid(k)}={self.show(v)}" for k, v in val.items())
        if key == "nodes_by_link":
            return ",".join(f"{self.show(k)}={self.show(v[0])}>{self.show(v[1])}" for k, v in val.items())
        if key == "origins":
            return ",".join(f"{self.oshow(k)}={self.show(v)}" for k, v in val.items())
        if key == "destinations":
            return ",".join(f"{self.dshow(k)}={self.show(v)}" for k, v in val.items())
        if key == "origins_by_name":
            return ",".join(f"{self.nameid(k)}={self.oshow(v)}" for k, v in val.items())
        if key == "destinations_by_name":
            return ",".join(f"{self.nameid(k)}={self.dshow(v)}" for k, v in val.items())
        if key == "origins_by_node":
            return ",".join(f"{self.show(k)}={self.oshow(v)}" for k, v in val.items())
        if key == "destinations_by_node":
            return ",".join(f"{self.show(k)}={self.dshow(v)}" for k, v in val.items())
        raise KeyError(key)

    def fresh_lookups(self):
        """every look-up recomputed from the raw networkx graph (node order, per node its successors in adjacency
        order = the documented enumeration order of Network.links), with nothing of the library in between"""
        G = self.net._graph
        links = [(u, v, data.get("link")) for u in G.nodes for v, data in G.succ[u].items()]
        raw = {}
        try:
            raw["nodes_by_name"] = {n.name: n for n in G.nodes}
            raw["links_by_name"] = {l.name: l for (_, _, l) in links}
            # look-ups keyed by ELEMENTS are recomputed by object identity (two different elements are two keys
            # whatever their names or any notion of equality between elements)
            raw["nodes_by_link"] = IdAssoc((l, (u, v)) for (u, v, l) in links)
            raw["origins"] = IdAssoc((d["origin"], n) for n, d in G.nodes.data() if "origin" in d)
            raw["destinations"] = IdAssoc((d["destination"], n) for n, d in G.nodes.data() if "destination" in d)
            raw["origins_by_name"] = {o.name: o for o, _ in raw["origins"].items()}
            raw["destinations_by_name"] = {o.name: o for o, _ in raw["destinations"].items()}
            raw["origins_by_node"] = IdAssoc((n, o) for o, n in raw["origins"].items())
            raw["destinations_by_node"] = IdAssoc((n, o) for o, n in raw["destinations"].items())
        except Exception as ex:       # (a non-element in the graph: the C09 oracle reports it)
            return {k: f"<raised {type(ex).__name__}>" for k in KEYS}
        out = {}
        for k in KEYS:
            try:
                out[k] = self.show_lookup(k, raw[k])
            except Exception as ex:
                out[k] = f"<raised {type(ex).__name__}>"
        return out

    def per_node_links(self):
        """(library answer, recomputation from the raw graph) of the entering and leaving links of every node, of
        a pair of nodes at once, and of the whole-network link enumeration"""
        G = self.net._graph
        bad = []

        def fmt(it):
            return sorted(f"{self.show(u)}>{self.show(l)}>{self.show(v)}" for (u, v, l) in it)
        try:
            nodes = list(G.nodes)
            for n in nodes:
                exp_in = fmt((u, n, d.get("link")) for u, d in G.pred[n].items())
                exp_out = fmt((n, v, d.get("link")) for v, d in G.succ[n].items())
                got_in, got_out = fmt(self.net.in_links(n)), fmt(self.net.out_links(n))
                if got_in != exp_in:
                    bad.append(f"in_links({self.show(n)}) = {got_in}, the graph has {exp_in}")
                if got_out != exp_out:
                    bad.append(f"out_links({self.show(n)}) = {got_out}, the graph has {exp_out}")
            if len(nodes) >= 2:
                two = nodes[:2]
                exp = fmt((n, v, d.get("link")) for n in two for v, d in G.succ[n].items())
                got = fmt(self.net.out_links(two))
                if got != exp:
                    bad.append(f"out_links([{self.show(two[0])}, {self.show(two[1])}]) = {got}, the graph has {exp}")
            for u in G.nodes:
                for v, d in G.succ[u].items():
                    for nm_, view in (("links", self.net.links), ("out_links", self.net.out_links), ("in_links", self.net.in_links)):
                        got = view[u, v]
                        if got is not d.get("link"):
                            bad.append(f"{nm_}[{self.show(u)}, {self.show(v)}] is {self.show(got)}, the edge carries {self.show(d.get('link'))}")
            exp_all = fmt((u, v, d.get("link")) for u in G.nodes for v, d in G.succ[u].items())
            got_all = fmt(self.net.links)
            if got_all != exp_all:
                bad.append(f"iterating net.links gives {got_all}, the graph has {exp_all}")
        except Exception as ex:
            if all(hasattr(n, "name") for n in G.nodes):
                bad.append(f"per-node link queries raised {ex!r:.120}")
        return bad

    def safe_lookup(self, net, k):
        """a look-up may itself raise once the graph holds something that is no element (reported by the C09
        oracle); that must not stop the run"""
        try:
            return self.show_lookup(k, getattr(net, k))
        except Exception as ex:
            return f"<raised {type(ex).__name__}>"

    def current_lookups(self):
        return {k: self.safe_lookup(self.net, k) for k in KEYS}


# ---------------------------------------------------------------------------
def coq_obj(tok):
    return {"n": "ONode", "l": "OLink", "x": "OOther"}[tok[0]] + f" {tok[1:]}%nat"


def coq_opt(x):
    return "None" if x is None else f"(Some {x}%nat)"


def coq_op(op):
    k = op[0]
    if k == "node":
        return f"HPrim (PAddNode ({coq_obj(op[1])}))"
    if k == "nodes":
        return "HAddNodes [" + "; ".join(coq_obj(t) for t in op[1]) + "]"
    if k == "link":
        return f"HPrim (PAddLink ({coq_obj(op[1])}) ({coq_obj(op[2])}) ({coq_obj(op[3])}))"
    if k == "links":
        return "HAddLinks [" + "; ".join(f"({coq_obj(a)}, {coq_obj(b)}, {coq_obj(c)})" for (a, b, c) in op[1]) + "]"
    if k == "origin":
        return f"HPrim (PAddOrigin {op[1]}%nat ({coq_obj(op[2])}))"
    if k == "dest":
        return f"HPrim (PAddDestination {op[1]}%nat ({coq_obj(op[2])}))"
    if k == "path":
        return "HAddPath [" + "; ".join(coq_obj(t) for t in op[1]) + f"] {coq_opt(op[2])} {coq_opt(op[3])}"
    if k == "read":
        return f"HRead {COQ_KEY[op[1]]}"
    raise KeyError(k)


def coq_names(names):
    def fn(lst):
        return "(fun k => nth k [" + "; ".join(f"{v}%nat" for v in lst) + "] 99%nat)"
    return ("{| obj_name := fun x => match x with ONode k => " + fn(names["n"])[1:-1].replace("fun k => ", "", 1)
            + " | OLink k => " + fn(names["l"])[1:-1].replace("fun k => ", "", 1) + " | OOther k => 98%nat end; "
            f"orig_name := {fn(names['o'])}; dest_name := {fn(names['d'])} |}}")


def model_run(histories):
    # (bulk calls that fail half-way are not operations of the model: such histories are judged by the direct
    # oracles only; a placeholder keeps the indices aligned)
    terms = [f"run_history gen_invalidates {coq_names(nm)} [" +
             "; ".join(coq_op(o) for o in (h if not any(o[0].endswith("_bad") for o in h) else [])) + "]"
             for (nm, h) in histories]
    res, _ = dyn.cached_eval(terms, HEADER)
    return res


# ---------------------------------------------------------------------------
def default_names():
    return {"n": [0, 1, 2], "l": [10, 11, 12], "o": [20, 21], "d": [30, 31]}


def colliding_names(rng):
    nm = default_names()
    which = rng.choice(["n", "l", "o", "d", "all"])
    for k in (["n", "l", "o", "d"] if which == "all" else [which]):
        nm[k] = [nm[k][0]] * len(nm[k]) if rng.random() < 0.5 else [rng.choice(nm[k]) for _ in nm[k]]
    return nm


NODES = [f"n{i}" for i in range(NN)]
LINKS = [f"l{i}" for i in range(NL)]
OTHERS = [f"x{i}" for i in range(NX)]


def random_op(rng, p_read=0.35):
    r = rng.random()
    if r < p_read:
        return ("read", rng.choice(KEYS))
    k = rng.choice(["node", "nodes", "link", "link", "links", "origin", "dest", "path", "path"])
    if k == "node":
        return ("node", rng.choice(NODES))
    if k == "nodes":
        return ("nodes", [rng.choice(NODES) for _ in range(rng.randint(0, 3))])
    if k == "link":
        return ("link", rng.choice(NODES), rng.choice(LINKS), rng.choice(NODES))
    if k == "links":
        return ("links", [(rng.choice(NODES), rng.choice(LINKS), rng.choice(NODES)) for _ in range(rng.randint(0, 3))])
    if k == "origin":
        return ("origin", rng.randrange(NO), rng.choice(NODES))
    if k == "dest":
        return ("dest", rng.randrange(ND), rng.choice(NODES))
    return random_path(rng)


def random_path(rng, well_formed_p=0.5):
    o = rng.choice([None, 0, 1])
    d = rng.choice([None, 0, 1])
    if rng.random() < well_formed_p:
        k = rng.randint(1, 3)
        items = [rng.choice(NODES)]
        for _ in range(k):
            items += [rng.choice(LINKS), rng.choice(NODES)]
        return ("path", items, o, d)
    n = rng.randint(0, 6)
    return ("path", [rng.choice(NODES + LINKS + OTHERS) for _ in range(n)], o, d)


def well_formed(items):
    if len(items) < 3 or len(items) % 2 == 0:
        return False
    return all((t[0] == "n") if i % 2 == 0 else (t[0] == "l") for i, t in enumerate(items))


def prim_ops():
    ops = [("node", n) for n in NODES[:2]]
    ops += [("link", "n0", "l0", "n1"), ("link", "n1", "l1", "n2"), ("link", "n0", "l1", "n1"),
            ("link", "n2", "l0", "n0")]
    ops += [("origin", 0, "n0"), ("origin", 1, "n0"), ("origin", 0, "n2"), ("dest", 0, "n1"), ("dest", 1, "n1"),
            ("dest", 0, "n2")]
    ops += [("nodes", ["n1", "n2"]), ("links", [("n1", "l2", "n0"), ("n2", "l2", "n2")]),
            ("path", ["n0", "l2", "n2"], 1, 1)]
    ops += [("read", k) for k in KEYS]
    return ops


def histories(ctx, exhaustive_len, n_random, max_len=14):
    rng = ctx["rng"]
    hs = []
    ops = prim_ops()
    for L in range(1, exhaustive_len + 1):
        for h in itertools.product(ops, repeat=L):
            # symmetry reduction: a history ending in a mutation observes nothing new
            if h[-1][0] != "read":
                continue
            if L >= 3 and all(o[0] == "read" for o in h[:-1]):
                continue
            hs.append((default_names(), list(h)))
    # calls that fail half-way (malformed paths: what was added before the failure stays), after every look-up
    # has been read and cached: nothing may be left stale by the part that did take effect
    reads = [("read", k) for k in KEYS]
    for items in (["n2"], ["n2", "n0"], ["n2", "x0"], ["n2", "l0"], ["n2", "l0", "x1"], ["n1", "l0", "n2", "l1"],
                  ["n2", "l1", "n0", "n1"], ["n1", "l2", "n2", "x0", "n0"]):
        for pre in ([], [("link", "n0", "l0", "n1")], [("path", ["n0", "l0", "n1"], 0, 0)]):
            for od in ((None, None), (1, None), (None, 1)):
                hs.append((default_names(), pre + reads + [("path", list(items), od[0], od[1])] + reads))
    for bad in (("links_bad", [("n1", "l1", "n2")], ("n2", "l2")), ("links_bad", [("n2", "l2", "n0"), ("n0", "l0", "n1")], ("n1", "l1")),
                ("nodes_bad", ["n2"], ["n1"]), ("nodes_bad", ["n1", "n2"], []), ("link_bad", "n2", "l2")):
        for pre in ([], [("link", "n0", "l0", "n1")]):
            hs.append((default_names(), pre + reads + [bad] + reads))
    for i in range(n_random):
        nm = default_names() if i % 3 else colliding_names(rng)
        hs.append((nm, [random_op(rng) for _ in range(rng.randint(2, max_len))]))
    return hs


def run_histories(ctx, hs, out, judge_c08=True, judge_c09=True, prefix="C08"):
    models = None
    if ctx["model_ok"]:
        try:
            models = model_run(hs)
        except Exception as ex:
            out["disagreements"].append({"what": "construction/cache model could not be evaluated", "error": str(ex)[-500:]})
    distinct = set()
    for hi, (nm, h) in enumerate(hs):
        W = World(nm)
        obs = []
        for oi, op in enumerate(h):
            err, val = W.apply(op)
            line = f"{err} | {W.show_graph()} | " + (f"{op[1]} {val}" if op[0] == "read" else "")
            obs.append(line)
            out["coverage"]["evaluations"] += 1
            # direct oracles -------------------------------------------------
            if judge_c08 and op[0] == "read" and err == "ok":
                fresh = W.fresh_lookups()[op[1]]
                if val != fresh:
                    out["failures"].append({"key": f"{prefix}:stale:{op[1]}", "history": h[:oi + 1], "names": nm,
                                            "what": f"after {short(h[:oi + 1])}: {op[1]} returns {{{val}}} but a recomputation "
                                                    f"from the graph gives {{{fresh}}}"})
            if judge_c09:
                for msg in c09_oracle(W, op, err):
                    out["failures"].append({"key": f"C09:{msg.split(':')[0]}", "history": h[:oi + 1], "names": nm,
                                            "what": f"after {short(h[:oi + 1])}: {msg}"})
        if judge_c08:
            for msg in W.per_node_links():
                out["failures"].append({"key": f"{prefix}:links:{msg.split('(')[0].split()[0]}", "history": h, "names": nm,
                                        "what": f"after {short(h)}: {msg}"})
            cur, fresh = W.current_lookups(), W.fresh_lookups()
            for k in KEYS:
                if cur[k] != fresh[k]:
                    out["failures"].append({"key": f"{prefix}:stale:{k}", "history": h + [("read", k)], "names": nm,
                                            "what": f"after {short(h)}: {k} returns {{{cur[k]}}} but a recomputation from "
                                                    f"the graph gives {{{fresh[k]}}}"})
        if models is not None and not any(o[0].endswith("_bad") for o in h):
            m = models[hi]
            if len(m) != len(obs):
                out["disagreements"].append({"what": f"model produced {len(m)} observations for {len(obs)} operations", "history": h})
            else:
                for oi, (a, b_) in enumerate(zip(obs, m)):
                    if a.strip() != b_.strip():
                        out["disagreements"].append({"what": f"operation {oi} of {short(h)}: implementation [{a}] model [{b_}]",
                                                     "history": h[:oi + 1], "names": nm})
                        # C09 is about exactly this observable: the construction model's graph after a call IS the
                        # graph the property describes (props/C09.v: prim_spec, path_spec); a different graph in the
                        # implementation is a failing history, not merely a broken tie
                        ga, gb = a.split(" | ")[1].strip(), b_.split(" | ")[1].strip()
                        if judge_c09 and ga != gb:
                            out["failures"].append({"key": f"C09:graph:{h[oi][0]}", "history": h[:oi + 1], "names": nm,
                                                    "what": f"after {short(h[:oi + 1])}: the graph is [{ga}], the calls describe [{gb}]"})
                        break
        if len(h) >= 2 and any(h[i][0] == "read" and any(o[0] != "read" for o in h[i + 1:]) for i in range(len(h))):
            distinct.add(repr(h))
    return distinct


def short(h):
    def s(op):
        if op[0] == "read":
            return f"read {op[1]}"
        return op[0] + "(" + ",".join(str(x) for x in op[1:]) + ")"
    return "; ".join(s(o) for o in h)


def c09_oracle(W, op, err):
    """direct checks on the implementation for one construction call"""
    from sym_metanet import Link, Node
    msgs = []
    G = W.net.graph
    for nd in G.nodes:
        if not isinstance(nd, Node):
            msgs.append(f"non-node: the object {nd!r} of type {type(nd).__name__} is a node of the graph")
    for u, v, data in G.edges(data=True):
        if not isinstance(data.get("link"), Link):
            msgs.append(f"non-link: edge {W.show(u)}->{W.show(v)} carries {data.get('link')!r}")
    if op[0] == "path":
        wf = well_formed(op[1])
        if wf and err != "ok":
            msgs.append(f"path-rejected: well-formed path {op[1]} raised {err}")
        if not wf and err == "ok":
            msgs.append(f"path-accepted: malformed path {op[1]} was accepted")
        if not wf and err not in ("ok", "TypeError", "ValueError", "StopIteration"):
            msgs.append(f"path-error: malformed path {op[1]} raised {err}")
    elif err != "ok" and not op[0].endswith("_bad"):
        msgs.append(f"call-raised: {op} raised {err}")
    return msgs


def new_outcome():
    return {"failures": [], "disagreements": [], "info": [],
            "coverage": {"evaluations": 0, "distinct_nontrivial": 0, "samples": []}}


def run_C08(ctx):
    out = new_outcome()
    quick = ctx["tier"] == "quick"
    hs = histories(ctx, 2 if quick else 3, 300 if quick else 6000)
    d = run_histories(ctx, hs, out, judge_c08=True, judge_c09=False)
    out["coverage"]["distinct_nontrivial"] = len(d)
    out["coverage"]["rule"] = ("histories over 3 nodes, 3 links, 2 origins, 2 destinations: exhaustive over 27 operations "
                               f"(9 reads + 18 construction calls incl. replacements, bulk calls and a path) up to length "
                               f"{2 if quick else 3} (ending in a read), random to length 14 with colliding names in a third; "
                               "distinct = operation sequences containing a mutation after a read")
    out["coverage"]["exhaustive_up_to_length"] = 2 if quick else 3
    out["coverage"]["samples"] = [{"history": short(hs[len(hs) // 2][1])}, {"history": short(hs[-1][1])}]
    out["coverage"]["traces_validated_against_impl"] = len(hs)
    return out


def run_C09(ctx):
    out = new_outcome()
    quick = ctx["tier"] == "quick"
    rng = ctx["rng"]
    hs = histories(ctx, 1, 150 if quick else 3000)
    # malformed-path stream: every path up to a length over {node, link, other}, with/without o, d
    alphabet = ["n0", "n1", "l0", "x0"]
    for L in range(0, 5 if quick else 7):
        for items in itertools.product(alphabet, repeat=L):
            if quick and L == 4 and rng.random() < 0.5:
                continue
            o, d = rng.choice([None, 0]), rng.choice([None, 1])
            hs.append((default_names(), [("path", list(items), o, d)]))
            if L >= 2 and rng.random() < 0.15:
                hs.append((default_names(), [("link", "n0", "l1", "n1"), ("path", list(items), 0, 0), ("read", "nodes_by_name")]))
    # the attachments are also observed through the public look-ups (a stale answer there misreports them)
    d_ = run_histories(ctx, hs, out, judge_c08=True, judge_c09=True, prefix="C09")
    out["coverage"]["distinct_nontrivial"] = len({repr(h) for _, h in hs if len(h) >= 1 and any(o[0] != "read" for o in h)})
    out["coverage"]["rule"] = ("construction histories (as C08) plus the malformed-path stream: every item sequence up to length "
                               f"{4 if quick else 6} over {{node, node, link, other}} with/without origin and destination; after "
                               "every call: exception class, node objects, edges and attachments vs the model; direct: every "
                               "graph node is a Node, every edge attribute a Link, the path grammar decides acceptance")
    out["coverage"]["samples"] = [{"history": short(hs[10][1])}, {"history": short(hs[-1][1])}]
    out["coverage"]["traces_validated_against_impl"] = len(hs)
    return out


def direct_keys(names, h):
    """keys of the direct-oracle failures (no model needed) a history produces"""
    W = World(names)
    keys = set()
    for op in h:
        err, val = W.apply(op)
        if op[0] == "read" and err == "ok" and val != W.fresh_lookups()[op[1]]:
            keys.add("stale:" + op[1])
        for msg in c09_oracle(W, op, err):
            keys.add("C09:" + msg.split(":")[0])
    cur, fresh = W.current_lookups(), W.fresh_lookups()
    for k in KEYS:
        if cur[k] != fresh[k]:
            keys.add("stale:" + k)
    return keys


def shrink(failure):
    """greedy one-at-a-time removal of operations while the same direct-oracle failure remains"""
    key = failure.get("key", "")
    want = ("stale:" + key.split(":stale:")[1]) if ":stale:" in key else (key if key.startswith("C09:") and ":graph:" not in key else None)
    if want is None or "history" not in failure:
        return failure
    names = failure.get("names") or default_names()

    def norm(h):
        out = []
        for op in h:
            op = tuple(op)
            if op[0] in ("nodes", "path"):
                op = (op[0], list(op[1])) + tuple(op[2:])
            if op[0] == "links":
                op = ("links", [tuple(t) for t in op[1]])
            out.append(op)
        return out
    h = norm(failure["history"])
    try:
        if want not in direct_keys(names, h):
            return failure
        changed = True
        while changed:
            changed = False
            for i in range(len(h)):
                h2 = h[:i] + h[i + 1:]
                if h2 and want in direct_keys(names, h2):
                    h = h2
                    changed = True
                    break
    except Exception:
        return failure
    if len(h) < len(failure["history"]):
        failure = dict(failure, history=h, shrunk_from=len(failure["history"]),
                       what=failure["what"] + f"  [minimised: the same failure after {short(h)}]")
    return failure


def replay(failure):
    import json
    print(json.dumps(failure, indent=1, default=str))
    W = World(failure.get("names") or default_names())
    for op in failure["history"]:
        op = tuple(op)
        if op[0] in ("nodes", "path"):
            op = (op[0], list(op[1])) + tuple(op[2:])
        if op[0] == "links":
            op = ("links", [tuple(t) for t in op[1]])
        print(op, "->", W.apply(op), "|", W.show_graph())
    print("current:", W.current_lookups())
    print("fresh:  ", W.fresh_lookups())
    return 0
