"""Engine-selection slice (C13): selection histories against EngineSel.v, and recording engines
showing that an explicit engine evaluates every primitive whatever is selected."""
import random
import sys

import numpy as np

from harness import dyn, impl, nets

HEADER = ("From Coq Require Import List String.\nFrom SM Require Import Expr EngineSel.\nFrom SM.gen Require Import Tables.\n"
          "Import ListNotations.\nLocal Open Scope string_scope.\n"
          "Set Printing Width 1000000.\nSet Printing Depth 1000000.\n"
          "Definition show_res (r : sel_res) : string := match r with\n"
          " | RNone => \"none\" | REngine e => \"engine \" ++ e_class e ++ \" \" ++ snat (e_id e)\n"
          " | RNotFound => \"notfound\" | RStepped e => \"stepped \" ++ e_class e ++ \" \" ++ snat (e_id e) end.\n"
          "Definition run_sel (ops : list sel_op) : list string :=\n"
          "  map show_res (snd (sel_run (all_fwd gen_calls) {| current := {| e_class := \"init\"; e_id := 0 |}; fresh := 1 |} ops)).\n")


def make_recording():
    from sym_metanet.engines.casadi import Engine as Cs
    from sym_metanet.engines.numpy import Engine as Np

    class Proxy:
        def __init__(self, target, log, group):
            self._t, self._log, self._g = target, log, group

        def __getattr__(self, name):
            f = getattr(self._t, name)

            def w(*a, **k):
                self._log.append(f"{self._g}.{name}")
                return f(*a, **k)
            return w

    def recording(base):
        class Rec(base):
            def __init__(self, *a, **k):
                super().__init__(*a, **k)
                self.log = []
                # the symbol type this engine was constructed for (CasADi engines)
                self.requested = (a[0] if a else k.get("sym_type", "SX")) if base is Cs else None

            @property
            def nodes(self):
                return Proxy(base.nodes.fget(self), self.log, "nodes")

            @property
            def links(self):
                return Proxy(base.links.fget(self), self.log, "links")

            @property
            def origins(self):
                return Proxy(base.origins.fget(self), self.log, "origins")

            @property
            def destinations(self):
                return Proxy(base.destinations.fget(self), self.log, "destinations")

            def __len__(self):
                # a user-defined engine may keep a table (of the variables it created, say) and report its length:
                # an engine whose table is empty is "falsy" - and still the engine that was passed
                return 0

            def var(self, *a, **k):
                self.log.append("var")
                return super().var(*a, **k)

            def vcat(self, *a):
                self.log.append("vcat")
                return super().vcat(*a)

            def max(self, *a):
                self.log.append("max")
                return super().max(*a)
        Rec.__name__ = "Rec" + base.__module__.split(".")[-1]
        return Rec
    return recording(Np), recording(Cs)


def use_instance(e, out, where):
    """engines.use(<instance of a user-defined engine class>); a refusal or any other error is a failing input of the clause
    'selecting by instance makes it the current engine' - not a reason for the harness to stop."""
    from sym_metanet import engines
    try:
        r = engines.use(e)
    except Exception as exn:
        out["failures"].append({"key": "C13:instance-refused", "where": where,
                                "what": f"use(<instance of {type(e).__name__}, a subclass of the shipped "
                                        f"{type(e).__mro__[1].__module__} engine>) raised {exn!r:.160}"})
        return False
    if r is not e or engines.get_current_engine() is not e:
        out["failures"].append({"key": "C13:use-instance", "where": where, "what": "use(instance) did not select that instance"})
        return False
    return True


def run_C13(ctx):
    import casadi as cs
    import sym_metanet
    from sym_metanet import engines
    from sym_metanet.errors import EngineNotFoundError
    out = {"failures": [], "disagreements": [], "info": [],
           "coverage": {"evaluations": 0, "distinct_nontrivial": 0, "samples": []}}
    rng = ctx["rng"]
    quick = ctx["tier"] == "quick"
    RecNp, RecCs = make_recording()
    saved = engines.get_current_engine()
    distinct = set()
    try:
        # ---------------- selection histories vs the model ----------------
        bad_names = ["foo", "", "num", "py", "casa", " numpy", "casadi, numpy", "NumPy", "casadi ", "np", "core", "__init__", "casadi.Engine", "numpy.Engine"]
        hist = []
        for _ in range(60 if quick else 600):
            h = []
            for _ in range(rng.randint(1, 8)):
                r = rng.random()
                if r < 0.25:
                    h.append(("name", rng.choice(["numpy", "casadi"])))
                elif r < 0.45:
                    h.append(("inst", rng.choice(["numpy", "casadi"]), 100 + rng.randrange(4)))
                elif r < 0.65:
                    h.append(("bad", rng.choice(bad_names)))
                elif r < 0.75:
                    h.append(("other", rng.choice(["object", "none", "int"])))
                elif r < 0.82:
                    # the caller edits the listing it was handed (adds a private alias, drops an entry it does not
                    # want to display): its own copy - what can be selected does not change
                    h.append(("listing", rng.choice(["alias", "pop"])))
                elif r < 0.9:
                    h.append(("get",))
                else:
                    h.append(("step", rng.choice([None, ("numpy", 200), ("casadi", 201)])))
            hist.append(h)
        # every unknown name once (also names that differ from a known one by letter case only), from a known selection
        for bn in bad_names + ["NUMPY", "Numpy", "CASADI", "CasADi", "Casadi"]:
            hist.append([("name", "numpy"), ("bad", bn), ("get",)])
        models = None
        if ctx["model_ok"]:
            def coq_op(op):
                if op[0] == "name":
                    return f'UseName "{op[1]}"'
                if op[0] == "bad":
                    return f'UseName "{op[1]}"'
                if op[0] == "inst":
                    return f'UseInstance {{| e_class := "{op[1]}"; e_id := {op[2]} |}}'
                if op[0] == "other":
                    return "UseOther"
                if op[0] in ("get", "listing"):
                    return "Get"
                if op[1] is None:
                    return "Step None"
                return f'Step (Some {{| e_class := "{op[1][0]}"; e_id := {op[1][1]} |}})'
            try:
                models, _ = dyn.cached_eval(["run_sel [" + "; ".join(coq_op(o) for o in h) + "]" for h in hist], HEADER)
            except Exception as ex:
                out["disagreements"].append({"what": "selection model could not be evaluated", "error": str(ex)[-400:]})
        net0 = nets.families(random.Random(1))[12]
        for hi, h in enumerate(hist):
            insts = {}
            init = RecNp()
            if not use_instance(init, out, h):
                break
            ids = {id(init): ("init", 0)}
            fresh = [1]

            def ident(e):
                if id(e) not in ids:
                    cls = "numpy" if isinstance(e, engines.numpy.Engine if hasattr(engines, "numpy") else ()) else None
                    from sym_metanet.engines.numpy import Engine as NpE
                    cls = "numpy" if isinstance(e, NpE) else "casadi"
                    ids[id(e)] = (cls, fresh[0])
                return ids[id(e)]
            obs = []
            keep = []
            for op in h:
                before = engines.get_current_engine()
                try:
                    if op[0] in ("name", "bad"):
                        e = engines.use(op[1])
                        keep.append(e)
                        ids[id(e)] = ("numpy" if op[1] == "numpy" else "casadi", fresh[0])
                        fresh[0] += 1
                        obs.append("engine %s %d" % ids[id(e)])
                        if engines.get_current_engine() is not e:
                            out["failures"].append({"key": "C13:use-not-current", "history": h, "what": f"use({op[1]!r}) returned an engine that is not the current one"})
                        if op[0] == "bad":
                            out["failures"].append({"key": "C13:unknown-accepted", "history": h,
                                                    "what": f"use({op[1]!r}) - not the name of an available engine - was accepted and selected a {type(e).__name__}"})
                    elif op[0] == "inst":
                        key = (op[1], op[2])
                        if key not in insts:
                            insts[key] = RecNp() if op[1] == "numpy" else RecCs()
                            ids[id(insts[key])] = key
                        e = engines.use(insts[key])
                        obs.append("engine %s %d" % ids[id(e)])
                        if e is not insts[key] or engines.get_current_engine() is not insts[key]:
                            out["failures"].append({"key": "C13:use-instance", "history": h, "what": "use(instance) did not select that instance"})
                    elif op[0] == "other":
                        engines.use({"object": object(), "none": None, "int": 42}[op[1]])
                        obs.append("engine ? ?")
                    elif op[0] == "listing":
                        d_ = engines.get_available_engines()
                        if op[1] == "alias":
                            d_["np"] = dict(d_.get("numpy", {}))
                        else:
                            d_.pop("casadi", None)
                        obs.append("engine %s %d" % ids[id(engines.get_current_engine())])
                    elif op[0] == "get":
                        obs.append("engine %s %d" % ids[id(engines.get_current_engine())])
                    elif op[0] == "step":
                        ex = None
                        if op[1] is not None:
                            ex = RecNp() if op[1][0] == "numpy" else RecCs()
                            ids[id(ex)] = op[1]
                        sel = engines.get_current_engine()
                        R = impl.Real(net0, nets.random_params(net0, rng))
                        if hasattr(sel, "log"):
                            del sel.log[:]
                        with np.errstate(all="ignore"):
                            R.net.step(engine=ex, **R.step_kwargs())
                        used = ex if ex is not None else sel
                        if ex is not None and getattr(sel, "log", []):
                            obs.append("stepped %s %d" % ids[id(sel)])
                        else:
                            obs.append("stepped %s %d" % ids[id(used)])
                        if engines.get_current_engine() is not sel:
                            out["failures"].append({"key": "C13:step-writes-selection", "history": h, "what": "a step changed the selected engine"})
                except EngineNotFoundError as exn:
                    obs.append("notfound")
                    if op[0] == "name":
                        out["failures"].append({"key": "C13:known-refused", "history": h,
                                                "what": f"use({op[1]!r}) - the name of an available engine - was refused: {exn!s:.120}"})
                    if op[0] == "inst":
                        out["failures"].append({"key": "C13:instance-refused", "history": h,
                                                "what": f"use(<instance of a {op[1]} engine subclass>) was refused: {exn!s:.120}"})
                    if engines.get_current_engine() is not before:
                        out["failures"].append({"key": "C13:refused-but-changed", "history": h, "what": f"{op}: refused but the selection changed"})
                except Exception as exn:
                    obs.append(f"raised {type(exn).__name__}")
                    if op[0] in ("bad", "other"):
                        out["failures"].append({"key": f"C13:wrong-error:{type(exn).__name__}", "history": h,
                                                "what": f"use({op[1]!r}) raised {type(exn).__name__}: {exn!s:.100} instead of the engine-not-found error"})
                out["coverage"]["evaluations"] += 1
            if models is not None and obs != models[hi]:
                out["disagreements"].append({"what": f"selection history {h}: implementation {obs} model {models[hi]}"})
            distinct.add(repr(h))
        # ---------------- explicit engine honoured: recording engines ----------------
        fam = nets.families(rng) + [nets.random_valid(rng, 6) for _ in range(4 if quick else 40)]
        if quick:
            fam = [n for i, n in enumerate(fam) if i % 3 == 0 or "interior" in n.family or "junction" in n.family
                   or "merge" in n.family or "vsl" in n.family]
        sites_hit = set()
        from translator import forwarding
        for ni, net in enumerate(fam):
            pv = nets.random_params(net, rng)
            def sym_types_of(engine_):
                """wrong symbol types among the variables of the elements, for a CasADi engine built for one type"""
                import casadi as cs_
                bad_ = []
                if getattr(engine_, "requested", None):
                    for el_ in list(R.links.values()) + [o_ for o_ in R.origins.values() if o_.states]:
                        for grp_ in (el_.states, el_.next_states, el_.actions, el_.disturbances):
                            for nm_, x_ in (grp_ or {}).items():
                                if isinstance(x_, (cs_.SX, cs_.MX)) and type(x_).__name__ != engine_.requested:
                                    bad_.append(f"{nm_} of {el_.name} is {type(x_).__name__}")
                return bad_
            for (mk_sel, mk_ex) in [(RecNp, RecCs), (RecCs, RecNp), (lambda: RecCs("MX"), RecNp), (RecNp, lambda: RecCs("MX")),
                                    (RecNp, RecNp), (RecCs, RecCs), (lambda: RecCs("MX"), RecCs), (RecCs, lambda: RecCs("MX"))]:
                sel, ex = mk_sel(), mk_ex()
                if not use_instance(sel, out, net.to_json()):
                    continue
                R = impl.Real(net, pv)
                opts = nets.opts_kwargs({k: rng.random() < 0.5 for k in nets.OPT_KW})
                try:
                    with np.errstate(all="ignore"):
                        R.net.step(engine=ex, **opts, **R.step_kwargs())
                except Exception as exn:
                    out["failures"].append({"key": "C13:explicit-raise", "net": net.to_json(),
                                            "what": f"selected {type(sel).__name__}, explicit {type(ex).__name__}: step raised {exn!r:.200}"})
                    continue
                out["coverage"]["evaluations"] += 1
                distinct.add((nets_key(net), type(sel).__name__, type(ex).__name__))
                if sel.log:
                    out["failures"].append({"key": "C13:selected-used:" + sorted(set(sel.log))[0], "net": net.to_json(),
                                            "what": f"explicit {type(ex).__name__} passed but the selected {type(sel).__name__} "
                                                    f"evaluated {sorted(set(sel.log))} ({net.family})"})
                if not ex.log:
                    out["failures"].append({"key": "C13:explicit-unused", "net": net.to_json(), "what": "explicit engine evaluated nothing"})
                if engines.get_current_engine() is not sel:
                    out["failures"].append({"key": "C13:step-writes-selection", "net": net.to_json(), "what": "the step changed the selection"})
                for msg_ in sym_types_of(ex)[:1]:
                    out["failures"].append({"key": "C13:symbol-type", "net": net.to_json(),
                                            "what": f"explicit CasADi engine built for {ex.requested} (selected: a {type(sel).__name__}"
                                                    f"{' built for ' + sel.requested if getattr(sel, 'requested', None) else ''}): {msg_}"})
                want_np = "numpy" in type(ex).__mro__[1].__module__
                for el in list(R.links.values()) + [o for o in R.origins.values() if o.states]:
                    for grp in (el.states, el.next_states):
                        for nm, x in (grp or {}).items():
                            is_np = isinstance(x, (np.ndarray, np.floating, float))
                            if is_np != want_np:
                                out["failures"].append({"key": "C13:type", "net": net.to_json(),
                                                        "what": f"{nm} of {el.name} has type {type(x).__name__} under explicit {type(ex).__name__}"})
                # ---- the same network stepped again WITHOUT an engine: the selected engine does the work, not the one
                # that was passed before
                del sel.log[:]
                del ex.log[:]
                try:
                    with np.errstate(all="ignore"):
                        R.net.step(**opts, **R.step_kwargs())
                    out["coverage"]["evaluations"] += 1
                    for msg_ in sym_types_of(sel)[:1]:
                        out["failures"].append({"key": "C13:symbol-type-selected", "net": net.to_json(),
                                                "what": f"step without engine, selected CasADi engine built for {sel.requested} (another CasADi engine "
                                                        f"built for {getattr(ex, 'requested', None)} exists): {msg_}"})
                    if ex.log or not sel.log:
                        out["failures"].append({"key": "C13:engine-remembered", "net": net.to_json(),
                                                "what": f"selected {type(sel).__name__}; network stepped with an explicit {type(ex).__name__}, then "
                                                        f"stepped again without an engine: the earlier explicit engine evaluated {sorted(set(ex.log))[:4]}, "
                                                        f"the selected one {sorted(set(sel.log))[:4]}"})
                    with np.errstate(all="ignore"):
                        R.net.step(engine=ex, **opts, **R.step_kwargs())      # (back to the state the next blocks expect)
                except Exception as exn:
                    out["failures"].append({"key": "C13:engineless-restep-raise", "net": net.to_json(),
                                            "what": f"stepping again without an engine (selected {type(sel).__name__}) raised {exn!r:.200}"})
                del sel.log[:]
                # ---- element-level calls (no re-initialisation) with ANOTHER engine object of the same kind: that
                # engine is asked for every primitive the whole-network step needed - nothing an earlier engine
                # computed is re-used - and the first engine and the selected one are asked nothing
                full = {x for x in ex.log if "." in x}          # the model primitives (nodes. / links. / origins. / destinations.)
                ex3 = mk_ex()
                del ex.log[:]
                try:
                    with np.errstate(all="ignore"):
                        for el in list(R.origins.values()) + list(R.links.values()):
                            if el in set(R.net.elements):
                                el.step(net=R.net, engine=ex3, **opts, **R.step_kwargs())
                    out["coverage"]["evaluations"] += 1
                    missing = full - set(ex3.log)
                    if missing:
                        out["failures"].append({"key": "C13:element-step-reuses:" + sorted(missing)[0], "net": net.to_json(),
                                                "what": f"network stepped with one {type(ex).__name__}, then every element stepped with "
                                                        f"another {type(ex3).__name__} object: it was never asked for {sorted(missing)} "
                                                        f"(values computed by the earlier engine were re-used) ({net.family})"})
                    if sel.log or ex.log:
                        out["failures"].append({"key": "C13:element-step-other-used", "net": net.to_json(),
                                                "what": f"elements stepped with an explicit engine: the selected engine evaluated "
                                                        f"{sorted(set(sel.log))}, the engine of the earlier step {sorted(set(ex.log))}"})
                except Exception as exn:
                    out["failures"].append({"key": "C13:element-step-raise", "net": net.to_json(),
                                            "what": f"stepping the elements one by one with an explicit {type(ex3).__name__} raised {exn!r:.200}"})
                # ---- queries without an engine use the SELECTED engine (selected after import, by instance)
                sel2 = mk_ex()
                if not use_instance(sel2, out, net.to_json()):
                    continue
                try:
                    with np.errstate(all="ignore"):
                        for el in R.origins.values():
                            if el in set(R.net.elements):
                                el.get_flow(net=R.net, **R.step_kwargs())
                        for el in R.links.values():
                            if el in set(R.net.elements):
                                el.get_flow()
                        for el in R.dests.values():
                            if el in set(R.net.elements):
                                el.get_density(net=R.net)
                    out["coverage"]["evaluations"] += 1
                    if not sel2.log:
                        out["failures"].append({"key": "C13:query-ignores-selection", "net": net.to_json(),
                                                "what": f"flows/densities queried without an engine after selecting a {type(sel2).__name__} "
                                                        f"instance: the selected engine evaluated nothing"})
                    asked = {"origins.get_mainstream_flow": "main", "origins.get_ramp_flow": "ramp", "origins.get_simplifiedramp_flow": "simp_lim"}
                    for prim, kind in asked.items():
                        if any(k_.startswith(kind) for k_ in net.origins.values()) and prim not in sel2.log:
                            out["failures"].append({"key": "C13:query-ignores-selection:" + prim, "net": net.to_json(),
                                                    "what": f"origin flows queried without an engine: the selected {type(sel2).__name__} "
                                                            f"was never asked for {prim} ({net.family})"})
                    if sel.log or ex.log or ex3.log != ex3.log[:len(ex3.log)]:
                        pass
                except Exception as exn:
                    out["failures"].append({"key": "C13:query-raise", "net": net.to_json(),
                                            "what": f"querying flows without an engine (selected {type(sel2).__name__}) raised {exn!r:.200}"})
                engines.use(sel)
                del sel.log[:]
                # ---- the same network stepped again with another explicit engine: nothing of the first
                # engine may survive (variables re-created by the new engine), the first engine and the
                # selected one evaluate nothing
                ex2 = (RecCs("MX") if want_np else RecNp()) if ni % 2 == 0 else (RecCs() if want_np else RecNp())
                del ex.log[:]
                try:
                    with np.errstate(all="ignore"):
                        R.net.step(engine=ex2, **opts, **R.step_kwargs())
                except Exception as exn:
                    out["failures"].append({"key": "C13:restep-raise", "net": net.to_json(),
                                            "what": f"selected {type(sel).__name__}: stepped with {type(ex).__name__} and then the same "
                                                    f"network with {type(ex2).__name__}: the second step raised {exn!r:.200}"})
                    continue
                out["coverage"]["evaluations"] += 1
                if sel.log or ex.log:
                    out["failures"].append({"key": "C13:restep-other-used", "net": net.to_json(),
                                            "what": f"second step with explicit {type(ex2).__name__}: the selected engine evaluated "
                                                    f"{sorted(set(sel.log))}, the engine of the first step {sorted(set(ex.log))}"})
                want_np2 = not want_np
                for el in list(R.links.values()) + list(R.origins.values()) + list(R.dests.values()):
                    for gname in ("states", "next_states", "actions", "disturbances"):
                        for nm, x in (getattr(el, gname, None) or {}).items():
                            is_np = isinstance(x, (np.ndarray, np.floating, float))
                            if is_np != want_np2:
                                out["failures"].append({"key": "C13:restep-type", "net": net.to_json(),
                                                        "what": f"stepped with {type(ex).__name__}, then with explicit {type(ex2).__name__}: "
                                                                f"{gname}[{nm}] of {el.name} still has type {type(x).__name__}"})
                if engines.get_current_engine() is not sel:
                    out["failures"].append({"key": "C13:step-writes-selection", "net": net.to_json(), "what": "the second step changed the selection"})
                # ---- a step with an explicit engine that fails half-way leaves the selection untouched
                kw = R.step_kwargs()
                bad = [("missing tau", {k: v for k, v in kw.items() if k != "tau"}, {}),
                       ("mis-shaped initial speed", kw,
                        {"init_conditions": {next(iter(R.links.values())): {"v": np.zeros(7), "rho": np.ones(7)}}})][ni % 2]
                try:
                    with np.errstate(all="ignore"):
                        R.net.step(engine=ex if ni % 4 < 2 else ex2, **bad[1], **bad[2])
                    raised = None
                except Exception as exn:
                    raised = exn
                out["coverage"]["evaluations"] += 1
                if engines.get_current_engine() is not sel:
                    out["failures"].append({"key": "C13:failed-step-writes-selection", "net": net.to_json(),
                                            "what": f"selected {type(sel).__name__}; a step with an explicit engine and {bad[0]} "
                                                    f"({'raised ' + type(raised).__name__ if raised else 'did not raise'}) left "
                                                    f"{type(engines.get_current_engine()).__name__} selected"})
                    engines.use(sel)
        engines.use(saved)
    finally:
        try:
            engines.use(saved)
        except Exception:
            pass
    out["coverage"]["distinct_nontrivial"] = len(distinct)
    out["coverage"]["rule"] = ("selection histories (use by name / instance / unknown names incl. substrings of the available names / "
                               "non-engines, get, step with and without explicit engine) vs EngineSel.v; every ordered pair "
                               "(selected, explicit) of recording NumPy / CasADi-SX / CasADi-MX engines on the network families "
                               "with random positivity options: the selected engine must record no primitive call")
    out["coverage"]["samples"] = [{"history": hist[0]}, {"history": hist[-1]}]
    out["coverage"]["traces_validated_against_impl"] = len(hist)
    return out


def nets_key(net):
    return net.family


def replay(failure):
    import json
    print(json.dumps(failure, indent=1, default=str)[:3000])
    return 0
