"""Dynamics slice: runner + property judges for C01-C05, C07, C10, C11, C14, C16, C17, C18.

Everything the judges compare with is either (a) a tree printed by Coq (model or
specification), or (b) another run of the implementation (metamorphic), or (c) an
identity among the implementation's own inputs and outputs (balance).
"""
import math
import random

import numpy as np

from harness import dyn, nets, tree, impl

OPT_NAMES = ["pi_v", "pi_rho", "pi_w", "pn_v", "pn_rho", "pn_w"]


def all_opts():
    out = []
    for m in range(64):
        out.append({n: bool(m >> i & 1) for i, n in enumerate(OPT_NAMES)})
    return out


# ---------------------------------------------------------------------------
# documented layouts (derived from the description, not from the implementation)
def desc_order(net):
    nodes, edges = net.graph()
    ls = [l for (_, _, l) in net.links_order()]
    os_, ds = [], []
    for (n, o, d) in nodes:
        if o is not None and o not in os_:
            os_.append(o)
        if d is not None and d not in ds:
            ds.append(d)
    return ls, os_, ds


def in_layout(net, compact, names):
    """list of (expected name, tokens) of the state/action/disturbance arguments"""
    x, u, d = dyn.documented_layout(net, desc_order(net))

    def nm(e):
        (var, kind, i) = e
        return f"{var}_{names[(kind, i)]}"
    if compact <= 0:
        return [(nm(e), toks) for grp in (x, u, d) for (e, toks) in grp]
    gx, gu, gd = dyn.regroup(x), dyn.regroup(u), dyn.regroup(d)
    if compact == 1:
        return [(k, v) for g in (gx, gu, gd) for k, v in g.items()]
    return [("x", [t for v in gx.values() for t in v]), ("u", [t for v in gu.values() for t in v]),
            ("d", [t for v in gd.values() for t in v])]


def out_layout(net, compact, more_out, names):
    ls, os_, ds = desc_order(net)
    x = []
    for l in ls:
        N = net.links[l]["N"]
        x.append((("rho", "l", l), [f"rho+ {l} {i}" for i in range(N)]))
        x.append((("v", "l", l), [f"v+ {l} {i}" for i in range(N)]))
    for o in os_:
        if net.origins[o] != "ideal":
            x.append((("w", "o", o), [f"w+ {o} 0"]))
    ql = [(("q", "l", l), [f"q {l} {i}" for i in range(net.links[l]["N"])]) for l in ls]
    qo = [(("q_o", "o", o), [f"qo {o} 0"]) for o in os_]
    if compact <= 0:
        out = [(f"{v}_{names[(k, i)]}+", t) for ((v, k, i), t) in x]
        if more_out:
            out += [(f"{v}_{names[(k, i)]}", t) for ((v, k, i), t) in ql + qo]
        return out
    g = {}
    for ((v, _, _), t) in x:
        g.setdefault(v + "+", []).extend(t)
    qlt = [t for (_, ts) in ql for t in ts]
    qot = [t for (_, ts) in qo for t in ts]
    if compact == 1:
        out = list(g.items())
        if more_out:
            out += [("q", qlt), ("q_o", qot)]
        return out
    out = [("x+", [t for v in g.values() for t in v])]
    if more_out:
        out += [("q", qlt + qot)]
    return out


def default_names(net):
    names = {}
    for l in net.links:
        names[("l", l)] = f"L{l}"
    for o in net.origins:
        names[("o", o)] = f"O{o}"
    for d in net.dests:
        names[("d", d)] = f"D{d}"
    nodes, _ = net.graph()
    for (n, _, _) in nodes:
        names[("n", n)] = f"N{n}"
    return names


# ---------------------------------------------------------------------------
def pname(tok):
    """declared name of a symbolic parameter: model parameters keep their keyword name"""
    if tok.startswith("g."):
        return tok[2:]
    if tok.startswith("lp.0."):
        # the parameters of the first link are declared under their plain attribute names (`rho_crit`, `a`, ...), as a
        # user with one symbolic link would: a declared name that happens to be an element attribute means nothing to
        # any other element
        return tok.split(".")[-1]
    return "p_" + tok.replace(".", "_")


class Runner:
    """one network description + parameter values, with the implementation objects"""

    def __init__(self, net, pv, names=None, reads_seed=None, stray=None):
        self.stray = dict(stray or {})
        self.net = net
        self.pv = pv
        self.names = names or default_names(net)
        self.reads_seed = reads_seed
        self._R = None
        self._F = {}
        self._eng = {}
        self.param_issues = []

    @property
    def R(self):
        if self._R is None:
            self._R = impl.Real(self.net, self.pv, names=self.names, reads=self.reads())
            self._R.stray_kwargs = self.stray
        return self._R

    def reads(self):
        return None if self.reads_seed is None else random.Random(self.reads_seed)

    def numpy_step(self, sv, opts=None, scalar_shape="vec1", fresh=False):
        R = impl.Real(self.net, self.pv, names=self.names) if fresh else self.R
        R.stray_kwargs = self.stray
        out, ic = R.numpy_step(sv, opts, scalar_shape)
        return out

    def function(self, sym="SX", compact=0, more_out=False, opts=None, ptoks=None):
        """compile; ptoks: ordered list of parameter tokens to be made symbolic and declared"""
        key = (sym, compact, more_out, tuple(sorted((opts or {}).items())), tuple(ptoks or ()))
        if key in self._F:
            return self._F[key]
        import casadi as cs
        symtype = getattr(cs, sym)
        sp = {t: symtype.sym(pname(t)) for t in (ptoks or [])}
        # the same network objects are re-used for every engine / option set / level (stepping is
        # repeatable whatever was stepped or compiled before); only symbolic parameters need new elements
        R = self.R if not ptoks else impl.Real(self.net, self.pv, names=self.names, sym_params=sp, reads=self.reads())
        R.stray_kwargs = self.stray
        # one engine object per symbol type serves every step and compilation of this runner: what it
        # compiled before (other options, other levels) must not show in what it compiles now
        eng = self._eng.setdefault(sym, impl.CsEngine(sym))
        if self.reads_seed is not None:
            # history: the network is first stepped with OTHER model parameters (numbers), then - without
            # re-initialising - every element is stepped again through the element-level API with the actual
            # ones: what is compiled afterwards must be the latest step of every element
            kw0 = dict(R.step_kwargs())
            kw0.update(T=self.pv["g.T"] * 1.7, tau=self.pv["g.tau"] * 0.6, eta=self.pv["g.eta"] * 1.3)
            R.net.step(engine=eng, **nets.opts_kwargs(opts or {}), **kw0)
            # (element-level defaults differ from Network.step's - Link.step_dynamics clamps speeds by default -
            # so the three next-options are always passed explicitly here)
            o_ = opts or {}
            for el in R.net.origins:
                # (no option set given: the origin's own default - documented False - is what is exercised)
                kwq = {"positive_next_queue": bool(o_.get("pn_w"))} if o_ else {}
                el.step(net=R.net, engine=eng, **kwq, **R.step_kwargs())
            for (_, _, el) in R.net.links:
                el.step(net=R.net, engine=eng, positive_next_speed=bool(o_.get("pn_v")),
                        positive_next_density=bool(o_.get("pn_rho")), **R.step_kwargs())
        else:
            R.net.step(engine=eng, **nets.opts_kwargs(opts or {}), **R.step_kwargs())
        params = {pname(t): sp[t] for t in (ptoks or [])} or None
        # the documented idiom: the keyword parameters of the step are passed again
        # (with extra outputs a declared model parameter must not be repeated as keyword: the flow
        # recomputation receives both dictionaries as keywords)
        other = {k: v for k, v in R.step_kwargs().items() if not (more_out and params and k in params)}
        snap = list(params.items()) if params else None
        F = eng.to_function(R.net, compact=compact, more_out=more_out, parameters=params, **other)
        if snap is not None:
            # the caller's dictionary of declared parameters is left as it was, and compiling once more with
            # the very same dictionary gives the same signature
            if list(params) != [k for k, _ in snap] or any(params[k] is not v for k, v in snap):
                self.param_issues.append(f"{sym} compact={compact} more_out={more_out}: to_function modified the supplied "
                                         f"dictionary of declared parameters: keys {[k for k, _ in snap]} -> {list(params)}")
                params = dict(snap)
            try:
                F2 = eng.to_function(R.net, compact=compact, more_out=more_out, parameters=params, **other)
                if [F2.name_in(i) for i in range(F2.n_in())] != [F.name_in(i) for i in range(F.n_in())]:
                    self.param_issues.append(f"{sym} compact={compact} more_out={more_out}: compiling again with the same "
                                             f"arguments gives arguments {[F2.name_in(i) for i in range(F2.n_in())]} instead of "
                                             f"{[F.name_in(i) for i in range(F.n_in())]}")
            except Exception as ex:
                self.param_issues.append(f"{sym} compact={compact} more_out={more_out}: compiling a second time with the same "
                                         f"dictionary of declared parameters raised {ex!r:.200}")
        self._F[key] = (F, R)
        return F, R

    def call(self, F, compact, more_out, sv, ptoks=None):
        """evaluate F at the point through the documented layout.
        returns (values {token: float}, problems [str])"""
        import casadi as cs
        problems = []
        lay = in_layout(self.net, compact, self.names)
        exp_in = [(n, len(t)) for n, t in lay]
        if ptoks:
            if compact <= 0:
                exp_in += [(pname(t), 1) for t in ptoks]
            else:
                exp_in += [("p", len(ptoks))]
        got_in = [(F.name_in(i), F.size1_in(i) * F.size2_in(i)) for i in range(F.n_in())]
        if [s for _, s in got_in] != [s for _, s in exp_in]:
            problems.append(f"argument sizes {got_in} differ from the documented layout {exp_in}")
            return None, problems
        if [n for n, _ in got_in] != [n for n, _ in exp_in]:
            problems.append(f"argument names {[n for n, _ in got_in]} differ from documented {[n for n, _ in exp_in]}")
        env = dyn.env_of(self.pv, sv)
        args = [cs.DM([env[t] for t in toks]) if toks else cs.DM(0, 1) for _, toks in lay]
        if ptoks:
            if compact <= 0:
                args += [cs.DM(env[t]) for t in ptoks]
            else:
                args += [cs.DM([env[t] for t in ptoks])]
        res = F(*args)
        if not isinstance(res, (list, tuple)):
            res = [res]
        olay = out_layout(self.net, compact, more_out, self.names)
        got_out = [(F.name_out(i), F.size1_out(i) * F.size2_out(i)) for i in range(F.n_out())]
        exp_out = [(n, len(t)) for n, t in olay]
        if [s for _, s in got_out] != [s for _, s in exp_out]:
            problems.append(f"result sizes {got_out} differ from the documented layout {exp_out}")
            return None, problems
        if [n for n, _ in got_out] != [n for n, _ in exp_out]:
            problems.append(f"result names {[n for n, _ in got_out]} differ from documented {[n for n, _ in exp_out]}")
        vals = {}
        for (n, toks), r in zip(olay, res):
            arr = np.array(r, dtype=float).reshape(-1)
            for t, v in zip(toks, arr):
                vals[t] = float(v)
        return vals, problems


# ---------------------------------------------------------------------------
def gen_cases(ctx, n_random):
    rng = ctx["rng"]
    cases = []
    for net in nets.families(rng):
        cases.append(net)
    for _ in range(n_random):
        cases.append(nets.random_valid(rng, nmax=rng.choice([3, 4, 5, 6, 8])))
    return cases


def points_for(net, pv, rng, k):
    pts = []
    for i in range(k):
        mode = ["interior", "boundary", "boundary"][i % 3]
        pts.append((mode, dyn.admissible_state(net, pv, rng, mode)))
    return pts


def integer_state(sv):
    """the state rounded to integers (densities, speeds; infinite limits kept): to be supplied as integer arrays"""
    out = {}
    for k, x in sv.items():
        out[k] = float(round(x)) if math.isfinite(x) and (k.startswith("rho.") or k.startswith("v.")) else x
    return out


def state_keys(net):
    ks = []
    for l, v in net.links.items():
        for i in range(v["N"]):
            ks += [f"rho+ {l} {i}", f"v+ {l} {i}"]
    for o, k in net.origins.items():
        if k != "ideal":
            ks.append(f"w+ {o} 0")
    return ks


def new_outcome():
    return {"failures": [], "disagreements": [], "info": [],
            "coverage": {"evaluations": 0, "distinct_nontrivial": 0, "samples": []}}


def fail(out, prop_key, net, pv, sv, what, **extra):
    rec = {"key": prop_key, "what": what, "net": net.to_json(), "pv": pv, "sv": sv}
    rec.update(extra)
    out["failures"].append(rec)


def disagree(out, net, pv, sv, what, **extra):
    rec = {"what": what, "net": net.to_json(), "pv": pv, "sv": sv}
    rec.update(extra)
    out["disagreements"].append(rec)


def topo_key(net):
    import hashlib
    return f"{net.family}:{hashlib.md5(repr(net.signature()).encode()).hexdigest()[:8]}"


def correspondence(out, ctx, cases, opts=None, engines=("np",), per_case_points=3, sym_types=("SX",),
                   distinct=None):
    """model trees (Blocks.v at expr, generated engine) vs implementation.  Returns per-case data
    [(net, pv, points, model_trees, spec_trees, runner)] for the judges."""
    rng = ctx["rng"]
    data = []
    mt = {e: None for e in engines}
    st = None
    if ctx["model_ok"]:
        # (separately: the specification trees do not depend on the regenerated engines and are still available
        # when a translator failed closed or the generated model does not compile)
        try:
            st = dyn.spec_trees(cases)
        except Exception as ex:
            out["disagreements"].append({"what": "Coq specification could not be evaluated", "error": str(ex)[-500:]})
            st = None
        try:
            for e in engines:
                mt[e] = dyn.model_trees(cases, e, opts)
        except Exception as ex:
            out["disagreements"].append({"what": "Coq model could not be evaluated", "error": str(ex)[-500:]})
            mt = {e: None for e in engines}
    # every third case reaches its final graph through replaced links / origins / destinations
    cases = [nets.with_replacements(n, random.Random(1000 + i)) if i % 3 == 1 else
             (nets.with_late_replacements(n, random.Random(2000 + i)) if i % 3 == 2 else n)
             for i, n in enumerate(cases)]
    for ci, net in enumerate(cases):
        pv = nets.random_params(net, rng)
        pts = points_for(net, pv, rng, per_case_points)
        # branch-targeted points: keep sampling (tree evaluation only) while new PATHS (per result, the set
        # of sides taken at its min / max / if nodes) of the model trees or of the specification trees turn
        # up, within a budget; a law that differs only where several conditions hold together is reached
        tkey = "np" if mt.get("np") is not None else ("cs" if mt.get("cs") is not None else None)
        tsets = []
        if tkey is not None and "ERR" not in mt[tkey][ci]:
            tsets.append(mt[tkey][ci])
        if st is not None and isinstance(st[ci], dict) and "ERR" not in st[ci]:
            tsets.append(st[ci])
        if tsets:
            total = 2 * sum(tree.count_branch_nodes(t_) for k_, t_ in tsets[0].items()
                            if not (isinstance(t_, tuple) and t_ and t_[0] == "!"))
            covered, paths = set(), set()

            def sides(sv_):
                sd, ph = set(), set()
                for ti_, trees_ in enumerate(tsets):
                    for k_, (v_, m_, br_) in dyn.eval_all(trees_, dyn.env_of(pv, sv_)).items():
                        if ti_ == 0:
                            sd |= {(k_, b_) for b_ in br_}
                        ph.add((ti_, k_, frozenset(br_)))
                return sd, ph
            for _, sv_ in pts:
                sd, ph = sides(sv_)
                covered |= sd
                paths |= ph
            extra = 0
            quick_ = ctx["tier"] == "quick"
            for it_ in range(60 if quick_ else 600):
                if extra >= (5 if quick_ else 30):
                    break
                sv_ = dyn.admissible_state(net, pv, rng, "boundary" if it_ % 2 else "interior")
                sd, ph = sides(sv_)
                if (sd - covered) or (ph - paths):
                    covered |= sd
                    paths |= ph
                    pts.append(("targeted", sv_))
                    extra += 1
            cov = out["coverage"].setdefault("branch_sides", {"total": 0, "covered": 0, "paths": 0})
            cov["total"] += total
            cov["covered"] += len(covered)
            cov["paths"] = cov.get("paths", 0) + len(paths)
        # every other case interleaves look-up reads / validation with the construction calls
        run = Runner(net, pv, reads_seed=(ci * 31 + 7) if ci % 2 else None)
        oc = run.R.order_check()
        if oc:
            disagree(out, net, pv, None, "graph order model: " + oc)
        if run.R.read_errors:
            disagree(out, net, pv, None, "valid network: " + run.R.read_errors[0])
        mtree = {e: (mt[e][ci] if mt[e] is not None else None) for e in engines}
        if mtree.get("np") and "ERR" in mtree["np"]:
            disagree(out, net, pv, None, "model returns error " + mtree["np"]["ERR"] + " on a valid network")
        data.append((net, pv, pts, mtree, st[ci] if st is not None else None, run))
        for mode, sv in pts:
            env = dyn.env_of(pv, sv)
            # NumPy implementation vs model(np)
            try:
                got = run.numpy_step(sv, opts)
            except Exception as ex:
                got = ex
            out["coverage"]["evaluations"] += 1
            anyk = "np" if mtree.get("np") else ("cs" if mtree.get("cs") else None)
            if anyk and "ERR" not in mtree[anyk] and distinct is not None and not mtree.get("np"):
                mv0 = dyn.eval_all(mtree[anyk], env)
                brs0 = frozenset().union(*[b for (_, _, b) in mv0.values()]) if mv0 else frozenset()
                if net.nontrivial():
                    distinct.add((topo_key(net), brs0))
            if mtree.get("np") and "ERR" not in mtree["np"]:
                mv = dyn.eval_all(mtree["np"], env)
                if distinct is not None:
                    brs = frozenset().union(*[b for (_, _, b) in mv.values()]) if mv else frozenset()
                    if net.nontrivial():
                        distinct.add((topo_key(net), brs))
                if isinstance(got, Exception):
                    disagree(out, net, pv, sv, f"NumPy step raised {got!r:.300} where the model succeeds", opts=opts)
                else:
                    for k in state_keys(net):
                        if k not in mv:
                            disagree(out, net, pv, sv, f"model has no output {k}", opts=opts)
                            break
                        v, mag, _ = mv[k]
                        if not tree.close(v, got[k], mag):
                            disagree(out, net, pv, sv, f"NumPy {k} = {got[k]!r}, model {v!r}", opts=opts)
                            break
            # CasADi implementation vs model(cs)
            for sym in sym_types:
                try:
                    F, _ = run.function(sym, 0, True, opts)
                    vals, probs = run.call(F, 0, True, sv)
                except Exception as ex:
                    vals, probs = None, [f"CasADi {sym} raised {ex!r:.300}"]
                out["coverage"]["evaluations"] += 1
                key = "cs" if "cs" in mtree else "np"
                if mtree.get(key) and "ERR" not in mtree[key]:
                    mv = dyn.eval_all(mtree[key], env)
                    if vals is None:
                        disagree(out, net, pv, sv, "; ".join(probs), opts=opts, sym=sym)
                    else:
                        for k, x in vals.items():
                            if k in mv and not tree.close(mv[k][0], x, mv[k][1]):
                                disagree(out, net, pv, sv, f"CasADi {sym} {k} = {x!r}, model {mv[k][0]!r}", opts=opts)
                                break
    return data


def finish(out, distinct, data, rule):
    out["coverage"]["distinct_nontrivial"] = len(distinct)
    out["coverage"]["rule"] = rule
    out["coverage"]["traces_validated_against_impl"] = out["coverage"]["evaluations"]
    fams = {}
    for (net, *_r) in data:
        fams[net.family] = fams.get(net.family, 0) + 1
    out["coverage"]["input_distribution"] = {
        "networks": len(data), "families": fams,
        "max_nodes": max(len(n.graph()[0]) for (n, *_r) in data),
        "with_merge_or_bifurcation": sum(1 for (n, *_r) in data if any(
            len(n.in_links(x[0])) >= 2 or len(n.out_links(x[0])) >= 2 for x in n.graph()[0]))}
    if data and not out["coverage"]["samples"]:
        net, pv, pts, *_r = data[min(3, len(data) - 1)]
        out["coverage"]["samples"] = [{"network": net.to_json(), "point": pts[0][1]}]
    return out


RULE = ("networks: fixed families (all origin/destination kinds on a single link, chain, merges, "
        "bifurcations, 2x2 junction, interior ramps of every kind with/without delta, ring, self-loop, "
        "2-cycle, lane drop/gain, VSL all/one/empty, single-segment chain) + random valid graphs to 8 "
        "nodes, each at interior and boundary states (zeros, rho_max, rho_crit, huge/inf limits); "
        "distinct = (topology signature, set of min/max/if sides taken in the model trees), "
        "non-trivial = has a node of in/out-degree >= 2 or a controlled element")


# ---------------------------------------------------------------------------
# C01: spec tree vs implementation
def run_C01(ctx):
    out = new_outcome()
    distinct = set()
    quick = ctx["tier"] == "quick"
    cases = gen_cases(ctx, 12 if quick else 150)
    data = correspondence(out, ctx, cases, engines=("np", "cs"), per_case_points=3 if quick else 12,
                          sym_types=("SX",) if quick else ("SX", "MX"), distinct=distinct)
    for (net, pv, pts, mtree, stree, run) in data:
        if stree is None:
            continue
        for mode, sv in pts:
            env = dyn.env_of(pv, sv)
            sv_ = dyn.eval_all(stree, env)
            try:
                got = run.numpy_step(sv)
            except Exception as ex:
                fail(out, f"C01:{topo_key(net)}:raise", net, pv, sv, f"NumPy step raised {ex!r:.300}")
                continue
            try:
                lvl = 0 if mode != "boundary" else 2          # (the one-step map is also read off the single-vector form)
                F, _ = run.function("SX", lvl, False)
                cvals, probs = run.call(F, lvl, False, sv)
            except Exception as ex:
                cvals = None
            for k in state_keys(net):
                v, mag, _ = sv_[k]
                if not tree.close(v, got[k], mag):
                    fail(out, f"C01:{topo_key(net)}:{k.split()[0]}", net, pv, sv,
                         f"NumPy engine: {k} = {got[k]!r} but METANET (spec tree) gives {v!r}",
                         observable=k, expected=v, actual=got[k], engine="numpy")
                    break
                if cvals is not None and not tree.close(v, cvals[k], mag):
                    fail(out, f"C01:{topo_key(net)}:{k.split()[0]}", net, pv, sv,
                         f"CasADi function: {k} = {cvals[k]!r} but METANET (spec tree) gives {v!r}",
                         observable=k, expected=v, actual=cvals[k], engine="casadi-SX")
                    break
    return finish(out, distinct, data, RULE)


def replay(failure):
    """re-run the failing case on the current tree: NumPy step, the compiled function at the recorded symbol type /
    level / names / options, and the specification value of the recorded observable"""
    import json
    net = nets.Net.from_json(failure["net"])
    pv, sv = failure["pv"], failure.get("sv")
    print("network:", json.dumps(failure["net"]))
    print("what:", failure["what"])
    names = None
    if isinstance(failure.get("names"), dict):
        names = default_names(net)
        for k, v in failure["names"].items():
            try:
                kk = eval(k, {"__builtins__": {}})
                names[kk] = v
            except Exception:
                pass
    run = Runner(net, pv, names=names, reads_seed=failure.get("reads_seed"))
    opts = failure.get("opts")
    obs = failure.get("observable")
    if sv is None:
        print("(no state point recorded: the failure is about construction / compilation; re-run the check)")
        return 0
    try:
        got = run.numpy_step(sv, opts, failure.get("scalar_shape", "vec1"))
        vals = {k: v for k, v in got.items() if not k.startswith("shape")}
        print("NumPy next states now:", vals if obs is None else {obs: vals.get(obs)})
    except Exception as ex:
        print("NumPy step raises:", repr(ex))
    if failure.get("sym") or failure.get("compact") is not None:
        sym, compact, more = failure.get("sym", "SX"), failure.get("compact", 0), bool(failure.get("more_out", False))
        try:
            F, _ = run.function(sym, compact, more, opts, failure.get("ptoks"))
            vals, probs = run.call(F, min(max(compact, 0), 2) if failure.get("ptoks") is None else compact, more, sv, failure.get("ptoks"))
            print(f"CasADi {sym} compact={compact} more_out={more}:", probs if vals is None else (vals if obs is None else {obs: vals.get(obs)}))
        except Exception as ex:
            print(f"CasADi {sym} compact={compact}: raises", repr(ex)[:300])
    try:
        st = dyn.spec_trees([net])[0]
        env = dyn.env_of(pv, sv)
        spec = {k: v[0] for k, v in dyn.eval_all(st, env).items()}
        print("specification:", spec if obs is None else {obs: spec.get(obs)})
    except Exception as ex:
        print("spec trees unavailable:", str(ex)[:200])
    return 0


# ---------------------------------------------------------------------------
# helpers shared by the metamorphic judges
def states_close(a, b_, keys, scale_floor=1.0):
    bad = []
    for k in keys:
        x, y = a[k], b_[k]
        if not tree.close(x, y, max(abs(x), abs(y), scale_floor)):
            bad.append((k, x, y))
    return bad


def flows_from_inputs(net, sv):
    """q_{m,i} = rho v lambda of the inputs"""
    q = {}
    for l, v in net.links.items():
        for i in range(v["N"]):
            q[(l, i)] = sv[f"rho.{l}.{i}"] * sv[f"v.{l}.{i}"] * v["lanes"]
    return q


def balance_failures(net, pv, sv, nxt, qo_reported=None, q_reported=None):
    """C02 oracle from inputs and outputs only.  nxt: {'rho+ l i','w+ o 0'}; returns list of str."""
    T = pv["g.T"]
    nodes, edges = net.graph()
    q = flows_from_inputs(net, sv) if q_reported is None else q_reported
    out = []
    # origin flows: queued origins from the queue update, ideal origins from the first segment
    qo = {}
    node_of_origin = {o: n for (n, o, d) in nodes if o is not None}
    for o, k in net.origins.items():
        n = node_of_origin[o]
        outs = [e for e in edges if e[0] == n]
        if k == "ideal":
            qo[o] = q[(outs[0][2], 0)] if outs else 0.0
        else:
            qo[o] = sv[f"d.{o}"] - (nxt[f"w+ {o} 0"] - sv[f"w.{o}"]) / T
        if qo_reported is not None and f"qo {o} 0" in qo_reported:
            rep = qo_reported[f"qo {o} 0"]
            if not tree.close(rep, qo[o], max(abs(rep), abs(qo[o]), 1e3) * 1e2):
                out.append(f"reported flow of origin {o} = {rep!r} but its queue update used {qo[o]!r}")
    scale = max([abs(x) for x in q.values()] + [abs(x) for x in qo.values()] + [1.0])
    # flow that entered the first segment of each link, from the density update
    qin = {}
    for (u, d, l) in edges:
        lam, L = net.links[l]["lanes"], pv[f"lp.{l}.L"]
        qin[l] = q[(l, 0)] + (nxt[f"rho+ {l} 0"] - sv[f"rho.{l}.0"]) * lam * L / T
    for (n, o, d) in nodes:
        outs = [e for e in edges if e[0] == n]
        ins = [e for e in edges if e[1] == n]
        if not outs:
            continue
        lhs = sum(qin[l] for (_, _, l) in outs)
        rhs = sum(q[(l, net.links[l]["N"] - 1)] for (_, _, l) in ins) + (qo[o] if o is not None else 0.0)
        if not tree.close(lhs, rhs, scale * 1e3):
            out.append(f"node {n}: flows entering its leaving links sum to {lhs!r}, "
                       f"entering links + origin give {rhs!r}")
    # network-wide
    dveh = 0.0
    for l, v in net.links.items():
        lam, L = v["lanes"], pv[f"lp.{l}.L"]
        for i in range(v["N"]):
            dveh += (nxt[f"rho+ {l} {i}"] - sv[f"rho.{l}.{i}"]) * lam * L
    ext = 0.0
    for o, k in net.origins.items():
        if k == "ideal":
            ext += qo[o]
        else:
            dveh += nxt[f"w+ {o} 0"] - sv[f"w.{o}"]
            ext += sv[f"d.{o}"]
    for (n, o, d) in nodes:
        if d is not None:
            for (_, _, l) in [e for e in edges if e[1] == n]:
                ext -= q[(l, net.links[l]["N"] - 1)]
    if not tree.close(dveh, T * ext, T * scale * 1e3 + 1.0):
        out.append(f"network: vehicles changed by {dveh!r}, external balance gives {T * ext!r}")
    return out


def run_C02(ctx):
    out = new_outcome()
    distinct = set()
    quick = ctx["tier"] == "quick"
    cases = gen_cases(ctx, 12 if quick else 150)
    data = correspondence(out, ctx, cases, engines=("np",), per_case_points=2 if quick else 8,
                          distinct=distinct)
    rng = ctx["rng"]
    for (net, pv, pts, mtree, stree, run) in data:
        # conservation is not restricted to forward traffic: a state with some negative speeds (hence negative
        # flows through a node) is balanced just the same when nothing is clamped
        pts = list(pts)
        for _ in range(2):
            sv_ = dict(pts[0][1])
            for k_ in list(sv_):
                if k_.startswith("v.") and rng.random() < 0.35:
                    sv_[k_] = -abs(sv_[k_]) * rng.choice([0.05, 0.5, 1.0])
            if not dyn.near_excluded(net, pv, sv_):
                pts.append(("signed", sv_))
        # integer-valued states supplied as integer arrays; and the speed clamp alone (it clamps no density and no
        # queue, so the balance is untouched by it)
        svi = integer_state(pts[0][1])
        if not dyn.near_excluded(net, pv, svi):
            for shape_, o_ in (("int", None), ("vec1", {"pn_v": True})):
                try:
                    got = run.numpy_step(svi if shape_ == "int" else pts[-1][1], o_, shape_)
                    out["coverage"]["evaluations"] += 1
                    for msg in balance_failures(net, pv, svi if shape_ == "int" else pts[-1][1], got):
                        fail(out, f"C02:{topo_key(net)}:np-{shape_}", net, pv, svi if shape_ == "int" else pts[-1][1],
                             f"NumPy step ({'integer arrays' if shape_ == 'int' else 'positive_next_speed only'}): " + msg,
                             scalar_shape=shape_, opts=o_)
                except Exception as ex:
                    disagree(out, net, pv, svi, f"NumPy step ({shape_}, {o_}) raised {ex!r:.200}")
        # an almost homogeneous platoon: neighbouring segments differ in the 6th digit only, so do their flows - the
        # density CHANGE of an interior segment is T/(L lanes) (q_{i-1} - q_i), compared as a difference
        svp = dict(pts[0][1])
        for l, v in net.links.items():
            r0, v0 = svp[f"rho.{l}.0"], svp[f"v.{l}.0"]
            for i in range(v["N"]):
                svp[f"rho.{l}.{i}"] = r0 * (1 + 3e-6 * ((i * 7) % 5 - 2))
                svp[f"v.{l}.{i}"] = v0 * (1 + 2e-6 * ((i * 3) % 7 - 3))
        if not dyn.near_excluded(net, pv, svp):
            try:
                gotp = run.numpy_step(svp)
                out["coverage"]["evaluations"] += 1
                qp = flows_from_inputs(net, svp)
                for l, v in net.links.items():
                    for i in range(1, v["N"]):
                        exp_d = pv["g.T"] / (pv[f"lp.{l}.L"] * v["lanes"]) * (qp[(l, i - 1)] - qp[(l, i)])
                        got_d = gotp[f"rho+ {l} {i}"] - svp[f"rho.{l}.{i}"]
                        if abs(got_d - exp_d) > 1e-6 * abs(exp_d) + 1e-11 * abs(svp[f"rho.{l}.{i}"]) + 1e-300:
                            fail(out, f"C02:{topo_key(net)}:platoon", net, pv, svp,
                                 f"NumPy step, almost homogeneous platoon: density of segment {i} of link {l} changes by {got_d!r}; "
                                 f"inflow minus outflow prescribes {exp_d!r} (vehicles appear or vanish inside the link)",
                                 observable=f"rho+ {l} {i}")
                            break
            except Exception as ex:
                disagree(out, net, pv, svp, f"NumPy step (platoon) raised {ex!r:.200}")
        for mode, sv in pts:
            try:
                got = run.numpy_step(sv)
                for msg in balance_failures(net, pv, sv, got):
                    fail(out, f"C02:{topo_key(net)}:np", net, pv, sv, "NumPy step: " + msg, reads_seed=run.reads_seed)
            except Exception as ex:
                disagree(out, net, pv, sv, f"NumPy step raised {ex!r:.200}")
            for sym in (("SX",) if quick else ("SX", "MX")):
                try:
                    F, _ = run.function(sym, 0, True)
                    vals, probs = run.call(F, 0, True, sv)
                except Exception as ex:
                    vals, probs = None, [repr(ex)[:200]]
                if vals is None:
                    disagree(out, net, pv, sv, "CasADi more_out: " + "; ".join(probs))
                    continue
                qrep = {(l, i): vals[f"q {l} {i}"] for l, v in net.links.items() for i in range(v["N"])}
                for msg in balance_failures(net, pv, sv, vals, qo_reported=vals, q_reported=qrep):
                    fail(out, f"C02:{topo_key(net)}:cs", net, pv, sv, f"CasADi {sym} function: " + msg,
                         reads_seed=run.reads_seed)
                out["coverage"]["evaluations"] += 1
                # the balance read off the single next-state vector of the fully aggregated function (x+ is laid out as
                # x: whoever iterates x <- F(x, u, d) counts vehicles through that layout)
                if mode == pts[0][0]:
                    try:
                        F2_, _ = run.function(sym, 2, False)
                        vals2, probs2 = run.call(F2_, 2, False, sv)
                    except Exception as ex:
                        vals2, probs2 = None, [repr(ex)[:200]]
                    if vals2 is None:
                        disagree(out, net, pv, sv, "CasADi compact=2: " + "; ".join(probs2))
                    else:
                        out["coverage"]["evaluations"] += 1
                        for msg in balance_failures(net, pv, sv, vals2):
                            fail(out, f"C02:{topo_key(net)}:cs2", net, pv, sv,
                                 f"CasADi {sym} function at compact=2 (next states read off x+ through the layout of x): " + msg,
                                 sym=sym, compact=2)
    return finish(out, distinct, data, RULE + "; oracle: vehicle balance computed from inputs and outputs only")


# ---------------------------------------------------------------------------
def run_C03(ctx):
    out = new_outcome()
    distinct = set()
    quick = ctx["tier"] == "quick"
    cases = gen_cases(ctx, 10 if quick else 120)
    data = correspondence(out, ctx, cases, engines=("np", "cs"), per_case_points=2 if quick else 6,
                          sym_types=("SX", "MX"), distinct=distinct)
    rng = ctx["rng"]
    tf_correspondence(out, ctx, [(run, ("SX", "MX")[ci % 2], ci % 3, bool(ci % 2), None, None, pts[0][1])
                                 for ci, (net, pv, pts, mtree, stree, run) in enumerate(data)])
    for ci, (net, pv, pts, mtree, stree, run) in enumerate(data):
        keys = state_keys(net)
        for pi, (mode, sv) in enumerate(pts):
            try:
                ref = run.numpy_step(sv)
            except Exception as ex:
                fail(out, f"C03:{topo_key(net)}:npraise", net, pv, sv, f"NumPy step raised {ex!r:.200}")
                continue
            for sym in ("SX", "MX"):
                levels = (0, 1, 2) if (not quick or (ci + pi) % 2 == 0) else (rng.choice([0, 1, 2]),)
                for compact in levels:
                    more = bool((ci + compact) % 2)
                    try:
                        F, _ = run.function(sym, compact, more)
                        vals, probs = run.call(F, compact, more, sv)
                    except Exception as ex:
                        vals, probs = None, [f"raised {ex!r:.300}"]
                    out["coverage"]["evaluations"] += 1
                    if vals is None:
                        fail(out, f"C03:{topo_key(net)}:{sym}{compact}", net, pv, sv,
                             f"CasADi {sym} compact={compact}: " + "; ".join(probs), reads_seed=run.reads_seed)
                        continue
                    bad = states_close(vals, ref, keys)
                    if bad:
                        k, x, y = bad[0]
                        fail(out, f"C03:{topo_key(net)}:{sym}{compact}", net, pv, sv,
                             f"CasADi {sym} compact={compact}: {k} = {x!r}, NumPy step gives {y!r}",
                             reads_seed=run.reads_seed, sym=sym, compact=compact, more_out=more)
        # integer-valued states given to the NumPy engine as integer arrays; a state with negative entries
        # (entries where the plain law is not a number are skipped)
        pi_all = {"pi_rho": True, "pi_v": True, "pi_w": True}
        for label, svx, shape_, ox in (("integer arrays", integer_state(pts[0][1]), "int", None),
                                       ("negative entries", nets.random_state(net, pv, rng, "negative"), "vec1", None),
                                       ("negative entries, positive_init options", nets.random_state(net, pv, rng, "negative"), "vec1", pi_all)):
            if dyn.near_excluded(net, pv, svx) or (ox and dyn.near_excluded(net, pv, {k_: max(v_, 0.0) if k_[:2] in ("rh", "v.", "w.") else v_ for k_, v_ in svx.items()})):
                continue
            try:
                refx = run.numpy_step(svx, ox, shape_)
                F, _ = run.function("SX", 0, False, ox)
                valsx, _p = run.call(F, 0, False, svx)
            except Exception as ex:
                fail(out, f"C03:{topo_key(net)}:{shape_}-raise", net, pv, svx, f"{label}: raised {ex!r:.300}", scalar_shape=shape_)
                continue
            out["coverage"]["evaluations"] += 1
            if valsx is not None:
                bad = states_close(valsx, refx, [k for k in keys if not (math.isnan(refx[k]) or math.isnan(valsx[k]))])
                if bad:
                    k, x, y = bad[0]
                    fail(out, f"C03:{topo_key(net)}:{shape_}", net, pv, svx,
                         f"{label}: CasADi SX compact=0 {k} = {x!r}, NumPy step gives {y!r}", scalar_shape=shape_, sym="SX", compact=0)
        # speed-limit signs that bind although they show the free-flow speed or more: a negative non-compliance
        # factor (drivers slower than the sign), every sign of the link a little above v_free, light traffic
        for l_, v_ in net.links.items():
            if v_["vsl"] is None or not v_["vsl"]:
                continue
            pvs = dict(pv)
            pvs[f"lp.{l_}.alpha"] = -0.12
            svs = dict(pts[0][1])
            for k_ in range(len(v_["vsl"])):
                svs[f"vc.{l_}.{k_}"] = pv[f"lp.{l_}.v_free"] * (1.0 + 0.02 * (k_ + 1))
            for i_ in range(v_["N"]):
                svs[f"rho.{l_}.{i_}"] = 0.2 * pv[f"lp.{l_}.rho_crit"]
                svs[f"v.{l_}.{i_}"] = 0.9 * pv[f"lp.{l_}.v_free"]
            if dyn.near_excluded(net, pvs, svs):
                continue
            try:
                runs_ = Runner(net, pvs)
                refs = runs_.numpy_step(svs)
                Fs_, _ = runs_.function("SX", 0, False)
                valss, _p = runs_.call(Fs_, 0, False, svs)
            except Exception as ex:
                fail(out, f"C03:{topo_key(net)}:slow-drivers-raise", net, pvs, svs, f"negative non-compliance factor: raised {ex!r:.300}")
                continue
            out["coverage"]["evaluations"] += 1
            if valss is not None:
                bad = states_close(valss, refs, keys)
                if bad:
                    k, x, y = bad[0]
                    fail(out, f"C03:{topo_key(net)}:slow-drivers", net, pvs, svs,
                         f"link {l_}: non-compliance factor -0.12, signs a little above v_free, light traffic: CasADi SX compact=0 "
                         f"{k} = {x!r}, NumPy step gives {y!r}", sym="SX", compact=0)
            break
        # the same engine and the same network, stepped again with other options and compiled again with
        # the very same to_function arguments: the function must be the one of the latest step
        sv = pts[0][1]
        for sym in ("SX", "MX"):
            o = {k: rng.random() < 0.6 for k in nets.OPT_KW}
            compact = (ci + (sym == "MX")) % 3
            more = bool((ci + compact) % 2)
            try:
                run.function(sym, compact, more)          # (already compiled above, or compiled now)
                ref = run.numpy_step(sv, o)
                F, _ = run.function(sym, compact, more, o)
                vals, probs = run.call(F, compact, more, sv)
            except Exception as ex:
                fail(out, f"C03:{topo_key(net)}:restep-raise", net, pv, sv,
                     f"{sym} compact={compact}: re-step with options {o} and compile again raised {ex!r:.300}", opts=o)
                continue
            out["coverage"]["evaluations"] += 1
            bad = states_close(vals, ref, keys) if vals is not None else [("layout", probs, "")]
            if bad:
                k, x, y = bad[0]
                fail(out, f"C03:{topo_key(net)}:restep:{sym}{compact}", net, pv, sv,
                     f"CasADi {sym} compact={compact}, same engine and network stepped again with options "
                     f"{[k_ for k_, v_ in o.items() if v_]} and compiled again: {k} = {x!r}, NumPy step with these options gives {y!r}",
                     opts=o, sym=sym, compact=compact, more_out=more)
    return finish(out, distinct, data, RULE + "; every point on SX and MX at compactness 0/1/2 vs the NumPy step; "
                  "re-step with other options + re-compile on the same engine object")


# ---------------------------------------------------------------------------
# C04: layout.  The documented layout is compared positionally with distinct entries; colliding
# names are used on purpose (sizes/positions must not depend on names).
def colliding_names(net, rng):
    names = default_names(net)
    ls = sorted(net.links)
    os_ = sorted(net.origins)
    ds = sorted(net.dests)
    mode = rng.choice(["links", "origins", "all", "cross", "prefix"])
    vsl = [l for l in ls if net.links[l]["vsl"] is not None]
    if mode == "prefix":
        # "v" + "_ctrl_X" (state of a link called ctrl_X) against "v_ctrl" + "_X" (action of the VSL link X)
        if vsl and len(ls) >= 2:
            names[("l", vsl[0])] = "X"
            names[("l", [l for l in ls if l != vsl[0]][0])] = "ctrl_X"
        else:
            mode = "cross"
    if mode in ("links", "all") and len(ls) >= 2:
        for l in ls:
            names[("l", l)] = "A"
    if mode in ("origins", "all") and len(os_) >= 2:
        for o in os_:
            names[("o", o)] = "R"
    if mode == "cross":
        for l in ls[:1]:
            names[("l", l)] = "X"
        for o in os_[:1]:
            names[("o", o)] = "X"
        for d in ds[:1]:
            names[("d", d)] = "X"
    return names


def symbols_of(F):
    import casadi as cs
    ins = [F.sx_in(i) if F.is_a("SXFunction") else F.mx_in(i) for i in range(F.n_in())]
    return ins


def run_C04(ctx):
    out = new_outcome()
    distinct = set()
    quick = ctx["tier"] == "quick"
    rng = ctx["rng"]
    cases = gen_cases(ctx, 10 if quick else 100)
    data = correspondence(out, ctx, cases, engines=("cs",), per_case_points=1, sym_types=("SX",),
                          distinct=distinct)
    tfjobs = []
    for ci, (net, pv, pts, mtree, stree, run0) in enumerate(data):
        for compact in (0, 1, 2):
            nm_ = default_names(net) if (ci + compact) % 2 == 0 else colliding_names(net, random.Random(ci))
            tfjobs.append((Runner(net, pv, names=nm_), ("SX", "MX")[(ci + compact) % 2], compact,
                           bool((ci // 2 + compact) % 2), {"pi_rho": True, "pn_w": True} if ci % 4 == 0 else None,
                           None, pts[0][1]))
    tf_correspondence(out, ctx, tfjobs)
    for ci, (net, pv, pts, mtree, stree, run0) in enumerate(data):
        keys = state_keys(net)
        for variant in range(2):
            names = default_names(net) if variant == 0 else colliding_names(net, rng)
            run = Runner(net, pv, names=names, reads_seed=(ci + 3) if ci % 3 == 0 else None)
            sv = pts[0][1]
            try:
                ref = run.numpy_step(sv)
            except Exception as ex:
                fail(out, f"C04:{topo_key(net)}:npraise", net, pv, sv, f"NumPy step raised {ex!r:.300}",
                     reads_seed=run.reads_seed)
                continue
            if stree is not None and variant == 0:
                # "the successor": what the positions are compared with is the METANET next state of that argument
                spec_v = dyn.eval_all(stree, dyn.env_of(pv, sv))
                for k in keys:
                    v_, mag_, _b = spec_v[k]
                    if math.isfinite(v_) and not tree.close(v_, ref[k], mag_):
                        fail(out, f"C04:{topo_key(net)}:successor", net, pv, sv,
                             f"the next state {k} = {ref[k]!r} the positions are compared with is not the METANET successor {v_!r}",
                             observable=k)
                        break
            if stree is not None and variant == 0:
                # with the positive_init_* options the state argument is max(0, .) of what is passed: the results are the
                # successors of THAT state, for every element class
                svn = nets.random_state(net, pv, rng, "negative")
                o_ = {"pi_rho": True, "pi_v": True, "pi_w": True}
                svc = clamp_init(clamp_init(clamp_init(svn, "pi_rho"), "pi_v"), "pi_w")
                if not dyn.near_excluded(net, pv, svc):
                    spec_c = dyn.eval_all(stree, dyn.env_of(pv, svc))
                    for who in ("NumPy", "SX", "MX"):
                        try:
                            if who == "NumPy":
                                got_o = run.numpy_step(svn, o_)
                            else:
                                Fo, _ = run.function(who, ci % 3, False, o_)
                                got_o, _p = run.call(Fo, ci % 3, False, svn)
                        except Exception as ex:
                            fail(out, f"C04:{topo_key(net)}:init-options-raise", net, pv, svn, f"{who}, positive_init options: raised {ex!r:.300}", opts=o_)
                            continue
                        out["coverage"]["evaluations"] += 1
                        if got_o is None:
                            continue
                        for k in keys:
                            v_, mag_, _b = spec_c[k]
                            if math.isfinite(v_) and not tree.close(v_, got_o[k], mag_):
                                fail(out, f"C04:{topo_key(net)}:init-options", net, pv, svn,
                                     f"{who}, positive_init options on: {k} = {got_o[k]!r}; the successor of the clamped state is {v_!r}",
                                     opts=o_, observable=k)
                                break
            lev = {}
            for sym in ("SX", "MX"):
                # levels outside 0..2 are documented too: <= 0 is level 0, > 1 is level 2
                for compact_arg in (0, 1, 2, -1 - ci % 2, 3 + ci % 3):
                    compact = min(max(compact_arg, 0), 2)
                    for more in ((False, True) if not quick or compact_arg == ci % 3 or compact_arg > 2 else (bool(ci % 2),)):
                        tag = f"{sym} compact={compact_arg} more_out={more} names={'colliding' if variant else 'unique'}"
                        try:
                            F, R = run.function(sym, compact_arg, more)
                        except Exception as ex:
                            fail(out, f"C04:{topo_key(net)}:compile", net, pv, sv, f"{tag}: to_function raised {ex!r:.300}",
                                 names={str(k): v for k, v in names.items()})
                            continue
                        out["coverage"]["evaluations"] += 1
                        if F.has_free():
                            fail(out, f"C04:{topo_key(net)}:free", net, pv, sv, f"{tag}: free symbols {F.get_free()}")
                        vals, probs = run.call(F, compact, more, sv)
                        size_probs = [p for p in probs if "sizes" in p]
                        name_probs = [p for p in probs if "names" in p]
                        for p in name_probs:
                            out["info"].append(f"{net.family} {tag}: {p[:300]}")
                        if vals is None:
                            fail(out, f"C04:{topo_key(net)}:sizes:{compact}", net, pv, sv, f"{tag}: " + "; ".join(size_probs),
                                 names={str(k): v for k, v in names.items()}, compact=compact, sym=sym, more_out=more)
                            continue
                        bad = states_close(vals, ref, keys)
                        if bad:
                            k, x, y = bad[0]
                            fail(out, f"C04:{topo_key(net)}:pos:{compact}", net, pv, sv,
                                 f"{tag}: result in the position of {k} is {x!r}, the successor of that state "
                                 f"argument is {y!r}", compact=compact, sym=sym, more_out=more,
                                 names={str(k): v for k, v in names.items()})
                        lev[(sym, compact, more)] = vals
                        distinct.add((topo_key(net), sym, compact, more, variant))
                        # arguments are exactly the independent symbols: every input is a pure symbol
                        try:
                            import casadi as cs
                            for i in range(F.n_in()):
                                x = F.sx_in(i) if sym == "SX" else F.mx_in(i)
                                if sym == "SX" and not all(x[j].is_symbolic() for j in range(x.numel())):
                                    fail(out, f"C04:{topo_key(net)}:indep", net, pv, sv, f"{tag}: argument {i} is not a vector of independent symbols")
                        except Exception:
                            pass
    # ---- positions without reference to the documented order: whatever the caller supplied as initial
    # conditions (own symbols, keys in any order, only some of them) and whatever happened before (a step that
    # failed half-way), IF a function is returned, result k is named after - and as long as - state argument k
    import casadi as cs
    for ci, (net, pv, pts, mtree, stree, run0) in enumerate(data):
        for sym in ("SX", "MX"):
            symtype = getattr(cs, sym)
            for scenario in ("user-symbols", "failed-step"):
                try:
                    Rs = impl.Real(net, pv)
                    eng = impl.CsEngine(sym)
                    kw = Rs.step_kwargs()
                    what = scenario
                    if scenario == "user-symbols":
                        ic = {}
                        for j, (l, v) in enumerate(net.links.items()):
                            full = [("v", symtype.sym(f"uv{l}", v["N"], 1)), ("rho", symtype.sym(f"urho{l}", v["N"], 1))]
                            ic[Rs.links[l]] = dict(full if (j + ci) % 3 == 0 else (full[:1] if (j + ci) % 3 == 1 else full[::-1]))
                        Rs.net.step(init_conditions=ic, engine=eng, **kw)
                        what = "links initialised with the caller's own symbols, keys in the order " + \
                               str([list(d) for d in ic.values()])
                    else:
                        try:
                            Rs.net.step(engine=eng, **{k: v for k, v in kw.items() if k not in ("tau", "eta")})
                            continue          # (did not fail: nothing to check here)
                        except (TypeError, KeyError):
                            pass
                        what = "a Network.step that failed half-way (tau, eta missing)"
                    for compact in (0, 1):
                        try:
                            F = eng.to_function(Rs.net, compact=compact, more_out=False, **kw)
                        except RuntimeError:
                            continue          # refusing is always consistent with this clause
                        out["coverage"]["evaluations"] += 1
                        ni = [(F.name_in(i), F.size1_in(i)) for i in range(F.n_in())]
                        no = [(F.name_out(i), F.size1_out(i)) for i in range(F.n_out())]
                        want = [(n + "+", k) for n, k in ni[:len(no)]]
                        nstate = sum(1 for n, _ in ni if n.startswith(("rho_", "w_")) or
                                     (n.startswith("v_") and not n.startswith("v_ctrl_"))) if compact == 0 else \
                            sum(1 for n, _ in ni if n in ("rho", "v", "w"))
                        if no != want or len(no) != nstate:
                            fail(out, f"C04:{topo_key(net)}:position:{scenario}", net, pv, None,
                                 f"{sym} compact={compact}, {what}: results {no} are not the successors, position by "
                                 f"position, of the {nstate} state arguments {ni[:max(nstate, len(no))]}",
                                 sym=sym, compact=compact, scenario=scenario)
                except Exception as ex:
                    fail(out, f"C04:{topo_key(net)}:position-raise", net, pv, None,
                         f"{sym}, {scenario}: raised {ex!r:.300}", sym=sym, scenario=scenario)
    return finish(out, distinct, data, RULE + "; each network compiled with unique and with colliding element "
                  "names on SX/MX at compactness 0/1/2 with/without extra outputs; results compared positionally "
                  "with the NumPy step through the documented layout derived from the description; "
                  "distinct = (topology, symbol type, level, more_out, naming)")


# ---------------------------------------------------------------------------
def run_C05(ctx):
    out = new_outcome()
    distinct = set()
    quick = ctx["tier"] == "quick"
    rng = ctx["rng"]
    cases = gen_cases(ctx, 12 if quick else 120)
    data = correspondence(out, ctx, cases, engines=("cs",), per_case_points=2 if quick else 6,
                          sym_types=("SX",), distinct=distinct)
    tf_correspondence(out, ctx, [(run0, ("SX", "MX")[ci % 2], ci % 3, True,
                                  {"pi_v": True, "pi_w": True} if ci % 3 == 0 else None, None, pts[0][1])
                                 for ci, (net, pv, pts, mtree, stree, run0) in enumerate(data)])
    import casadi as cs_
    for ci, (net, pv, pts, mtree, stree, run0) in enumerate(data):
        # a control input fixed to a NUMBER by the caller (so the flow of an unlimited simplified ramp, or a rate,
        # is a constant, not a symbol): every link and every origin still has its flow among the extra outputs
        if net.origins and any(k_ != "ideal" for k_ in net.origins.values()):
            for sym in ("SX", "MX"):
                try:
                    Rn = impl.Real(net, pv)
                    eng = impl.CsEngine(sym)
                    ic = {}
                    for o, k_ in net.origins.items():
                        if k_ != "ideal":
                            act = {"main": "v_ctrl", "ramp_in": "r", "ramp_out": "r"}.get(k_, "q")
                            ic[Rn.origins[o]] = {act: {"main": 80.0, "ramp_in": 0.6, "ramp_out": 0.6}.get(k_, 400.0)}
                    Rn.net.step(init_conditions=ic, engine=eng, **Rn.step_kwargs())
                    for compact in (0, 1):
                        F = eng.to_function(Rn.net, compact=compact, more_out=True, **Rn.step_kwargs())
                        out["coverage"]["evaluations"] += 1
                        no = [(F.name_out(i), F.size1_out(i)) for i in range(F.n_out())]
                        n_qo = sum(1 for n, _ in no if n.startswith("q_o_")) if compact == 0 else sum(k for n, k in no if n == "q_o")
                        n_ql = sum(1 for n, _ in no if n.startswith("q_") and not n.startswith("q_o_")) if compact == 0 else \
                            sum(k for n, k in no if n == "q")
                        want_l = len(net.links) if compact == 0 else sum(v["N"] for v in net.links.values())
                        if n_qo != len(net.origins) or n_ql != want_l:
                            fail(out, f"C05:{topo_key(net)}:numeric-control", net, pv, None,
                                 f"{sym} compact={compact}, control inputs of the origins fixed to numbers: the extra outputs {no} "
                                 f"hold {n_qo} origin flows for {len(net.origins)} origins and {n_ql} link-flow entries (expected {want_l})",
                                 sym=sym, compact=compact)
                except Exception as ex:
                    fail(out, f"C05:{topo_key(net)}:numeric-control-raise", net, pv, None, f"{sym}: numeric control inputs: raised {ex!r:.300}")
        names = default_names(net) if ci % 2 == 0 else colliding_names(net, rng)
        run = Runner(net, pv, names=names, reads_seed=run0.reads_seed)
        T = pv["g.T"]
        for pi, (mode, sv) in enumerate(pts):
            for sym in ("SX", "MX"):
                for compact in ((0, 1, 2) if not quick else ((ci + pi) % 3,)):
                    # (every other point: with positive_next_queue on - where the next queue is positive anyway the
                    # clamp changes nothing and the reported flow is still the one in the queue update)
                    o5 = {"pn_w": True} if (pi + ci) % 2 else None
                    tag = f"{sym} compact={compact}" + (" positive_next_queue" if o5 else "")
                    try:
                        F, _ = run.function(sym, compact, True, o5)
                        vals, probs = run.call(F, compact, True, sv)
                        if o5 and vals is not None and any(vals[f"w+ {o} 0"] <= 0 for o, k_ in net.origins.items() if k_ != "ideal"):
                            F, _ = run.function(sym, compact, True)
                            vals, probs = run.call(F, compact, True, sv)
                            tag = f"{sym} compact={compact}"
                    except Exception as ex:
                        vals, probs = None, [f"raised {ex!r:.300}"]
                    out["coverage"]["evaluations"] += 1
                    if vals is None:
                        fail(out, f"C05:{topo_key(net)}:layout", net, pv, sv, f"{tag}: " + "; ".join(probs),
                             names={str(k): v for k, v in names.items()}, compact=compact, sym=sym)
                        continue
                    qin = flows_from_inputs(net, sv)
                    for (l, i), x in qin.items():
                        y = vals[f"q {l} {i}"]
                        if not tree.close(x, y, max(abs(x), 1.0)):
                            fail(out, f"C05:{topo_key(net)}:q", net, pv, sv,
                                 f"{tag}: reported flow of segment {i} of link {l} = {y!r}, rho*v*lanes of the input = {x!r}",
                                 compact=compact, sym=sym)
                            break
                    for o, k in net.origins.items():
                        if k == "ideal":
                            continue
                        w1 = sv[f"w.{o}"] + T * (sv[f"d.{o}"] - vals[f"qo {o} 0"])
                        if not tree.close(w1, vals[f"w+ {o} 0"], max(abs(sv[f"w.{o}"]), abs(T * vals[f"qo {o} 0"]), 1.0)):
                            fail(out, f"C05:{topo_key(net)}:w", net, pv, sv,
                                 f"{tag}: next queue of origin {o} = {vals[f'w+ {o} 0']!r} but w + T(d - reported flow) = {w1!r}",
                                 compact=compact, sym=sym)
                    qrep = {(l, i): vals[f"q {l} {i}"] for l, v in net.links.items() for i in range(v["N"])}
                    for msg in balance_failures(net, pv, sv, vals, qo_reported=vals, q_reported=qrep):
                        if msg.startswith("network"):
                            continue
                        fail(out, f"C05:{topo_key(net)}:balance", net, pv, sv, f"{tag}: " + msg, compact=compact, sym=sym)
    return finish(out, distinct, data, RULE + "; identities on the outputs of to_function(more_out=True): q = rho v lanes, "
                  "w+ = w + T(d - q_o), node balance with the reported origin flow")


# ---------------------------------------------------------------------------
def clamp_init(sv, flag):
    pre = {"pi_rho": "rho.", "pi_v": "v.", "pi_w": "w."}[flag]
    return {k: (max(0.0, x) if k.startswith(pre) else x) for k, x in sv.items()}


def run_C11(ctx):
    out = new_outcome()
    distinct = set()
    quick = ctx["tier"] == "quick"
    rng = ctx["rng"]
    cases = gen_cases(ctx, 6 if quick else 80)
    opts_pool = all_opts()
    # correspondence with a clamping option set
    some_opts = {"pi_rho": True, "pn_v": True, "pi_w": True}
    data = correspondence(out, ctx, cases, opts=some_opts, engines=("np",), per_case_points=1,
                          sym_types=("SX",), distinct=distinct)
    for ci, (net, pv, pts0, mtree, stree, run) in enumerate(data):
        keys = state_keys(net)
        for rep in range(2 if quick else 6):
            sv = nets.random_state(net, pv, rng, "negative")
            if dyn.near_excluded(net, pv, clamp_init(clamp_init(sv, "pi_rho"), "pi_v")) or dyn.near_excluded(net, pv, sv):
                continue
            chosen = [{n: (n == f) for n in OPT_NAMES} for f in OPT_NAMES] + \
                     [rng.choice(opts_pool) for _ in range(2 if quick else 8)] + [{n: False for n in OPT_NAMES}]
            for backend in ("np", "SX") if quick else ("np", "SX", "MX"):
                def step(svx, o):
                    if backend == "np":
                        return run.numpy_step(svx, o)
                    # (with the extra flow outputs: they are part of what the compiled step returns)
                    F, _ = run.function(backend, 0, True, o)
                    vals, probs = run.call(F, 0, True, svx)
                    if vals is None:
                        raise RuntimeError("; ".join(probs))
                    return vals
                try:
                    plain_cache = {}
                    # no option passed at all: the library's defaults are "all off" - the plain METANET step, also
                    # where that gives negative speeds, densities or queues
                    if stree is not None:
                        got_d = step(sv, None)
                        out["coverage"]["evaluations"] += 1
                        spec_d = dyn.eval_all(stree, dyn.env_of(pv, sv))
                        for k in keys:
                            v_, mag_, _b = spec_d[k]
                            if math.isnan(v_) or math.isnan(got_d[k]) or math.isinf(v_):
                                continue
                            if not tree.close(v_, got_d[k], mag_):
                                fail(out, f"C11:{topo_key(net)}:defaults", net, pv, sv,
                                     f"{backend}: no option passed (library defaults): {k} = {got_d[k]!r}, the unclamped METANET value "
                                     f"is {v_!r}", opts=None, backend=backend)
                                break
                    for o in chosen:
                        got = step(sv, o)
                        out["coverage"]["evaluations"] += 1
                        svc = sv
                        for f in ("pi_rho", "pi_v", "pi_w"):
                            if o[f]:
                                svc = clamp_init(svc, f)
                        base = step(svc, {n: False for n in OPT_NAMES})
                        # "with all options off nothing is clamped": the all-off step is the plain METANET step
                        # (specification tree), also where that gives negative speeds, densities or queues
                        if stree is not None and not any(o.values()):
                            spec_v = dyn.eval_all(stree, dyn.env_of(pv, sv))
                            for k in keys:
                                v_, mag_, _b = spec_v[k]
                                if math.isnan(v_) or math.isnan(got[k]) or math.isinf(v_):
                                    continue
                                if not tree.close(v_, got[k], mag_):
                                    fail(out, f"C11:{topo_key(net)}:alloff", net, pv, sv,
                                         f"{backend}: all options off: {k} = {got[k]!r}, the unclamped METANET value is {v_!r}",
                                         opts=o, backend=backend)
                                    break
                        exp = {}
                        for k in keys:
                            fl = {"rho+": "pn_rho", "v+": "pn_v", "w+": "pn_w"}[k.split()[0]]
                            exp[k] = max(0.0, base[k]) if o[fl] else base[k]
                        # a nan (negative density/speed left unclamped) is outside the admissible domain
                        cmpkeys = [k for k in keys if not math.isnan(base[k])]
                        # the reported flows are those of the plain step from the clamped state too (no next-option
                        # touches a flow)
                        for k in [k for k in got if k.split()[0] in ("q", "qo") and k in base and not math.isnan(base[k])]:
                            exp[k] = base[k]
                            cmpkeys.append(k)
                        bad = states_close(got, exp, cmpkeys)
                        distinct.add((topo_key(net), tuple(sorted(o.items())), backend))
                        if bad:
                            k, x, y = bad[0]
                            on = [n for n in OPT_NAMES if o[n]]
                            fail(out, f"C11:{topo_key(net)}:{'+'.join(on) or 'none'}", net, pv, sv,
                                 f"{backend}: options {on}: {k} = {x!r}, clamp(plain(clamp(x))) gives {y!r}",
                                 opts=o, backend=backend)
                except Exception as ex:
                    fail(out, f"C11:{topo_key(net)}:raise", net, pv, sv,
                         f"{backend}: stepping with positivity options raised {ex!r:.300} (network objects re-used "
                         f"across option sets and engines)", backend=backend, reads_seed=run.reads_seed)
    for ci, (net, pv, pts, mtree, stree, run) in enumerate(data):
        if any(k_ != "ideal" for k_ in net.origins.values()):
            handed_back_next_states(out, "C11", net, pv, rng, state_keys(net))
    return finish(out, distinct, data, RULE + "; states with negative entries; each single option, random "
                  "combinations and none; NumPy and CasADi; distinct = (topology, option set, backend)")


def handed_back_next_states(out, prop, net, pv, rng, keys):
    """the simulation-loop idiom: the VALUES a step produced (the very objects of element.next_states, with the actions
    and disturbances the elements hold) are the initial conditions of the next step, which asks for the
    positive_init_* clamps; a fresh twin network stepped from copies of the same numbers must give the same result
    (a next state can be negative: METANET does not keep queues, densities or speeds positive)"""
    svn = nets.random_state(net, pv, rng, "negative")
    if dyn.near_excluded(net, pv, svn):
        return
    o_ = {"pi_rho": True, "pi_v": True, "pi_w": True}
    try:
        Ra = impl.Real(net, pv)
        Ra.numpy_step(svn)                       # no clamping: negative next states are possible
        els = [(("l", l), Ra.links[l]) for l in Ra.links] + [(("o", o), Ra.origins[o]) for o in Ra.origins] + \
              [(("d", d), Ra.dests[d]) for d in Ra.dests]
        given = {}
        for kk, el in els:
            if el not in set(Ra.net.elements):
                continue
            dct = {}
            for grp in (el.next_states, el.actions, el.disturbances):
                for k, v in (grp or {}).items():
                    dct[k] = v                    # the object itself, not a copy
            if dct:
                given[kk] = (el, dct)
        Rb = impl.Real(net, pv)
        twin = {("l", l): Rb.links[l] for l in Rb.links}
        twin.update({("o", o): Rb.origins[o] for o in Rb.origins})
        twin.update({("d", d): Rb.dests[d] for d in Rb.dests})
        ic_a = {el: dct for (el, dct) in given.values()}
        ic_b = {twin[kk]: {k: np.array(v, dtype=float, copy=True) for k, v in dct.items()} for kk, (el, dct) in given.items()}
        neg = any(float(np.min(np.asarray(v, dtype=float))) < 0 for (_, dct) in given.values() for v in dct.values()
                  if np.size(v))
        with np.errstate(all="ignore"):
            Ra.net.step(init_conditions=ic_a, engine=impl.NpEngine(5.5), **nets.opts_kwargs(o_), **Ra.step_kwargs())
            Rb.net.step(init_conditions=ic_b, engine=impl.NpEngine(5.5), **nets.opts_kwargs(o_), **Rb.step_kwargs())
        out["coverage"]["evaluations"] += 1
        a_, b_ = Ra.read_next(), Rb.read_next()
        for k in keys:
            if not same_float(a_[k], b_[k]) and not (math.isnan(a_[k]) and math.isnan(b_[k])):
                fail(out, f"{prop}:{topo_key(net)}:handed-back", net, pv, svn,
                     f"second step from the next states of the first (the objects themselves; some negative: {neg}) with the "
                     f"positive_init options gives {k} = {a_[k]!r}; a fresh network from copies of the same numbers gives {b_[k]!r}",
                     opts=o_)
                break
    except Exception as ex:
        fail(out, f"{prop}:{topo_key(net)}:handed-back-raise", net, pv, svn,
             f"stepping from the next states of the previous step raised {ex!r:.300}")



# ---------------------------------------------------------------------------
def rebuilt(net, rng, scale=True):
    """the same network added in another order, with explicit add_node calls, other names
    (possibly colliding), and the turn rates of each node's leaving links scaled"""
    n2 = nets.Net()
    n2.links, n2.origins, n2.dests = dict(net.links), dict(net.origins), dict(net.dests)
    n2.has_delta, n2.has_phi, n2.family = net.has_delta, net.has_phi, net.family
    ops = [op for op in net.ops if op[0] != "node" and op[0] != "use"
           and not (op[0] == "link" and op[2] in net.x_links)
           and not (op[0] == "origin" and op[1] in net.x_origins)
           and not (op[0] == "dest" and op[1] in net.x_dests)]
    rng.shuffle(ops)
    nodes = sorted({x for op in ops if op[0] == "link" for x in (op[1], op[3])})
    rng.shuffle(nodes)
    for n in nodes:
        if rng.random() < 0.5:
            ops.insert(rng.randrange(len(ops) + 1), ("node", n))
    n2.ops = ops
    names = {}
    pool = ["a", "b", "c", "a", "zz", "L1", "O1"]
    for k in default_names(net):
        names[k] = rng.choice(pool) + (str(rng.randrange(3)) if rng.random() < 0.5 else "")
    factors = {}
    if scale:
        nodes_, edges = net.graph()
        for (n, _, _) in nodes_:
            factors[n] = rng.choice([1.0, 0.5, 3.0, 10.0, 1e-6, 1e-3, 2.0 ** -20, 1e5])   # any positive factor
    return n2, names, factors


def run_C14(ctx):
    out = new_outcome()
    distinct = set()
    quick = ctx["tier"] == "quick"
    rng = ctx["rng"]
    cases = gen_cases(ctx, 12 if quick else 120)
    data = correspondence(out, ctx, cases, engines=("np",), per_case_points=1, sym_types=("SX",),
                          distinct=distinct)
    for ci, (net, pv, pts, mtree, stree, run) in enumerate(data):
        keys = state_keys(net)
        sv = pts[0][1]
        try:
            ref = run.numpy_step(sv)
        except Exception as ex:
            continue
        for rep in range(2 if quick else 6):
            n2, names, factors = rebuilt(net, rng)
            pv2 = dict(pv)
            _, edges = net.graph()
            for (u, d, l) in edges:
                pv2[f"lp.{l}.turnrate"] = pv[f"lp.{l}.turnrate"] * factors.get(u, 1.0)
            run2 = Runner(n2, pv2, names=names, reads_seed=rep if rep % 2 else None)
            what = f"order={n2.ops} names={sorted(set(names.values()))} scale={factors}"
            try:
                got = run2.numpy_step(sv)
                out["coverage"]["evaluations"] += 1
                bad = states_close(got, ref, keys)
                if bad:
                    k, x, y = bad[0]
                    fail(out, f"C14:{topo_key(net)}:np", net, pv, sv, f"NumPy: rebuilt network gives {k} = {x!r}, original {y!r}; {what}",
                         rebuilt=n2.to_json(), pv2=pv2, names={str(k_): v for k_, v in names.items()})
                for sym, compact in ((("SX", 0),) if quick else (("SX", 0), ("MX", 0), ("SX", 1), ("SX", 2))):
                    F, _ = run2.function(sym, compact, False)
                    vals, probs = run2.call(F, compact, False, sv)
                    out["coverage"]["evaluations"] += 1
                    if vals is None:
                        fail(out, f"C14:{topo_key(net)}:cs", net, pv, sv, f"CasADi {sym} compact={compact} on the rebuilt network: " + "; ".join(p for p in probs if "sizes" in p) + "; " + what,
                             rebuilt=n2.to_json(), names={str(k_): v for k_, v in names.items()})
                        continue
                    bad = states_close(vals, ref, keys)
                    if bad:
                        k, x, y = bad[0]
                        fail(out, f"C14:{topo_key(net)}:cs", net, pv, sv, f"CasADi {sym} compact={compact}: rebuilt network gives {k} = {x!r}, original {y!r}; {what}",
                             rebuilt=n2.to_json(), pv2=pv2, names={str(k_): v for k_, v in names.items()})
                distinct.add((topo_key(net), tuple(n2.ops)))
            except Exception as ex:
                fail(out, f"C14:{topo_key(net)}:raise", net, pv, sv, f"rebuilt network raised {ex!r:.300}; {what}",
                     rebuilt=n2.to_json(), names={str(k_): v for k_, v in names.items()})
        # share of a node's inflow received by a leaving link = beta / sum(beta)
        try:
            F, _ = run.function("SX", 0, True)
            vals, probs = run.call(F, 0, True, sv)
        except Exception:
            vals = None
        if vals is not None:
            nodes_, edges = net.graph()
            T = pv["g.T"]
            for (n, o, d) in nodes_:
                outs = [e for e in edges if e[0] == n]
                if len(outs) < 2:
                    continue
                qin = {l: vals[f"q {l} 0"] + (vals[f"rho+ {l} 0"] - sv[f"rho.{l}.0"]) * net.links[l]["lanes"] * pv[f"lp.{l}.L"] / T
                       for (_, _, l) in outs}
                tot = sum(qin.values())
                sb = sum(pv[f"lp.{l}.turnrate"] for (_, _, l) in outs)
                for (_, _, l) in outs:
                    exp = pv[f"lp.{l}.turnrate"] / sb * tot
                    if not tree.close(qin[l], exp, max(abs(tot), 1.0) * 1e3):
                        fail(out, f"C14:{topo_key(net)}:share", net, pv, sv,
                             f"link {l} leaving node {n} receives {qin[l]!r} of the node inflow {tot!r}; turn-rate share gives {exp!r}")
    return finish(out, distinct, data, RULE + "; each network rebuilt in shuffled order with explicit add_node calls, random "
                  "(colliding) names and per-node turn-rate scaling; distinct = (topology, construction order)")


# ---------------------------------------------------------------------------
# C10: structural dependence of the compiled function  ⊆  variables of the specification tree
def symbolic_deps(R, net, shared=False):
    """step the real network with an SX engine and return {result key: set of input tokens its expression
    contains}; a symbol that is not a variable of this network is reported as 'foreign <name>'.
    shared: all queued origins are given one and the same (empty, i.e. partial) dictionary of initial conditions"""
    import casadi as cs
    eng = impl.CsEngine("SX")
    if shared:
        one = {}
        ic = {R.origins[o]: one for o, k in net.origins.items() if k != "ideal"}
        R.net.step(init_conditions=ic, engine=eng, **R.step_kwargs())
    else:
        R.net.step(engine=eng, **R.step_kwargs())
    tok = {}

    def reg(x, toks):
        for i, t in enumerate(toks):
            tok[x[i].__hash__()] = t
    for l, v in net.links.items():
        el = R.links[l]
        reg(el.states["rho"], [f"rho.{l}.{i}" for i in range(v["N"])])
        reg(el.states["v"], [f"v.{l}.{i}" for i in range(v["N"])])
        if v["vsl"] is not None:
            reg(el.actions["v_ctrl"], [f"vc.{l}.{k}" for k in range(len(v["vsl"]))])
    for o, k in net.origins.items():
        if k == "ideal":
            continue
        el = R.origins[o]
        reg(el.states["w"], [f"w.{o}"])
        reg(el.disturbances["d"], [f"d.{o}"])
        for a in el.actions.values():
            reg(a, [f"u.{o}"])
    for d, k in net.dests.items():
        if k == "cong":
            reg(R.dests[d].disturbances["d"], [f"dd.{d}"])
    deps = {}

    def dep(key, expr):
        deps[key] = {tok.get(s.__hash__(), "foreign " + s.name()) for s in cs.symvar(expr)}
    for l, v in net.links.items():
        ns = R.links[l].next_states
        for i in range(v["N"]):
            dep(f"rho+ {l} {i}", ns["rho"][i])
            dep(f"v+ {l} {i}", ns["v"][i])
    for o, k in net.origins.items():
        if k != "ideal":
            dep(f"w+ {o} 0", R.origins[o].next_states["w"])
    return deps


def run_C10(ctx):
    import casadi as cs
    out = new_outcome()
    distinct = set()
    quick = ctx["tier"] == "quick"
    rng = ctx["rng"]
    cases = gen_cases(ctx, 12 if quick else 120)
    data = correspondence(out, ctx, cases, engines=("cs",), per_case_points=1, sym_types=("SX",),
                          distinct=distinct)
    for ci, (net, pv, pts, mtree, stree, run) in enumerate(data):
        if stree is None:
            continue
        sv = pts[0][1]
        # the stepped expressions themselves (no compilation needed): every symbol a next state is built
        # from must be one of its model neighbours; a symbol that is no variable of this network at
        # all (left over from another network or an earlier step) is an outside influence as well
        nq = sum(1 for k_ in net.origins.values() if k_ != "ideal")
        for shared in ((False, True) if nq >= 2 else (False,)):
            try:
                deps = symbolic_deps(run.R if not shared else impl.Real(net, pv), net, shared)
            except Exception as ex:
                disagree(out, net, pv, sv, f"symbolic step raised {ex!r:.200}")
                deps = {}
            for okey, toks in deps.items():
                allowed = tree.tree_vars(stree[okey])
                out["coverage"]["evaluations"] += 1
                for itok in sorted(toks - allowed):
                    fail(out, f"C10:{topo_key(net)}:sym:{okey.split()[0]}", net, pv, sv,
                         f"SX step{' (all queued origins given one shared empty dictionary of initial conditions)' if shared else ''}"
                         f": the expression of {okey} contains {itok}, which is not among its model neighbours "
                         f"{sorted(allowed & set(sv))} (case {ci} of this run: earlier cases were stepped before in the "
                         f"same process)", observable=okey, input=itok, case_index=ci, shared_dict=shared)
        for sym in (("SX",) if quick else ("SX", "MX")):
            for compact in ((0, ci % 2 + 1) if quick else (0, 1, 2)):
                try:
                    F, _ = run.function(sym, compact, False)
                except Exception as ex:
                    disagree(out, net, pv, sv, f"compile raised {ex!r:.200}")
                    continue
                ilay = in_layout(net, compact, run.names)
                olay = out_layout(net, compact, False, run.names)
                if [F.size1_in(i) for i in range(F.n_in())] != [len(t) for _, t in ilay] or \
                        [F.size1_out(i) for i in range(F.n_out())] != [len(t) for _, t in olay]:
                    fail(out, f"C10:{topo_key(net)}:layout", net, pv, sv, f"{sym} compact={compact}: layout differs from the documented one")
                    continue
                for oi, (_, otoks) in enumerate(olay):
                    for ii, (_, itoks) in enumerate(ilay):
                        if not itoks or not otoks:
                            continue
                        sp = F.jac_sparsity(oi, ii)
                        rows, cols = sp.get_triplet()
                        for r, c in zip(rows, cols):
                            okey, itok = otoks[r], itoks[c]
                            allowed = tree.tree_vars(stree[okey])
                            out["coverage"]["evaluations"] += 1
                            if itok not in allowed:
                                fail(out, f"C10:{topo_key(net)}:{okey.split()[0]}", net, pv, sv,
                                     f"{sym} compact={compact}: result {okey} depends on {itok}, which is not "
                                     f"among its model neighbours {sorted(allowed & set(sv))}", observable=okey, input=itok)
                distinct.add((topo_key(net), sym, compact))
        # numeric confirmation on the NumPy engine: perturb every input outside the neighbour set
        try:
            ref = run.numpy_step(sv)
        except Exception:
            continue
        # what the elements are called has no influence either: colliding names, same initial conditions
        try:
            again = Runner(net, pv, names=colliding_names(net, rng)).numpy_step(sv)
            out["coverage"]["evaluations"] += 1
            for k in state_keys(net):
                if not (again[k] == ref[k] or (math.isnan(again[k]) and math.isnan(ref[k]))):
                    fail(out, f"C10:{topo_key(net)}:np:names", net, pv, sv,
                         f"NumPy: with colliding element names {k} = {again[k]!r}, with unique names {ref[k]!r}: "
                         f"an element's next state depends on another element's data", observable=k)
                    break
        except Exception as ex:
            fail(out, f"C10:{topo_key(net)}:np:names-raise", net, pv, sv, f"NumPy step with colliding names raised {ex!r:.200}")
        # the turn rate of a link matters to the links leaving the same node (their first-segment densities) and to
        # nothing else in the network
        try:
            _n10, edges10 = net.graph()
            for lt in (sorted(net.links) if not quick else rng.sample(sorted(net.links), min(3, len(net.links)))):
                up_ = [u for (u, d, l) in edges10 if l == lt][0]
                sibl = {l for (u, d, l) in edges10 if u == up_}
                pvt = dict(pv)
                pvt[f"lp.{lt}.turnrate"] = pv[f"lp.{lt}.turnrate"] * 1.7 + 0.05
                if dyn.near_excluded(net, pvt, sv):
                    continue
                gott = Runner(net, pvt).numpy_step(sv)
                out["coverage"]["evaluations"] += 1
                for k in state_keys(net):
                    if k.split()[0] == "rho+" and int(k.split()[1]) in sibl and int(k.split()[2]) == 0:
                        continue
                    if not (gott[k] == ref[k] or (math.isnan(gott[k]) and math.isnan(ref[k]))):
                        fail(out, f"C10:{topo_key(net)}:np:turnrate", net, pv, sv,
                             f"NumPy: changing the turn rate of link {lt} (leaving node {up_}) changes {k} ({ref[k]!r} -> {gott[k]!r}), "
                             f"which is not the first-segment density of a link leaving that node", observable=k, input=f"lp.{lt}.turnrate")
                        break
        except Exception as ex:
            fail(out, f"C10:{topo_key(net)}:np:turnrate-raise", net, pv, sv, f"stepping with another turn rate raised {ex!r:.200}")
        toks = [t for t in sv if not t.startswith("vc.") or True]
        # every chosen input is scaled; besides, the density and the speed of the last segment of every link are set to
        # exactly zero one at a time (an empty or standing segment: the flow it sends on is 0, and nothing that is
        # not its neighbour may notice - not even through a 0/0)
        plan = [(t, None) for t in (toks if not quick else rng.sample(toks, min(len(toks), 6)))]
        plan += [(f"{q_}.{l}.{v_['N'] - 1}", 0.0) for l, v_ in net.links.items() for q_ in ("rho", "v")]
        for t, newval in plan:
            sv2 = dict(sv)
            sv2[t] = sv[t] * 1.37 + 0.91 if newval is None else newval
            if dyn.near_excluded(net, pv, sv2):
                continue
            try:
                got = run.numpy_step(sv2)
            except Exception:
                continue
            out["coverage"]["evaluations"] += 1
            for k in state_keys(net):
                if t in tree.tree_vars(stree[k]):
                    continue
                if not (got[k] == ref[k] or (math.isnan(got[k]) and math.isnan(ref[k]))):
                    fail(out, f"C10:{topo_key(net)}:np:{k.split()[0]}", net, pv, sv,
                         f"NumPy: changing {t} changes {k} ({ref[k]!r} -> {got[k]!r}) although it is not a model neighbour",
                         observable=k, input=t)
    return finish(out, distinct, data, RULE + "; Jacobian sparsity of to_function at compactness 0/1/2 per result entry must "
                  "be inside the variable set of that entry's specification tree; NumPy perturbation of non-neighbours")


# ---------------------------------------------------------------------------
def run_C16(ctx):
    out = new_outcome()
    distinct = set()
    quick = ctx["tier"] == "quick"
    rng = ctx["rng"]
    cases = gen_cases(ctx, 6 if quick else 80)
    data = correspondence(out, ctx, cases, engines=("cs",), per_case_points=1, sym_types=("SX",),
                          distinct=distinct)
    tfjobs16 = []
    for ci, (net, pv, pts, mtree, stree, run) in enumerate(data):
        keys = state_keys(net)
        sv = pts[0][1]
        cand = []
        for l in net.links:
            cand += [f"lp.{l}.{p}" for p in ("rho_crit", "v_free", "a", "L", "rho_max", "turnrate")]
            if net.links[l]["vsl"] is not None:
                cand.append(f"lp.{l}.alpha")
        cand += [f"C.{o}" for o, k in net.origins.items() if k in nets.RAMPS]
        cand += ["g.T", "g.tau", "g.eta", "g.kappa"] + (["g.delta"] if net.has_delta else []) + (["g.phi"] if net.has_phi else [])
        plain = Runner(net, pv)
        for rep in range(2 if quick else 5):
            ptoks = rng.sample(cand, rng.randint(1, min(6, len(cand))))
            if rep == 0:
                ptoks = [t for t in cand if t.startswith("g.")][::-1] + ptoks[:2]
                ptoks = list(dict.fromkeys(ptoks))
            tfjobs16.append((run, ("SX", "MX")[(ci + rep) % 2], (ci + rep) % 3, bool(rep % 2), None, list(ptoks), sv))
            for sym in ("SX", "MX"):
                # (levels outside 0..2 are documented: <= 0 separate trailing arguments, > 0 one stacked vector)
                for compact in ((0, 1, 2, -1, -2, 3) if not quick else ((ci + rep) % 3, (-1 - ci % 2) if rep == 0 else 3)):
                    more = bool((ci + rep) % 2)
                    tag = f"{sym} compact={compact} more_out={more} parameters={ptoks}"
                    try:
                        # (the numeric compilation is that of fresh objects stepped once; the symbolic one may
                        # come with a history - see Runner.function)
                        Fn, _ = plain.function(sym, compact, more)
                        ref, probs = plain.call(Fn, compact, more, sv)
                        if ref is None:
                            continue
                    except Exception:
                        continue
                    try:
                        Fp, _ = run.function(sym, compact, more, None, ptoks)
                    except Exception as ex:
                        fail(out, f"C16:{topo_key(net)}:compile", net, pv, sv, f"{tag}: compiling with symbolic parameters raised {ex!r:.300}",
                             ptoks=ptoks, sym=sym, compact=compact)
                        continue
                    while run.param_issues:
                        fail(out, f"C16:{topo_key(net)}:dict", net, pv, sv, f"parameters={ptoks}: " + run.param_issues.pop(0),
                             ptoks=ptoks, sym=sym, compact=compact)
                    vals, probs = run.call(Fp, compact, more, sv, ptoks)
                    out["coverage"]["evaluations"] += 1
                    distinct.add((topo_key(net), tuple(ptoks), sym, compact))
                    if vals is None:
                        fail(out, f"C16:{topo_key(net)}:layout", net, pv, sv, f"{tag}: " + "; ".join(probs), ptoks=ptoks, sym=sym, compact=compact)
                        continue
                    for p in probs:
                        if "argument names" in p:
                            fail(out, f"C16:{topo_key(net)}:order", net, pv, sv, f"{tag}: {p[:400]}", ptoks=ptoks, sym=sym, compact=compact)
                    allk = keys + ([k for k in ref if k.startswith("q")] if more else [])
                    bad = states_close(vals, ref, allk)
                    if bad:
                        k, x, y = bad[0]
                        fail(out, f"C16:{topo_key(net)}:value", net, pv, sv,
                             f"{tag}: {k} = {x!r} with symbolic parameters evaluated at their values, {y!r} with numbers",
                             ptoks=ptoks, sym=sym, compact=compact)
        # one declared entry that is itself a stack of symbols (legal: any symbolic expression of free symbols)
        try:
            import casadi as cs
            l0 = sorted(net.links)[0]
            toks3 = [f"lp.{l0}.rho_crit", f"lp.{l0}.a", f"lp.{l0}.v_free"]
            for sym in ("SX", "MX"):
                st_ = getattr(cs, sym)
                sp = {t: st_.sym(pname(t)) for t in toks3}
                Rk = impl.Real(net, pv, sym_params=sp)
                eng = impl.CsEngine(sym)
                Rk.net.step(engine=eng, **Rk.step_kwargs())
                Fk = eng.to_function(Rk.net, compact=0, more_out=False, parameters={"link_pars": cs.vertcat(*[sp[t] for t in toks3])},
                                     **Rk.step_kwargs())
                out["coverage"]["evaluations"] += 1
                if (Fk.name_in(Fk.n_in() - 1), Fk.size1_in(Fk.n_in() - 1)) != ("link_pars", 3):
                    fail(out, f"C16:{topo_key(net)}:stacked-entry", net, pv, sv,
                         f"{sym}: a declared entry that stacks three symbols is not the trailing argument of size 3: last argument "
                         f"{(Fk.name_in(Fk.n_in() - 1), Fk.size1_in(Fk.n_in() - 1))}", sym=sym)
                    continue
                lay = in_layout(net, 0, default_names(net))
                env = dyn.env_of(pv, sv)
                args = [cs.DM([env[t] for t in toks]) if toks else cs.DM(0, 1) for _, toks in lay] + [cs.DM([pv[t] for t in toks3])]
                res = Fk(*args)
                res = res if isinstance(res, (list, tuple)) else [res]
                olay = out_layout(net, 0, False, default_names(net))
                gotk = {}
                for (n_, toks), r_ in zip(olay, res):
                    for t_, x_ in zip(toks, np.array(r_, dtype=float).reshape(-1)):
                        gotk[t_] = float(x_)
                Fn_, _ = plain.function(sym, 0, False)
                refk, _p = plain.call(Fn_, 0, False, sv)
                bad = states_close(gotk, refk, keys) if refk is not None else []
                if bad:
                    k, x, y = bad[0]
                    fail(out, f"C16:{topo_key(net)}:stacked-entry-value", net, pv, sv,
                         f"{sym}: parameters declared as one stacked entry: {k} = {x!r}, compiled with the numbers {y!r}", sym=sym)
        except Exception as ex:
            fail(out, f"C16:{topo_key(net)}:stacked-entry-raise", net, pv, sv,
                 f"a declared parameter entry that is a stack of three symbols: raised {ex!r:.300}")
        # TWO declared entries that are stacks of three symbols each (one per link), aggregated level: the single
        # stacked vector holds the first entry's three symbols, then the second's - in the order declared
        try:
            import casadi as cs
            ls_ = sorted(net.links)[:2]
            if len(ls_) == 2:
                toksA = [f"lp.{ls_[0]}.rho_crit", f"lp.{ls_[0]}.a", f"lp.{ls_[0]}.v_free"]
                toksB = [f"lp.{ls_[1]}.rho_crit", f"lp.{ls_[1]}.a", f"lp.{ls_[1]}.v_free"]
                for sym in ("SX",):
                    st_ = getattr(cs, sym)
                    thA, thB = st_.sym("thA", 3, 1), st_.sym("thB", 3, 1)
                    sp = {t: thA[i] for i, t in enumerate(toksA)}
                    sp.update({t: thB[i] for i, t in enumerate(toksB)})
                    Rk = impl.Real(net, pv, sym_params=sp)
                    eng = impl.CsEngine(sym)
                    Rk.net.step(engine=eng, **Rk.step_kwargs())
                    tokL = f"lp.{ls_[0]}.L"
                    symL = st_.sym("L_last")
                    sp[tokL] = symL
                    Rk = impl.Real(net, pv, sym_params=sp)
                    eng = impl.CsEngine(sym)
                    Rk.net.step(engine=eng, **Rk.step_kwargs())
                    # (a scalar declared AFTER the two vectors: it comes last in the stacked vector)
                    Fk = eng.to_function(Rk.net, compact=1, more_out=False, parameters={"thA": thA, "thB": thB, "L_last": symL},
                                         **Rk.step_kwargs())
                    out["coverage"]["evaluations"] += 1
                    gotk, probs = Runner(net, pv).call(Fk, 1, False, sv, ptoks=toksA + toksB + [tokL])
                    Fn_, _ = plain.function(sym, 1, False)
                    refk, _p = plain.call(Fn_, 1, False, sv)
                    if gotk is None:
                        fail(out, f"C16:{topo_key(net)}:two-stacked-layout", net, pv, sv,
                             f"{sym} compact=1, two declared entries of three symbols each: " + "; ".join(probs)[:300], sym=sym)
                    elif refk is not None:
                        bad = states_close(gotk, refk, keys)
                        if bad:
                            k, x, y = bad[0]
                            fail(out, f"C16:{topo_key(net)}:two-stacked-value", net, pv, sv,
                                 f"{sym} compact=1, parameters declared as two stacked entries (thA for link {ls_[0]}, thB for link "
                                 f"{ls_[1]}, then the scalar L of link {ls_[0]}; p in that order): {k} = {x!r}, compiled with the numbers {y!r}", sym=sym)
        except Exception as ex:
            fail(out, f"C16:{topo_key(net)}:two-stacked-raise", net, pv, sv,
                 f"two declared parameter entries that are stacks of three symbols, compact=1: raised {ex!r:.300}")
        # the turn rates of all links leaving one node declared symbolic and evaluated at EQUAL values (the
        # default 1.0): distinct symbols, equal numbers
        nodes_, edges_ = net.graph()
        for (n_, _o, _d) in nodes_:
            outs = [l for (u, d, l) in edges_ if u == n_]
            if len(outs) < 2:
                continue
            pv2 = dict(pv)
            almost_one = ci % 2 == 1          # (every other case: un-normalised rates whose sum is 1.0009)
            for j_, l in enumerate(outs):
                pv2[f"lp.{l}.turnrate"] = 1.0 if not almost_one else (1.0009 / len(outs)) * (1 + 0.3 * (j_ - (len(outs) - 1) / 2))
            if dyn.near_excluded(net, pv2, sv):
                continue
            run2 = Runner(net, pv2)
            ptoks = [f"lp.{l}.turnrate" for l in outs]
            for sym in ("SX", "MX"):
                compact = ci % 3
                tag = f"{sym} compact={compact} turn rates of the links leaving node {n_} symbolic, evaluated at " + \
                      ("1.0 each" if not almost_one else f"{[round(pv2[t], 6) for t in ptoks]} (sum 1.0009)")
                try:
                    Fn, _ = run2.function(sym, compact, False)
                    ref, _p = run2.call(Fn, compact, False, sv)
                    Fp, _ = run2.function(sym, compact, False, None, ptoks)
                    vals, probs = run2.call(Fp, compact, False, sv, ptoks)
                except Exception as ex:
                    fail(out, f"C16:{topo_key(net)}:equal-turnrates-raise", net, pv2, sv, f"{tag}: raised {ex!r:.300}", ptoks=ptoks)
                    continue
                out["coverage"]["evaluations"] += 1
                if ref is None or vals is None:
                    continue
                bad = states_close(vals, ref, keys)
                if bad:
                    k, x, y = bad[0]
                    fail(out, f"C16:{topo_key(net)}:equal-turnrates", net, pv2, sv,
                         f"{tag}: {k} = {x!r}, compiled with the numbers {y!r}", ptoks=ptoks, sym=sym, compact=compact)
            break
    tf_correspondence(out, ctx, tfjobs16)
    return finish(out, distinct, data, RULE + "; random subsets and orders of link/origin/model parameters made symbolic and declared; "
                  "SX/MX, compactness 0/1/2, with/without extra outputs; distinct = (topology, parameter list, symbol type, level)")


# ---------------------------------------------------------------------------
def corner_state(net, pv, rng):
    """states where several limits of the origin laws are active at once"""
    sv = nets.random_state(net, pv, rng, "boundary")
    for o, k in net.origins.items():
        sv[f"w.{o}"] = rng.choice([0.0, 0.0, 5.0, 500.0])
        sv[f"d.{o}"] = rng.choice([0.0, 100.0, 5000.0, 20000.0])
        if k == "main":
            sv[f"u.{o}"] = rng.choice([0.0, 1.0, 4.0, 50.0, 1e6, math.inf])
        elif k in ("ramp_in", "ramp_out"):
            sv[f"u.{o}"] = rng.choice([0.0, 1.0, 0.5, 0.97])
        else:
            sv[f"u.{o}"] = rng.choice([0.0, 1e6, 1500.0, math.inf])
    nodes, edges = net.graph()
    for (n, o, d) in nodes:
        if o is not None:
            for (_, _, l) in [e for e in edges if e[0] == n]:
                sv[f"rho.{l}.0"] = rng.choice([0.0, pv[f"lp.{l}.rho_max"], pv[f"lp.{l}.rho_crit"], 5.0,
                                               0.5 * (pv[f"lp.{l}.rho_max"] + pv[f"lp.{l}.rho_crit"])])
                sv[f"v.{l}.0"] = rng.choice([0.0, 1.0, 0.04 * pv[f"lp.{l}.v_free"], 60.0, 150.0])
    return sv


def run_C17(ctx):
    from harness import p_prims
    out = p_prims.run_primitives(ctx, 8 if ctx["tier"] == "quick" else 80, judge_C17_prim)
    distinct = set()
    quick = ctx["tier"] == "quick"
    rng = ctx["rng"]
    cases = [n for n in gen_cases(ctx, 12 if quick else 120) if any(k != "ideal" for k in n.origins.values())]
    out2 = new_outcome()
    data = correspondence(out2, ctx, cases, engines=("np",), per_case_points=1, sym_types=("SX",), distinct=distinct)
    out["disagreements"] += out2["disagreements"]
    for ci, (net, pv, pts, mtree, stree, run) in enumerate(data):
        T = pv["g.T"]
        nodes, edges = net.graph()
        node_of = {o: n for (n, o, d) in nodes if o is not None}
        for rep in range(4 if quick else 20):
            sv = corner_state(net, pv, rng)
            if rep == 0:
                # always once: every origin's link jammed to exactly ITS maximum density, demand and queue present (the
                # flow of a metered or limited simplified origin is then zero, whatever link was there before)
                for o_, k_ in net.origins.items():
                    l_ = [e for e in edges if e[0] == node_of[o_]][0][2]
                    sv[f"rho.{l_}.0"] = pv[f"lp.{l_}.rho_max"]
                    sv[f"d.{o_}"], sv[f"w.{o_}"] = 5000.0, 5.0
                    if k_ in ("ramp_in", "ramp_out"):
                        sv[f"u.{o_}"] = 1.0
                    elif k_ in ("simp_lim", "simp_unl"):
                        sv[f"u.{o_}"] = 1500.0
            if dyn.near_excluded(net, pv, sv):
                continue
            results = []
            try:
                results.append(("NumPy", run.numpy_step(sv), None))
            except Exception as ex:
                pass
            try:
                F, _ = run.function("SX", 0, True)
                vals, probs = run.call(F, 0, True, sv)
                if vals is not None:
                    results.append(("CasADi", vals, vals))
            except Exception:
                pass
            # the same with keywords named after element parameters passed along (as the project's own tests do): an
            # origin is limited by the densities of the link it feeds, whatever else is passed to the step
            try:
                if rep < 2:
                    stray = {"rho_max": 0.6 * min(pv[f"lp.{l_}.rho_max"] for l_ in net.links),
                             "rho_crit": 1.4 * max(pv[f"lp.{l_}.rho_crit"] for l_ in net.links),
                             "v_free": 1.0, "a": 9.0, "lanes": 7, "L": 0.01, "C": 1e5, "turnrate": 0.123, "alpha": 5.0}
                    runs = Runner(net, pv, stray=stray)
                    results.append(("NumPy, stray element-parameter keywords", runs.numpy_step(sv), None))
                    Fs, _ = runs.function("SX", 0, True)
                    valss, probs = runs.call(Fs, 0, True, sv)
                    if valss is not None:
                        results.append(("CasADi, stray element-parameter keywords", valss, valss))
            except Exception as ex:
                fail(out, f"C17:{topo_key(net)}:stray-raise", net, pv, sv,
                     f"a step with keywords named after element parameters ({sorted(stray)}) raised {ex!r:.200}")
            # the reported flows read off a function compiled for the same network with colliding element names
            # (level rep % 3): what an origin is called does not decide which flow is reported as its own
            try:
                if rep < 2 and len(net.origins) >= 2:
                    runc = Runner(net, pv, names=colliding_names(net, rng))
                    cl = ("SX", "MX")[rep % 2]
                    Fc, _ = runc.function(cl, rep % 3, True)
                    valsc, probs = runc.call(Fc, rep % 3, True, sv)
                    if valsc is not None:
                        results.append((f"CasADi {cl} compact={rep % 3}, colliding names {sorted(set(runc.names.values()))}", valsc, valsc))
                    elif any("result sizes" in p_ for p_ in probs):
                        fail(out, f"C17:{topo_key(net)}:reported-flows", net, pv, sv,
                             f"CasADi {cl} compact={rep % 3}, colliding names {sorted(set(runc.names.values()))}: the flows of the "
                             f"{len(net.origins)} origins cannot be read off the function - " + "; ".join(p_ for p_ in probs if "result sizes" in p_)[:400],
                             names={str(k_): v_ for k_, v_ in runc.names.items()})
            except Exception:
                pass
            for (who, nxt, rep_q) in results:
                out["coverage"]["evaluations"] += 1
                for o, k in net.origins.items():
                    if k in ("ideal", "simp_unl"):
                        continue
                    l = [e for e in edges if e[0] == node_of[o]][0][2]
                    q = sv[f"d.{o}"] - (nxt[f"w+ {o} 0"] - sv[f"w.{o}"]) / T
                    if rep_q is not None:
                        q = rep_q[f"qo {o} 0"]
                    dem = sv[f"d.{o}"] + sv[f"w.{o}"] / T
                    scale = max(abs(dem), abs(q), 1.0)
                    tol = 1e-7 * scale
                    if k == "main":
                        a, vf, rc, lam = pv[f"lp.{l}.a"], pv[f"lp.{l}.v_free"], pv[f"lp.{l}.rho_crit"], net.links[l]["lanes"]
                        cap = lam * vf * math.exp(-1 / a) * rc
                    else:
                        cap = pv[f"C.{o}"]
                    msgs = []
                    if q < -tol:
                        msgs.append(f"negative flow {q!r}")
                    if q > dem + tol:
                        msgs.append(f"flow {q!r} exceeds demand + queue/T = {dem!r}")
                    if q > cap * (1 + 1e-9) + tol:
                        msgs.append(f"flow {q!r} exceeds capacity {cap!r}")
                    if k != "main" and sv[f"rho.{l}.0"] == pv[f"lp.{l}.rho_max"] and abs(q) > tol:
                        msgs.append(f"flow {q!r} at maximum density")
                    if nxt[f"w+ {o} 0"] < -1e-9 * max(1.0, abs(sv[f"w.{o}"]), T * scale):
                        msgs.append(f"next queue {nxt[f'w+ {o} 0']!r} negative")
                    for m_ in msgs:
                        fail(out, f"C17:{k}:{m_.split()[0]}", net, pv, sv, f"{who}: origin {o} ({k}): {m_}", origin=o)
                    distinct.add((topo_key(net), k, sv[f"u.{o}"], sv[f"rho.{l}.0"] == pv[f"lp.{l}.rho_max"]))
    out["coverage"]["evaluations"] += out2["coverage"]["evaluations"]
    out["coverage"]["distinct_nontrivial"] += len(distinct)
    out["coverage"]["rule"] += " || networks: origin flows (reported or recovered from the queue update) at corner states"
    return out


def judge_C17_prim(var, vals, npv, csv, mvals):
    name = var["name"]
    if var["cls"] != "OriginsEngine" or name == "step_queue":
        return []
    if name == "get_simplifiedramp_flow" and var["s"] == "unlimited":
        return []
    if vals.get("r", 0.0) > 1.0:
        return []          # (metering rates above 1 are sampled for the engine-agreement property; outside this one's domain)
    out = []
    T = vals["T"]
    dem = vals["d"] + vals["w"] / T
    if name == "get_mainstream_flow":
        cap = vals["lanes"] * vals["v_free"] * math.exp(-1 / vals["a"]) * vals["rho_crit"]
    else:
        cap = vals["C"]
    for who, res in (("numpy", npv), ("casadi", csv)):
        if isinstance(res, Exception):
            continue
        q = res[0]
        tol = 1e-7 * max(abs(dem), abs(q), 1.0)
        if not math.isfinite(q):
            out.append(f"{who}: flow {q!r} not finite")
            continue
        if q < -tol:
            out.append(f"{who}: negative flow {q!r}")
        if q > dem + tol:
            out.append(f"{who}: flow {q!r} exceeds demand + queue/T {dem!r}")
        if q > cap * (1 + 1e-9) + tol:
            out.append(f"{who}: flow {q!r} exceeds capacity {cap!r}")
        if name != "get_mainstream_flow" and vals["rho_first"] == vals["rho_max"] and abs(q) > tol:
            out.append(f"{who}: flow {q!r} at maximum density")
        if vals["w"] + T * (vals["d"] - q) < -1e-9 * max(1.0, vals["w"]):
            out.append(f"{who}: next queue negative")
    return out[:1]


# ---------------------------------------------------------------------------
# C18: paired networks (controlled vs plain element) from identical states
def variant_net(net, change):
    import copy
    n2 = copy.deepcopy(net)
    change(n2)
    return n2


def run_C18(ctx):
    from harness import p_prims
    out = p_prims.run_primitives(ctx, 4 if ctx["tier"] == "quick" else 40, lambda *a: [])
    out["coverage"]["rule"] = "primitive correspondence (see C15) || " + RULE
    distinct = set()
    quick = ctx["tier"] == "quick"
    rng = ctx["rng"]
    cases = [n for n in gen_cases(ctx, 14 if quick else 150)]
    out2 = new_outcome()
    data = correspondence(out2, ctx, cases, engines=("np",), per_case_points=1, sym_types=("SX",), distinct=distinct)
    out["disagreements"] += out2["disagreements"]
    out["coverage"]["evaluations"] += out2["coverage"]["evaluations"]
    INF = [math.inf, 1e9]

    def steps(run, sv, backends, opts=None, shape="vec1"):
        res = {}
        for b_ in backends:
            try:
                if b_ == "np":
                    res[b_] = run.numpy_step(sv, opts, shape)
                else:
                    F, _ = run.function(b_, 0, True, opts)
                    vals, probs = run.call(F, 0, True, sv)
                    if vals is not None:
                        res[b_] = vals
            except Exception as ex:
                res[b_] = ex
        return res

    backends = ("np", "SX") if quick else ("np", "SX", "MX")
    for ci, (net, pv, pts, mtree, stree, run) in enumerate(data):
        keys = state_keys(net)
        sv0 = pts[0][1]
        # --- VSL links: infinite limits / no limited segment == plain link; finite never raises v+
        link_ids = sorted(net.links)
        if quick and len(link_ids) > 2:
            link_ids = rng.sample(link_ids, 2)
        for l in link_ids:
            v = net.links[l]
            plain = variant_net(net, lambda n: n.links[l].update(vsl=None))
            own = [list(v["vsl"])] if v["vsl"] is not None and len(v["vsl"]) >= 2 else []
            for vi, vslset in enumerate([[], list(range(v["N"])), [v["N"] - 1]] + own):
                if quick and vi != (ci + l) % 3 and vi < 3:
                    continue
                ctl = variant_net(net, lambda n: n.links[l].update(vsl=list(vslset)))
                sv = dict(sv0)
                for k in [k for k in sv if k.startswith(f"vc.{l}.")]:
                    del sv[k]
                svp = dict(sv)
                for k in range(len(vslset)):
                    sv[f"vc.{l}.{k}"] = rng.choice(INF)
                pvc = dict(pv)
                pvc.setdefault(f"lp.{l}.alpha", 0.1)
                if (ci + vi) % 4 == 0:
                    pvc[f"lp.{l}.alpha"] = 0.0          # no tolerance at all: (1 + alpha) v_ctrl is v_ctrl, also for an infinite limit
                rp, rc = steps(Runner(plain, pvc), svp, backends), steps(Runner(ctl, pvc), sv, backends)
                # the same pair from a state with negative entries under the init-clamping options
                svn = nets.random_state(net, pv, rng, "negative")
                for k in [k for k in svn if k.startswith(f"vc.{l}.")]:
                    del svn[k]
                svnc = dict(svn)
                for k in range(len(vslset)):
                    svnc[f"vc.{l}.{k}"] = math.inf
                o_ = {"pi_v": True, "pi_rho": True, "pi_w": True}
                rpn, rcn = steps(Runner(plain, pvc), svn, backends[:1], o_), steps(Runner(ctl, pvc), svnc, backends[:1], o_)
                for b_ in backends[:1]:
                    if isinstance(rpn.get(b_), dict) and isinstance(rcn.get(b_), dict):
                        bad = states_close(rcn[b_], rpn[b_], [k for k in keys if not math.isnan(rpn[b_][k])])
                        if bad:
                            k, x, y = bad[0]
                            fail(out, f"C18:vsl-neutral-opts:{len(vslset)}", net, pv, svnc, f"{b_}: positive-init options, link {l} with limited segments {vslset} and infinite limits gives {k} = {x!r}; plain link gives {y!r}", link=l, vsl=vslset, opts=o_)
                # the same pair once more with whole-number densities and speeds handed over as integer-dtype arrays
                rpi, rci = steps(Runner(plain, pvc), integer_state(svp), backends[:1], None, "int"), \
                    steps(Runner(ctl, pvc), integer_state(sv), backends[:1], None, "int")
                for b_ in backends[:1]:
                    out["coverage"]["evaluations"] += 1
                    if isinstance(rpi.get(b_), dict) and isinstance(rci.get(b_), dict):
                        bad = states_close(rci[b_], rpi[b_], [k for k in keys if not math.isnan(rpi[b_][k])])
                        if bad:
                            k, x, y = bad[0]
                            fail(out, f"C18:vsl-neutral-int:{len(vslset)}", net, pv, integer_state(sv), f"{b_}: integer-dtype state arrays, link {l} with limited segments {vslset} and infinite limits gives {k} = {x!r}; plain link gives {y!r}", link=l, vsl=vslset, scalar_shape="int")
                    elif isinstance(rci.get(b_), Exception) and not isinstance(rpi.get(b_), Exception):
                        fail(out, f"C18:vsl-raise-int:{len(vslset)}", net, pv, integer_state(sv), f"{b_}: integer-dtype state arrays, link {l} with limited segments {vslset}: {rci[b_]!r:.300}", link=l, vsl=vslset, scalar_shape="int")
                for b_ in backends:
                    out["coverage"]["evaluations"] += 1
                    if isinstance(rp.get(b_), dict) and isinstance(rc.get(b_), dict):
                        bad = states_close(rc[b_], rp[b_], keys)
                        if bad:
                            k, x, y = bad[0]
                            fail(out, f"C18:vsl-neutral:{len(vslset)}", net, pv, sv, f"{b_}: link {l} with limited segments {vslset} and infinite limits gives {k} = {x!r}; plain link gives {y!r}", link=l, vsl=vslset)
                    elif isinstance(rc.get(b_), Exception) and not isinstance(rp.get(b_), Exception):
                        fail(out, f"C18:vsl-raise:{len(vslset)}", net, pv, sv, f"{b_}: link {l} with limited segments {vslset}: {rc[b_]!r:.300}", link=l, vsl=vslset)
                # finite limits (with several signs: the first one infinite, so that segment must evolve like a plain
                # one - the k-th limit belongs to the k-th sign in increasing segment order)
                if vslset:
                    svf = dict(sv)
                    for k in range(len(vslset)):
                        seg_ = sorted(vslset)[k]
                        veq_ = pvc[f"lp.{l}.v_free"] * math.exp(-1 / pvc[f"lp.{l}.a"] * (max(sv[f"rho.{l}.{seg_}"], 0.0) / pvc[f"lp.{l}.rho_crit"]) ** pvc[f"lp.{l}.a"])
                        # (also limits a little below the segment's equilibrium speed: displayed below, tolerated above)
                        svf[f"vc.{l}.{k}"] = rng.choice([0.0, 10.0, 40.0, 90.0, 0.97 * veq_, veq_ / (1 + 0.5 * pvc.get(f"lp.{l}.alpha", 0.1))]) \
                            if (k > 0 or len(vslset) == 1 or vi < 3) else math.inf
                    rf = steps(Runner(ctl, pvc), svf, backends)
                    for b_ in backends:
                        if isinstance(rp.get(b_), dict) and isinstance(rf.get(b_), dict):
                            for k in keys:
                                x, y = rf[b_][k], rp[b_][k]
                                if k.startswith("v+ ") and int(k.split()[1]) == l:
                                    seg = int(k.split()[2])
                                    if x > y + 1e-9 * max(1.0, abs(y)):
                                        fail(out, "C18:vsl-raises-speed", net, pv, svf, f"{b_}: finite limit raises {k}: {x!r} > plain {y!r}", link=l, vsl=vslset)
                                    unlimited = seg not in vslset or (vi >= 3 and seg == sorted(vslset)[0])
                                    if unlimited and not tree.close(x, y, max(abs(y), 1.0)):
                                        fail(out, "C18:vsl-unlisted", net, pv, svf, f"{b_}: unlimited segment {seg} of link {l} changed: {x!r} vs {y!r}", link=l, vsl=vslset)
                                elif not tree.close(x, y, max(abs(y), 1.0)):
                                    fail(out, "C18:vsl-other", net, pv, svf, f"{b_}: a speed limit on link {l} changed {k}: {x!r} vs {y!r}", link=l, vsl=vslset)
                distinct.add((topo_key(net), "vsl", l, tuple(vslset)))
        # --- origins
        for o, k in net.origins.items():
            for jam in ((False, True, "demand-limited") if k in ("ramp_in", "ramp_out", "simp_lim") else ()):
                sv = dict(sv0)
                if jam == "demand-limited":
                    # a congested first segment (space factor between 0 and 1) and so little demand, no queue, that the
                    # demand is what limits the flow: the place of the space factor inside or outside the minimum shows
                    nodes_j, edges_j = net.graph()
                    n_j = [n for (n, oo, d) in nodes_j if oo == o][0]
                    l_j = [e for e in edges_j if e[0] == n_j][0][2]
                    rc_, rm_ = pv[f"lp.{l_j}.rho_crit"], pv[f"lp.{l_j}.rho_max"]
                    sv[f"rho.{l_j}.0"] = rc_ + rng.uniform(0.3, 0.8) * (rm_ - rc_)
                    sv[f"w.{o}"] = 0.0
                    sv[f"d.{o}"] = 0.2 * pv[f"C.{o}"] * (rm_ - sv[f"rho.{l_j}.0"]) / (rm_ - rc_)
                elif jam:
                    # the equalities are not restricted to rho <= rho_max: an over-jammed first segment (the space
                    # factor is negative) must not tell the variants apart either
                    nodes_j, edges_j = net.graph()
                    n_j = [n for (n, oo, d) in nodes_j if oo == o][0]
                    l_j = [e for e in edges_j if e[0] == n_j][0][2]
                    sv[f"rho.{l_j}.0"] = pv[f"lp.{l_j}.rho_max"] * rng.uniform(1.05, 1.5)
                ref = None
                for kind, u in (("ramp_out", 1.0), ("ramp_in", 1.0), ("simp_lim", rng.choice(INF))):
                    var = variant_net(net, lambda n: n.origins.__setitem__(o, kind))
                    s2 = dict(sv)
                    s2[f"u.{o}"] = u
                    r = steps(Runner(var, pv), s2, backends)
                    out["coverage"]["evaluations"] += 1
                    if ref is None:
                        ref = r
                        continue
                    for b_ in backends:
                        if isinstance(ref.get(b_), dict) and isinstance(r.get(b_), dict):
                            bad = states_close(r[b_], ref[b_], keys + [f"qo {o} 0"] if b_ != "np" else keys)
                            if bad:
                                kk, x, y = bad[0]
                                fail(out, f"C18:ramp-neutral:{kind}", net, pv, s2, f"{b_}: origin {o} as {kind} with neutral control gives {kk} = {x!r}; metered 'out' ramp at rate 1 gives {y!r}", origin=o, kind=kind)
                distinct.add((topo_key(net), "ramp", o))
            # the same equalities through the element-level API with its own defaults (no init option passed), from a
            # NEGATIVE queue: no kind of ramp clamps it unless asked to
            if k in ("ramp_in", "ramp_out", "simp_lim"):
                sve = dict(sv0)
                sve[f"w.{o}"] = -rng.uniform(0.1, 2.0)
                refe = None
                for kind, u in (("ramp_out", 1.0), ("ramp_in", 1.0), ("simp_lim", rng.choice(INF))):
                    var = variant_net(net, lambda n: n.origins.__setitem__(o, kind))
                    s2 = dict(sve)
                    s2[f"u.{o}"] = u
                    try:
                        re_ = impl.Real(var, pv).numpy_step_elementwise(s2)
                    except Exception as ex:
                        re_ = ex
                    out["coverage"]["evaluations"] += 1
                    if refe is None:
                        refe = re_
                        continue
                    if isinstance(refe, dict) and isinstance(re_, dict):
                        bad = states_close(re_, refe, [k_ for k_ in keys if not math.isnan(refe[k_])])
                        if bad:
                            kk, x, y = bad[0]
                            fail(out, f"C18:ramp-neutral-elementwise:{kind}", net, pv, s2,
                                 f"np, elements initialised and stepped one by one with their own defaults, queue {s2[f'w.{o}']!r}: origin {o} as "
                                 f"{kind} with neutral control gives {kk} = {x!r}; metered 'out' ramp at rate 1 gives {y!r}", origin=o, kind=kind)
                    elif isinstance(re_, Exception) and not isinstance(refe, Exception):
                        fail(out, f"C18:ramp-neutral-elementwise-raise:{kind}", net, pv, s2, f"element-level API, origin {o} as {kind}: {re_!r:.200}")
            if k == "main":
                sv = dict(sv0)
                nodes, edges = net.graph()
                n_o = [n for (n, oo, d) in nodes if oo == o][0]
                l1 = [e for e in edges if e[0] == n_o][0][2]
                s_inf, s_first = dict(sv), dict(sv)
                s_inf[f"u.{o}"] = rng.choice(INF)
                s_first[f"u.{o}"] = sv[f"v.{l1}.0"]
                # also for a crawling first segment (below 5 % of v_free, where the log-ratio guard is active)
                if rng.random() < 0.5:
                    crawl = rng.choice([0.0, 0.01, 0.03]) * pv[f"lp.{l1}.v_free"]
                    for s_ in (s_inf, s_first):
                        s_[f"v.{l1}.0"] = crawl
                    s_first[f"u.{o}"] = crawl
                    s_inf[f"d.{o}"] = s_first[f"d.{o}"] = 8000.0
                ra, rb = steps(run, s_inf, backends), steps(run, s_first, backends)
                out["coverage"]["evaluations"] += 1
                # "limited only by its link's first-segment speed": the value is the METANET one with v_lim = v_first
                if stree is not None and not dyn.near_excluded(net, pv, s_inf):
                    spec_inf = dyn.eval_all(stree, dyn.env_of(pv, s_inf))
                    for b_ in backends:
                        if isinstance(ra.get(b_), dict):
                            for kk in (f"w+ {o} 0", f"rho+ {l1} 0"):
                                v_, mag_, _b = spec_inf[kk]
                                if math.isfinite(v_) and not tree.close(v_, ra[b_][kk], mag_):
                                    fail(out, "C18:main-neutral-spec", net, pv, s_inf,
                                         f"{b_}: mainstream origin {o} with infinite speed limit gives {kk} = {ra[b_][kk]!r}; the law with the "
                                         f"first-segment speed {s_inf[f'v.{l1}.0']!r} as the only limit gives {v_!r}", origin=o, observable=kk)
                                    break
                for b_ in backends:
                    if isinstance(ra.get(b_), dict) and isinstance(rb.get(b_), dict):
                        bad = states_close(ra[b_], rb[b_], keys)
                        if bad:
                            kk, x, y = bad[0]
                            fail(out, "C18:main-neutral", net, pv, s_inf, f"{b_}: mainstream origin {o} with infinite speed limit gives {kk} = {x!r}; limited to its first-segment speed gives {y!r}", origin=o)
                distinct.add((topo_key(net), "main", o))
    out["coverage"]["distinct_nontrivial"] += len(distinct)
    return out


# ---------------------------------------------------------------------------
# C07: whatever the implementation's validation accepts must step and compile everywhere
def random_any(rng, nmax=4):
    n = rng.randint(1, nmax)
    p = rng.choice([0.2, 0.35, 0.5])
    edges = [(u, d) for u in range(n) for d in range(n) if rng.random() < (p if u != d else 0.08)]
    origins = {x: rng.choice(nets.OKINDS) for x in range(n) if rng.random() < 0.5}
    dests = {x: rng.choice(nets.DKINDS) for x in range(n) if rng.random() < 0.4}
    net = nets.from_edges(edges, origins, dests, rng, order=rng.choice(["given", "shuffled"]), family="any")
    for x in range(n):
        if rng.random() < 0.3:
            net.ops.insert(rng.randrange(len(net.ops) + 1), ("node", x))
    return net


def perturbed(net, rng):
    """a valid description with one random structural edit (mostly invalid afterwards)"""
    import copy
    n2 = copy.deepcopy(net)
    n2.family = "perturbed-" + net.family
    nodes, edges = net.graph()
    ids = [n for (n, _, _) in nodes]
    kind = rng.choice(["edge", "edge", "origin", "dest", "okind", "dkind"])
    if kind == "edge":
        l = max(n2.links) + 1
        n2.links[l] = dict(N=rng.choice([1, 2]), lanes=rng.choice([1, 2, 3]), vsl=None)
        u = rng.choice(ids)
        d = rng.choice(ids + [max(ids) + 1])
        if (u, d) in [(a, b) for (a, b, _) in edges]:
            return None
        n2.ops.append(("link", u, l, d))
    elif kind == "origin":
        o = max(list(n2.origins) + [-1]) + 1
        n2.origins[o] = rng.choice(nets.OKINDS)
        n2.ops.append(("origin", o, rng.choice(ids)))
    elif kind == "dest":
        d = max(list(n2.dests) + [-1]) + 1
        n2.dests[d] = rng.choice(nets.DKINDS)
        n2.ops.append(("dest", d, rng.choice(ids)))
    elif kind == "okind" and n2.origins:
        n2.origins[rng.choice(sorted(n2.origins))] = rng.choice(nets.OKINDS)
    elif kind == "dkind" and n2.dests:
        n2.dests[rng.choice(sorted(n2.dests))] = rng.choice(nets.DKINDS)
    if rng.random() < 0.3:
        n2 = perturbed(n2, rng) or n2
    # elements no longer attached (replaced) are not part of the network
    nodes, edges = n2.graph()
    att_l = {l for (_, _, l) in edges}
    att_o = {o for (_, o, _) in nodes if o is not None}
    att_d = {d for (_, _, d) in nodes if d is not None}
    for l in [l for l in n2.links if l not in att_l]:
        n2.x_links[l] = n2.links.pop(l)
    for o in [o for o in n2.origins if o not in att_o]:
        n2.x_origins[o] = n2.origins.pop(o)
    for d in [d for d in n2.dests if d not in att_d]:
        n2.x_dests[d] = n2.dests.pop(d)
    return n2


def run_C07(ctx):
    import casadi as cs
    out = new_outcome()
    distinct = set()
    quick = ctx["tier"] == "quick"
    rng = ctx["rng"]
    valid_cases = gen_cases(ctx, 10 if quick else 100)
    data = correspondence(out, ctx, valid_cases, engines=("np",), per_case_points=1, sym_types=("SX",), distinct=distinct)
    cand = [random_any(rng) for _ in range(120 if quick else 3000)]
    for i in range(250 if quick else 5000):
        p_ = perturbed(valid_cases[i % len(valid_cases)], rng)
        if p_ is not None:
            cand.append(p_)
    accepted = []
    for net in cand:
        pv = nets.random_params(net, rng)
        try:
            R = impl.Real(net, pv)
            ok = R.net.is_valid()[0]
        except Exception as ex:
            continue
        out["coverage"]["evaluations"] += 1
        if ok and net.graph()[1]:        # (the empty network is vacuously valid: nothing to step)
            accepted.append((net, pv))
            if not net.is_valid():
                out["info"].append(f"implementation accepts a graph the description-level validity rejects: {net.to_json()}")
    todo = [(n, pv, None) for (n, pv) in accepted] + [(n, pv, run) for (n, pv, pts, mt, stt, run) in data]
    out["coverage"]["accepted_arbitrary_graphs"] = len(accepted)
    out["coverage"]["arbitrary_graphs_tried"] = len(cand)
    for ci, (net, pv, run) in enumerate(todo):
        # a third of the networks: different elements share a name (validation compares objects, not names)
        run = run or Runner(net, pv, names=colliding_names(net, rng) if ci % 3 == 1 else None)
        tk = topo_key(net)
        R = run.R
        if not R.net.is_valid()[0]:
            continue
        if R.read_errors:
            fail(out, f"C07:{tk}:read", net, pv, None, "validated network: " + R.read_errors[0])
        # 1) NumPy with the engine's own variables
        for vt in ("rand",):
            try:
                with np.errstate(all="ignore"):
                    R.net.step(engine=impl.NpEngine(vt), **R.step_kwargs())
                for el in list(R.links.values()) + list(R.origins.values()):
                    if el.states and el in set(R.net.elements):
                        for nm, x in el.states.items():
                            if np.shape(el.next_states[nm]) != np.shape(x):
                                fail(out, f"C07:{tk}:shape", net, pv, None, f"NumPy own variables: next {nm} of {el.name} has shape {np.shape(el.next_states[nm])}, state {np.shape(x)}")
            except Exception as ex:
                fail(out, f"C07:{tk}:np-own", net, pv, None, f"NumPy engine with its own variables: step raised {ex!r:.300}")
            out["coverage"]["evaluations"] += 1
        # 2) NumPy with user arrays of the three scalar shapes, at boundary states; finiteness
        for shape in ("vec1", "zerod", "float", "int"):
            sv = dyn.admissible_state(net, pv, rng, "boundary")
            for k in list(sv):
                if math.isinf(sv[k]):
                    sv[k] = 1e6      # the finiteness clause is about finite inputs
            if shape == "int":       # whole-number densities and speeds handed over as integer-dtype arrays
                for _try in range(30):
                    svi_ = integer_state(sv)
                    if not dyn.near_excluded(net, pv, svi_):     # (rounding must not move the point onto the excluded 0/0)
                        break
                    sv = dyn.admissible_state(net, pv, rng, "interior")
                else:
                    continue
                sv = {k: (1e6 if math.isinf(x) else x) for k, x in svi_.items()}
            try:
                got = run.numpy_step(sv, None, shape)
                out["coverage"]["evaluations"] += 1
                for k in state_keys(net):
                    if not math.isfinite(got[k]):
                        fail(out, f"C07:{tk}:finite", net, pv, sv, f"NumPy ({shape} scalars): {k} = {got[k]!r} for finite admissible inputs", scalar_shape=shape)
                        break
                for l, v in net.links.items():
                    for tag in ("rho+", "v+"):
                        if got[f"shape {tag} {l}"] != (v["N"],):
                            fail(out, f"C07:{tk}:shape", net, pv, sv, f"NumPy ({shape}): next {tag} of link {l} has shape {got[f'shape {tag} {l}']}", scalar_shape=shape)
                for o, k in net.origins.items():
                    if k != "ideal":
                        exp = {"vec1": (1,), "zerod": (), "float": (), "int": (1,)}[shape]
                        if got[f"shape w+ {o}"] != exp:
                            fail(out, f"C07:{tk}:shape", net, pv, sv, f"NumPy ({shape}): next queue of origin {o} has shape {got[f'shape w+ {o}']}, its state {exp}", scalar_shape=shape)
            except Exception as ex:
                fail(out, f"C07:{tk}:np-user", net, pv, sv, f"NumPy engine with user arrays ({shape} scalars): step raised {ex!r:.300}", scalar_shape=shape)
        # 3) CasADi both symbol types, every level
        for sym in ("SX", "MX"):
            for compact in (0, 1, 2):
                for more in ((False, True) if not quick or compact == ci % 3 else (bool((ci + compact) % 2),)):
                    try:
                        F, _ = run.function(sym, compact, more)
                        sv = dyn.admissible_state(net, pv, rng, "boundary")
                        for k in list(sv):
                            if math.isinf(sv[k]):
                                sv[k] = 1e6
                        vals, probs = run.call(F, compact, more, sv)
                        out["coverage"]["evaluations"] += 1
                        if vals is not None:
                            for k in state_keys(net):
                                if not math.isfinite(vals[k]):
                                    fail(out, f"C07:{tk}:finite", net, pv, sv, f"CasADi {sym} compact={compact}: {k} = {vals[k]!r} for finite admissible inputs")
                                    break
                    except Exception as ex:
                        fail(out, f"C07:{tk}:cs", net, pv, None, f"CasADi {sym} compact={compact} more_out={more}: step/compile raised {ex!r:.300}", sym=sym, compact=compact,
                             names={str(k): v for k, v in run.names.items()})
            # shapes of symbolic next states
            try:
                for el in list(R.links.values()) + list(R.origins.values()):
                    if el.states and el.next_states and el in set(R.net.elements):
                        for nm, x in el.states.items():
                            if hasattr(x, "shape") and hasattr(el.next_states[nm], "shape") and el.next_states[nm].shape != x.shape:
                                fail(out, f"C07:{tk}:shape", net, pv, None, f"CasADi {sym}: next {nm} of {el.name} has shape {el.next_states[nm].shape}, state {x.shape}")
            except Exception:
                pass
        # 4) ONE partial dictionary of initial conditions (only the control input of every origin that has one) handed to
        #    successive steps on different engines: each step must create the variables the dictionary does not give, with its
        #    own engine, and leave the dictionary as it was
        try:
            import casadi as cs_
            ic = {}
            for o_, el in R.origins.items():
                if el in set(R.net.elements) and getattr(el, "_actions", None):
                    nm_ = sorted(el._actions)[0]
                    ic[el] = {nm_: {"r": 1.0, "q": 1000.0, "v_ctrl": 100.0}.get(nm_, 1.0)}
            if ic:
                before = {el: dict(v) for el, v in ic.items()}
                for eng_name, eng in (("CasADi SX", impl.CsEngine("SX")), ("CasADi MX", impl.CsEngine("MX")), ("NumPy", impl.NpEngine("rand"))):
                    with np.errstate(all="ignore"):
                        R.net.step(init_conditions=ic, engine=eng, **R.step_kwargs())
                    for el in list(R.links.values()) + list(R.origins.values()):
                        if el.states and el in set(R.net.elements):
                            for nm, x in el.next_states.items():
                                if eng_name == "NumPy" and isinstance(x, (cs_.SX, cs_.MX)):
                                    fail(out, f"C07:{tk}:partial-ic", net, pv, None, f"a partial dictionary of initial conditions re-used on the "
                                         f"NumPy engine after CasADi steps: next {nm} of {el.name} is a {type(x).__name__}, not a finite number")
                    if {el: dict(v) for el, v in ic.items()} != before:
                        fail(out, f"C07:{tk}:partial-ic", net, pv, None, f"the dictionary of initial conditions was changed by the {eng_name} step: "
                             f"{ {el.name: sorted(v) for el, v in ic.items()} } (given: { {el.name: sorted(v) for el, v in before.items()} })")
                        break
                out["coverage"]["evaluations"] += 1
        except Exception as ex:
            fail(out, f"C07:{tk}:partial-ic", net, pv, None, f"a partial dictionary of initial conditions handed to successive steps on "
                 f"different engines: step raised {ex!r:.300}")
        distinct.add(tk)
    out = finish(out, distinct, data, RULE + "; plus random ARBITRARY small graphs (any attachment) filtered by the implementation's own "
                 "is_valid: every accepted network is stepped with NumPy (own variables; user arrays with (1,), 0-d and float "
                 "scalars) and CasADi SX/MX and compiled at compactness 0/1/2 with/without extra outputs, at boundary states")
    return out


# ---------------------------------------------------------------------------
# correspondence of ToFunction.v with Engine.to_function
def tf_correspondence(out, ctx, jobs):
    """jobs: list of (run, sym, compact, more_out, opts, ptoks, sv).  Compares the Coq ToFunction
    model (argument names/symbols, result names/trees) with the compiled function."""
    if not ctx["model_ok"] or not jobs:
        return
    import casadi as cs
    terms = []
    for (run, sym, compact, more, opts, ptoks, sv) in jobs:
        pn = {t: pname(t) for t in (ptoks or [])}
        terms.append(dyn.tf_term(run.net, run.names, opts, compact, more, ptoks, pn))
    try:
        models = dyn.tf_models(terms)
    except Exception as ex:
        out["disagreements"].append({"what": "ToFunction model could not be evaluated", "error": str(ex)[-500:]})
        return
    for (run, sym, compact, more, opts, ptoks, sv), m in zip(jobs, models):
        net, pv = run.net, run.pv
        tag = f"ToFunction model vs {sym} compact={compact} more_out={more} opts={[k for k, v in (opts or {}).items() if v]} params={ptoks}"
        try:
            F, _ = run.function(sym, compact, more, opts, ptoks)
        except Exception as ex:
            if m["err"] is None:
                disagree(out, net, pv, sv, f"{tag}: implementation raised {ex!r:.200}, model returns a function")
            continue
        if m["err"] is not None:
            disagree(out, net, pv, sv, f"{tag}: model error {m['err']}, implementation returns a function")
            continue
        out["coverage"]["evaluations"] += 1
        got_in = [(F.name_in(i), F.size1_in(i) * F.size2_in(i)) for i in range(F.n_in())]
        got_out = [(F.name_out(i), F.size1_out(i) * F.size2_out(i)) for i in range(F.n_out())]
        mod_in = [(n, len(t)) for n, t in m["in"] if len(t) > 0 or True]
        mod_out = [(n, len(t)) for n, t in m["out"]]
        if [s for _, s in got_in] != [s for _, s in mod_in] or [s for _, s in got_out] != [s for _, s in mod_out]:
            disagree(out, net, pv, sv, f"{tag}: sizes in {got_in} out {got_out}; model in {mod_in} out {mod_out}")
            continue
        if [n for n, _ in got_in] != [n for n, _ in mod_in] or [n for n, _ in got_out] != [n for n, _ in mod_out]:
            out["info"].append(f"{net.family} {tag}: names differ from the model: {got_in} {got_out}")
        env = dyn.env_of(pv, sv)
        args = [cs.DM([env[t] for t in toks]) if toks else cs.DM(0, 1) for _, toks in m["in"]]
        res = F(*args)
        if not isinstance(res, (list, tuple)):
            res = [res]
        for (n, trees), r in zip(m["out"], res):
            arr = np.array(r, dtype=float).reshape(-1)
            for j, t_ in enumerate(trees):
                v, mag, _, _ = tree.eval_tree(t_, env)
                if not tree.close(v, float(arr[j]), mag):
                    disagree(out, net, pv, sv, f"{tag}: result {n}[{j}] = {float(arr[j])!r}, model {v!r}")
                    break


# ---------------------------------------------------------------------------
# C12: purity and repeatability of stepping
def elem_params(R):
    snap = {}
    for kind, d in (("l", R.links), ("o", R.origins), ("d", R.dests)):
        for i, el in d.items():
            vals = {}
            for cls in type(el).__mro__:
                for a in getattr(cls, "__slots__", ()):
                    if a in ("states", "next_states", "actions", "disturbances"):
                        continue
                    if isinstance(a, str) and hasattr(el, a):
                        vals[a] = repr(getattr(el, a))
            snap[(kind, i)] = vals
    return snap


def same_float(a, b_):
    return a == b_ or (math.isnan(a) and math.isnan(b_))


def run_C12(ctx):
    import casadi as cs
    from harness import p_life
    from sym_metanet import engines
    out = new_outcome()
    distinct = set()
    quick = ctx["tier"] == "quick"
    rng = ctx["rng"]
    # model vs implementation: the lifecycle histories (C19's slice), a smaller batch
    life = p_life.run_C19(dict(ctx, tier="quick"))
    out["disagreements"] += life["disagreements"]
    out["coverage"]["evaluations"] += life["coverage"]["evaluations"]
    cases = gen_cases(ctx, 8 if quick else 100)
    data = correspondence(out, ctx, cases, engines=("np",), per_case_points=1, sym_types=("SX",), distinct=distinct)
    for ci, (net, pv, pts, mtree, stree, run) in enumerate(data):
        keys = state_keys(net)
        sv = pts[0][1]
        tk = topo_key(net)
        sel_before = engines.get_current_engine()
        # reference: a brand-new network object stepped once
        try:
            ref = Runner(net, pv).numpy_step(sv)
        except Exception as ex:
            fail(out, f"C12:{tk}:fresh-raise", net, pv, sv,
                 f"a brand-new network of this description, stepped once with NumPy, raised {ex!r:.300} (case {ci} of this run: "
                 f"other networks were stepped before in the same process)", case_index=ci)
            continue
        R = run.R
        for shape in ("vec1", "zerod"):
            ic = R.init_conditions(sv, shape)
            arrays = [(el, nm, a) for el, d in ic.items() for nm, a in d.items() if isinstance(a, np.ndarray)]
            before = [(a.tobytes(), a.shape) for (_, _, a) in arrays]
            ids = {id(el): {nm: id(a) for nm, a in d.items()} for el, d in ic.items()}
            keys_before = {id(el): list(d) for el, d in ic.items()}
            params_before = elem_params(R)
            for (_, _, a) in arrays:
                a.flags.writeable = False
            opts = {k: rng.random() < 0.3 for k in nets.OPT_KW}
            try:
                with np.errstate(all="ignore"):
                    R.net.step(init_conditions=ic, engine=impl.NpEngine(), **nets.opts_kwargs(opts), **R.step_kwargs())
            except ValueError as ex:
                if "read-only" in str(ex):
                    fail(out, f"C12:{tk}:inplace", net, pv, sv, f"NumPy step ({shape} scalars, options {[k for k, v in opts.items() if v]}) "
                         f"writes into an array supplied by the caller: {ex!s:.150}", opts=opts, scalar_shape=shape)
                else:
                    fail(out, f"C12:{tk}:raise", net, pv, sv, f"NumPy step raised {ex!r:.200}", opts=opts)
                continue
            except Exception as ex:
                fail(out, f"C12:{tk}:raise", net, pv, sv, f"NumPy step with write-protected inputs raised {ex!r:.200}", opts=opts)
                continue
            out["coverage"]["evaluations"] += 1
            for (el, nm, a), (bts, shp) in zip(arrays, before):
                if a.tobytes() != bts or a.shape != shp:
                    fail(out, f"C12:{tk}:modified", net, pv, sv, f"supplied array {nm} of {el.name} was modified by the step", opts=opts)
            for el, d in ic.items():
                if list(d) != keys_before[id(el)] or any(id(d[k]) != ids[id(el)][k] for k in d):
                    fail(out, f"C12:{tk}:dict", net, pv, sv, f"the supplied dictionary of {el.name} was modified", opts=opts)
            if elem_params(R) != params_before:
                fail(out, f"C12:{tk}:params", net, pv, sv, "element parameters were modified by the step", opts=opts)
        # repeatability on the used objects: unrelated steps / compilations in between
        try:
            sv2 = dyn.admissible_state(net, pv, rng, "boundary")
            # (the unrelated step is given the optional model parameters delta and phi whether or not the later
            # steps give them: what an earlier step was told is not remembered)
            run.stray = {"delta": 0.0173, "phi": 1.37}
            run.R.stray_kwargs = run.stray
            run.numpy_step(sv2, {k: rng.random() < 0.5 for k in nets.OPT_KW})
            run.stray = {}
            run.R.stray_kwargs = run.stray
            for sym in ("SX", "MX") if not quick or ci % 2 == 0 else ("SX",):
                F, _ = run.function(sym, rng.choice([0, 1, 2]), bool(ci % 2), {k: rng.random() < 0.5 for k in nets.OPT_KW})
            again = run.numpy_step(sv)
            out["coverage"]["evaluations"] += 1
            for k in keys:
                if not same_float(again[k], ref[k]):
                    fail(out, f"C12:{tk}:repeat", net, pv, sv, f"stepping again from the same values after unrelated steps and compilations gives "
                         f"{k} = {again[k]!r}; a fresh network gives {ref[k]!r}")
                    break
            # the CasADi function of the used objects equals that of fresh objects
            F1, _ = run.function("SX", 0, False)
            F2, _ = Runner(net, pv).function("SX", 0, False)
            v1, p1 = run.call(F1, 0, False, sv)
            v2, p2 = Runner(net, pv).call(F2, 0, False, sv)
            if v1 is not None and v2 is not None:
                for k in keys:
                    if not same_float(v1[k], v2[k]) and not tree.close(v1[k], v2[k], max(abs(v2[k]), 1.0)):
                        fail(out, f"C12:{tk}:repeat-cs", net, pv, sv, f"function compiled on re-used objects gives {k} = {v1[k]!r}, on fresh objects {v2[k]!r}")
                        break
        except Exception as ex:
            fail(out, f"C12:{tk}:repeat-raise", net, pv, sv, f"re-using the network objects raised {ex!r:.300}")
        # a partial dictionary (a link given only its densities or only its speeds; some elements left out):
        # nothing is added to what the caller supplied, and a second step from the same dictionary with another
        # engine (whose own variables fill the gaps with another value) equals a fresh network's
        try:
            for rep, (fill1, fill2) in enumerate(((60.0, 90.0), ("rand", 12.5))):
                Rp = impl.Real(net, pv)
                full = Rp.init_conditions(sv, "vec1")
                # (the container is whatever mapping the caller collects the conditions in: a plain dict, or a
                # dict subclass that creates entries when it is subscripted - looking an element up must not add one)
                import collections
                ic = {} if rep == 0 else collections.defaultdict(dict)
                for j, (el, d) in enumerate(full.items()):
                    if (j + ci + rep) % 4 == 3:
                        continue                      # element left out entirely
                    ks = list(d)
                    ic[el] = {k: d[k] for k in ks if not ((j + rep) % 2 == 0 and k == ks[-1])}   # last entry left out
                    if not ic[el] and rep == 0:
                        ic[el] = dict(d)
                shape_before = {id(el): [(k, id(v)) for k, v in d.items()] for el, d in ic.items()}
                outer_before = [id(el) for el in ic]
                with np.errstate(all="ignore"):
                    Rp.net.step(init_conditions=ic, engine=impl.NpEngine(fill1), **Rp.step_kwargs())
                    first = Rp.read_next()
                out["coverage"]["evaluations"] += 1
                if [id(el) for el in ic] != outer_before:
                    fail(out, f"C12:{tk}:dict-outer", net, pv, sv, "a step from a partial dictionary of initial conditions added or removed elements of it")
                for el, d in ic.items():
                    if [(k, id(v)) for k, v in d.items()] != shape_before[id(el)]:
                        fail(out, f"C12:{tk}:dict-partial", net, pv, sv,
                             f"a step from a partial dictionary changed the supplied dictionary of {el.name}: keys "
                             f"{[k for k, _ in shape_before[id(el)]]} -> {list(d)}", fill=str(fill1))
                        break
                if fill2 != "rand" and fill1 != "rand":
                    with np.errstate(all="ignore"):
                        Rp.net.step(init_conditions=ic, engine=impl.NpEngine(fill2), **Rp.step_kwargs())
                        second = Rp.read_next()
                        Rq = impl.Real(net, pv)
                        mp = {id(Rp.links[l]): Rq.links[l] for l in Rp.links}
                        mp.update({id(Rp.origins[o]): Rq.origins[o] for o in Rp.origins})
                        mp.update({id(Rp.dests[dd]): Rq.dests[dd] for dd in Rp.dests})
                        icq = {mp[id(el)]: {k: full[el][k] for k, _ in shape_before[id(el)]} for el in ic}
                        Rq.net.step(init_conditions=icq, engine=impl.NpEngine(fill2), **Rq.step_kwargs())
                        fresh = Rq.read_next()
                    for k in keys:
                        if not same_float(second[k], fresh[k]):
                            fail(out, f"C12:{tk}:partial-repeat", net, pv, sv,
                                 f"second step from the same partial dictionary (engine variables filled with {fill2}, first step "
                                 f"with {fill1}) gives {k} = {second[k]!r}; a fresh network from the same values gives {fresh[k]!r}")
                            break
        except Exception as ex:
            fail(out, f"C12:{tk}:partial-raise", net, pv, sv, f"stepping from a partial dictionary of initial conditions raised {ex!r:.300}")
        # the dictionaries the LIBRARY reports (element.states after a step from values with negative entries, no
        # clamping) handed back as the initial conditions of a second step that clamps: they are the caller's now -
        # left as they were, and the step equals that of a fresh network from copies of the same values
        try:
            svn_ = nets.random_state(net, pv, rng, "negative")
            if not dyn.near_excluded(net, pv, svn_):
                Rl = impl.Real(net, pv)
                Rl.numpy_step(svn_)
                els_ = [(("l", l), Rl.links[l]) for l in Rl.links] + [(("o", o), Rl.origins[o]) for o in Rl.origins]
                given = {el: el.states for _, el in els_ if el.states and el in set(Rl.net.elements)}
                snap_ = {id(el): [(k, np.array(v, dtype=float).tobytes(), np.shape(v)) for k, v in d.items()] for el, d in given.items()}
                Rf = impl.Real(net, pv)
                twin = {("l", l): Rf.links[l] for l in Rf.links}
                twin.update({("o", o): Rf.origins[o] for o in Rf.origins})
                given_f = {twin[kk]: {k: np.array(v, dtype=float, copy=True) for k, v in el.states.items()}
                           for kk, el in els_ if el in given}
                o_ = {"pi_rho": True, "pi_v": True, "pi_w": True}
                with np.errstate(all="ignore"):
                    Rl.net.step(init_conditions=given, engine=impl.NpEngine(5.5), **nets.opts_kwargs(o_), **Rl.step_kwargs())
                    Rf.net.step(init_conditions=given_f, engine=impl.NpEngine(5.5), **nets.opts_kwargs(o_), **Rf.step_kwargs())
                out["coverage"]["evaluations"] += 1
                for el, d in given.items():
                    now_ = [(k, np.array(v, dtype=float).tobytes(), np.shape(v)) for k, v in d.items()]
                    if now_ != snap_[id(el)]:
                        chg = [k for (k, b_, _), (k2, b2, _) in zip(snap_[id(el)], now_) if b_ != b2] or [k for k, _, _ in now_]
                        fail(out, f"C12:{tk}:reported-dict", net, pv, svn_,
                             f"the dictionary reported as the states of {el.name} after a step, supplied as initial conditions of a "
                             f"second step with the positive_init options, was modified by that step (entries {chg})", opts=o_)
                        break
                a_, b__ = Rl.read_next(), Rf.read_next()
                for k in keys:
                    if not same_float(a_[k], b__[k]) and not (math.isnan(a_[k]) and math.isnan(b__[k])):
                        fail(out, f"C12:{tk}:reported-dict-repeat", net, pv, svn_,
                             f"second step from the dictionaries the library reported gives {k} = {a_[k]!r}; a fresh network from "
                             f"copies of the same values gives {b__[k]!r}", opts=o_)
                        break
        except Exception as ex:
            fail(out, f"C12:{tk}:reported-dict-raise", net, pv, sv, f"a step from the dictionaries reported by the library raised {ex!r:.300}")
        handed_back_next_states(out, "C12", net, pv, rng, keys)
        # element parameters given as NumPy values (0-d arrays for the turn rates): two steps leave them as they
        # were and both give what numbers give
        try:
            Rw = impl.Real(net, pv, param_wrap=lambda tok, x: np.array(x, dtype=float)
                           if tok.endswith(".turnrate") or tok.endswith(".rho_crit") else x)
            par0 = elem_params(Rw)
            for rep in range(2):
                got_w, _ = Rw.numpy_step(sv)
                out["coverage"]["evaluations"] += 1
                if elem_params(Rw) != par0:
                    diff = [(k, a, elem_params(Rw)[k][a], v) for k, d_ in par0.items() for a, v in d_.items() if elem_params(Rw)[k][a] != v]
                    fail(out, f"C12:{tk}:params-array", net, pv, sv,
                         f"turn rates given as 0-d NumPy arrays: after step {rep + 1} element parameters changed: "
                         f"{[(k, a, 'now ' + x, 'was ' + y) for (k, a, x, y) in diff[:3]]}")
                    break
                bad = [k for k in keys if not same_float(got_w[k], ref[k]) and not tree.close(got_w[k], ref[k], max(abs(ref[k]), 1.0))]
                if bad:
                    fail(out, f"C12:{tk}:params-array-value", net, pv, sv,
                         f"turn rates given as 0-d NumPy arrays, step {rep + 1}: {bad[0]} = {got_w[bad[0]]!r}, with numbers {ref[bad[0]]!r}")
                    break
        except Exception as ex:
            fail(out, f"C12:{tk}:params-array-raise", net, pv, sv, f"stepping with turn rates given as 0-d arrays raised {ex!r:.300}")
        # compile, re-step every element (element-level, no re-initialisation), compile again: compiling in between
        # changes nothing (the positive_init_* clamps of the variables are still in force)
        try:
            import casadi as cs
            svn = nets.random_state(net, pv, rng, "negative")
            if not dyn.near_excluded(net, pv, svn):
                for sym in ("SX", "MX") if not quick or ci % 2 else ("SX",):
                    o_ = {"pi_rho": True, "pi_v": True, "pi_w": True}
                    outs = []
                    for compile_between in (False, True):
                        Rc = impl.Real(net, pv)
                        eng = impl.CsEngine(sym)
                        Rc.net.step(engine=eng, **nets.opts_kwargs(o_), **Rc.step_kwargs())
                        if compile_between:
                            eng.to_function(Rc.net, compact=ci % 3, more_out=bool(ci % 2), **Rc.step_kwargs())
                        for el in Rc.net.origins:
                            el.step(net=Rc.net, engine=eng, positive_next_queue=False, **Rc.step_kwargs())
                        for (_, _, el) in Rc.net.links:
                            el.step(net=Rc.net, engine=eng, positive_next_speed=False, positive_next_density=False, **Rc.step_kwargs())
                        F = eng.to_function(Rc.net, compact=0, more_out=False, **Rc.step_kwargs())
                        vals_, probs_ = Runner(net, pv).call(F, 0, False, svn)
                        outs.append(vals_)
                    out["coverage"]["evaluations"] += 1
                    if outs[0] is not None and outs[1] is not None:
                        badk = [k for k in keys if not same_float(outs[0][k], outs[1][k]) and not
                                (math.isnan(outs[0][k]) and math.isnan(outs[1][k]))]
                        if badk:
                            fail(out, f"C12:{tk}:compile-between", net, pv, svn,
                                 f"{sym}: step with the positive_init options, compile, re-step the elements, compile: {badk[0]} = "
                                 f"{outs[1][badk[0]]!r}; without the compilation in between {outs[0][badk[0]]!r}", opts=o_)
        except Exception as ex:
            fail(out, f"C12:{tk}:compile-between-raise", net, pv, sv, f"compile / re-step / compile raised {ex!r:.300}")
        # all turn rates of a bifurcation exactly zero (the split is then 0/0 - not a number - but that is no licence
        # to rewrite the links' parameters)
        try:
            nodes_z, edges_z = net.graph()
            for (n_z, _o, _d) in nodes_z:
                outs_z = [l for (u, d, l) in edges_z if u == n_z]
                if len(outs_z) >= 2:
                    pvz = dict(pv)
                    for l in outs_z:
                        pvz[f"lp.{l}.turnrate"] = 0.0
                    Rz = impl.Real(net, pvz)
                    pz = elem_params(Rz)
                    try:
                        Rz.numpy_step(sv)
                    except Exception:
                        pass
                    out["coverage"]["evaluations"] += 1
                    if elem_params(Rz) != pz:
                        fail(out, f"C12:{tk}:params-zero-turnrates", net, pvz, sv,
                             f"all turn rates of the links leaving node {n_z} zero: the step changed element parameters "
                             f"{[(k, a) for k, d_ in pz.items() for a, v in d_.items() if elem_params(Rz)[k][a] != v][:4]}")
                    break
        except Exception as ex:
            fail(out, f"C12:{tk}:params-zero-raise", net, pv, sv, f"zero turn rates: raised {ex!r:.300}")
        # declared symbolic parameters: the supplied dictionary is left alone, a second compilation with it works
        try:
            cand = [f"lp.{l}.{p_}" for l in net.links for p_ in ("rho_crit", "a", "v_free")][:3]
            for sym in ("SX", "MX") if not quick or ci % 2 else ("SX",):
                run.function(sym, ci % 3, True, None, cand)
                while run.param_issues:
                    fail(out, f"C12:{tk}:param-dict", net, pv, sv, run.param_issues.pop(0), ptoks=cand)
        except Exception as ex:
            fail(out, f"C12:{tk}:param-raise", net, pv, sv, f"compiling with declared parameters {cand} raised {ex!r:.300}")
        # user symbols supplied as initial conditions are not altered
        try:
            Rs = impl.Real(net, pv)
            ic = {}
            for l, v in net.links.items():
                ic[Rs.links[l]] = {"rho": cs.SX.sym(f"urho{l}", v["N"], 1), "v": cs.SX.sym(f"uv{l}", v["N"], 1)}
            snap = {(id(el), k): str(x) for el, d in ic.items() for k, x in d.items()}
            Rs.net.step(init_conditions=ic, engine=impl.CsEngine("SX"), **Rs.step_kwargs())
            for el, d in ic.items():
                for k, x in d.items():
                    if str(x) != snap[(id(el), k)]:
                        fail(out, f"C12:{tk}:symbols", net, pv, sv, f"supplied symbol {k} of {el.name} was altered")
        except Exception as ex:
            out["info"].append(f"user-symbol step raised {ex!r:.200} on {net.family}")
        if engines.get_current_engine() is not sel_before:
            fail(out, f"C12:{tk}:selection", net, pv, sv, "stepping with an explicit engine changed the selected engine")
            engines.use(sel_before)
        distinct.add(tk)
    return finish(out, distinct, data, RULE + "; caller arrays write-protected and hashed, dictionaries and element parameters "
                  "snapshotted; the same objects re-stepped after unrelated steps (other values, options), CasADi SX/MX "
                  "steps and compilations, and compared bit for bit with a fresh network; user symbols; selection untouched")
