"""Dynamics slice: runner + property judges for C01-C05, C07, C10, C11, C14, C16, C17, C18.

Everything the judges compare with is either (a) a tree printed by Coq (model or
specification), or (b) another run of the implementation (metamorphic), or (c) an
identity among the implementation's own inputs and outputs (balance).
"""
import math
import random

import numpy as np

from harness import dyn, nets, tree, impl

OPT_NAMES = ["pi_v", "pi_rho", "pi_w", "pn_v", "pn_rho", "pn_w"]


def all_opts():
    out = []
    for m in range(64):
        out.append({n: bool(m >> i & 1) for i, n in enumerate(OPT_NAMES)})
    return out


# ---------------------------------------------------------------------------
# documented layouts (derived from the description, not from the implementation)
def desc_order(net):
    nodes, edges = net.graph()
    ls = [l for (_, _, l) in net.links_order()]
    os_, ds = [], []
    for (n, o, d) in nodes:
        if o is not None and o not in os_:
            os_.append(o)
        if d is not None and d not in ds:
            ds.append(d)
    return ls, os_, ds


def in_layout(net, compact, names):
    """list of (expected name, tokens) of the state/action/disturbance arguments"""
    x, u, d = dyn.documented_layout(net, desc_order(net))

    def nm(e):
        (var, kind, i) = e
        return f"{var}_{names[(kind, i)]}"
    if compact <= 0:
        return [(nm(e), toks) for grp in (x, u, d) for (e, toks) in grp]
    gx, gu, gd = dyn.regroup(x), dyn.regroup(u), dyn.regroup(d)
    if compact == 1:
        return [(k, v) for g in (gx, gu, gd) for k, v in g.items()]
    return [("x", [t for v in gx.values() for t in v]), ("u", [t for v in gu.values() for t in v]),
            ("d", [t for v in gd.values() for t in v])]


def out_layout(net, compact, more_out, names):
    ls, os_, ds = desc_order(net)
    x = []
    for l in ls:
        N = net.links[l]["N"]
        x.append((("rho", "l", l), [f"rho+ {l} {i}" for i in range(N)]))
        x.append((("v", "l", l), [f"v+ {l} {i}" for i in range(N)]))
    for o in os_:
        if net.origins[o] != "ideal":
            x.append((("w", "o", o), [f"w+ {o} 0"]))
    ql = [(("q", "l", l), [f"q {l} {i}" for i in range(net.links[l]["N"])]) for l in ls]
    qo = [(("q_o", "o", o), [f"qo {o} 0"]) for o in os_]
    if compact <= 0:
        out = [(f"{v}_{names[(k, i)]}+", t) for ((v, k, i), t) in x]
        if more_out:
            out += [(f"{v}_{names[(k, i)]}", t) for ((v, k, i), t) in ql + qo]
        return out
    g = {}
    for ((v, _, _), t) in x:
        g.setdefault(v + "+", []).extend(t)
    qlt = [t for (_, ts) in ql for t in ts]
    qot = [t for (_, ts) in qo for t in ts]
    if compact == 1:
        out = list(g.items())
        if more_out:
            out += [("q", qlt), ("q_o", qot)]
        return out
    out = [("x+", [t for v in g.values() for t in v])]
    if more_out:
        out += [("q", qlt + qot)]
    return out


def default_names(net):
    names = {}
    for l in net.links:
        names[("l", l)] = f"L{l}"
    for o in net.origins:
        names[("o", o)] = f"O{o}"
    for d in net.dests:
        names[("d", d)] = f"D{d}"
    nodes, _ = net.graph()
    for (n, _, _) in nodes:
        names[("n", n)] = f"N{n}"
    return names


# ---------------------------------------------------------------------------
class Runner:
    """one network description + parameter values, with the implementation objects"""

    def __init__(self, net, pv, names=None, reads_seed=None):
        self.net = net
        self.pv = pv
        self.names = names or default_names(net)
        self.reads_seed = reads_seed
        self._R = None
        self._F = {}

    @property
    def R(self):
        if self._R is None:
            self._R = impl.Real(self.net, self.pv, names=self.names, reads=self.reads())
        return self._R

    def reads(self):
        return None if self.reads_seed is None else random.Random(self.reads_seed)

    def numpy_step(self, sv, opts=None, scalar_shape="vec1", fresh=False):
        R = impl.Real(self.net, self.pv, names=self.names) if fresh else self.R
        out, ic = R.numpy_step(sv, opts, scalar_shape)
        return out

    def function(self, sym="SX", compact=0, more_out=False, opts=None, ptoks=None):
        """compile; ptoks: ordered list of parameter tokens to be made symbolic and declared"""
        key = (sym, compact, more_out, tuple(sorted((opts or {}).items())), tuple(ptoks or ()))
        if key in self._F:
            return self._F[key]
        import casadi as cs
        symtype = getattr(cs, sym)
        sp = {t: symtype.sym("p_" + t.replace(".", "_")) for t in (ptoks or [])}
        R = impl.Real(self.net, self.pv, names=self.names, sym_params=sp, reads=self.reads())
        eng = impl.CsEngine(sym)
        R.net.step(engine=eng, **nets.opts_kwargs(opts or {}), **R.step_kwargs())
        params = {("p_" + t.replace(".", "_")): sp[t] for t in (ptoks or [])} or None
        F = eng.to_function(R.net, compact=compact, more_out=more_out, parameters=params,
                            T=R.step_kwargs()["T"])
        self._F[key] = (F, R)
        return F, R

    def call(self, F, compact, more_out, sv, ptoks=None):
        """evaluate F at the point through the documented layout.
        returns (values {token: float}, problems [str])"""
        import casadi as cs
        problems = []
        lay = in_layout(self.net, compact, self.names)
        exp_in = [(n, len(t)) for n, t in lay]
        if ptoks:
            if compact <= 0:
                exp_in += [("p_" + t.replace(".", "_"), 1) for t in ptoks]
            else:
                exp_in += [("p", len(ptoks))]
        got_in = [(F.name_in(i), F.size1_in(i) * F.size2_in(i)) for i in range(F.n_in())]
        if [s for _, s in got_in] != [s for _, s in exp_in]:
            problems.append(f"argument sizes {got_in} differ from the documented layout {exp_in}")
            return None, problems
        if [n for n, _ in got_in] != [n for n, _ in exp_in]:
            problems.append(f"argument names {[n for n, _ in got_in]} differ from documented {[n for n, _ in exp_in]}")
        env = dyn.env_of(self.pv, sv)
        args = [cs.DM([env[t] for t in toks]) if toks else cs.DM(0, 1) for _, toks in lay]
        if ptoks:
            if compact <= 0:
                args += [cs.DM(env[t]) for t in ptoks]
            else:
                args += [cs.DM([env[t] for t in ptoks])]
        res = F(*args)
        if not isinstance(res, (list, tuple)):
            res = [res]
        olay = out_layout(self.net, compact, more_out, self.names)
        got_out = [(F.name_out(i), F.size1_out(i) * F.size2_out(i)) for i in range(F.n_out())]
        exp_out = [(n, len(t)) for n, t in olay]
        if [s for _, s in got_out] != [s for _, s in exp_out]:
            problems.append(f"result sizes {got_out} differ from the documented layout {exp_out}")
            return None, problems
        if [n for n, _ in got_out] != [n for n, _ in exp_out]:
            problems.append(f"result names {[n for n, _ in got_out]} differ from documented {[n for n, _ in exp_out]}")
        vals = {}
        for (n, toks), r in zip(olay, res):
            arr = np.array(r, dtype=float).reshape(-1)
            for t, v in zip(toks, arr):
                vals[t] = float(v)
        return vals, problems


# ---------------------------------------------------------------------------
def gen_cases(ctx, n_random):
    rng = ctx["rng"]
    cases = []
    for net in nets.families(rng):
        cases.append(net)
    for _ in range(n_random):
        cases.append(nets.random_valid(rng, nmax=rng.choice([3, 4, 5, 6, 8])))
    return cases


def points_for(net, pv, rng, k):
    pts = []
    for i in range(k):
        mode = ["interior", "boundary", "boundary"][i % 3]
        pts.append((mode, dyn.admissible_state(net, pv, rng, mode)))
    return pts


def state_keys(net):
    ks = []
    for l, v in net.links.items():
        for i in range(v["N"]):
            ks += [f"rho+ {l} {i}", f"v+ {l} {i}"]
    for o, k in net.origins.items():
        if k != "ideal":
            ks.append(f"w+ {o} 0")
    return ks


def new_outcome():
    return {"failures": [], "disagreements": [], "info": [],
            "coverage": {"evaluations": 0, "distinct_nontrivial": 0, "samples": []}}


def fail(out, prop_key, net, pv, sv, what, **extra):
    rec = {"key": prop_key, "what": what, "net": net.to_json(), "pv": pv, "sv": sv}
    rec.update(extra)
    out["failures"].append(rec)


def disagree(out, net, pv, sv, what, **extra):
    rec = {"what": what, "net": net.to_json(), "pv": pv, "sv": sv}
    rec.update(extra)
    out["disagreements"].append(rec)


def topo_key(net):
    import hashlib
    return f"{net.family}:{hashlib.md5(repr(net.signature()).encode()).hexdigest()[:8]}"


def correspondence(out, ctx, cases, opts=None, engines=("np",), per_case_points=3, sym_types=("SX",),
                   distinct=None):
    """model trees (Blocks.v at expr, generated engine) vs implementation.  Returns per-case data
    [(net, pv, points, model_trees, spec_trees, runner)] for the judges."""
    rng = ctx["rng"]
    data = []
    mt = {e: None for e in engines}
    st = None
    if ctx["model_ok"]:
        try:
            for e in engines:
                mt[e] = dyn.model_trees(cases, e, opts)
            st = dyn.spec_trees(cases)
        except Exception as ex:
            out["disagreements"].append({"what": "Coq model could not be evaluated", "error": str(ex)[-500:]})
            mt = {e: None for e in engines}
            st = None
    for ci, net in enumerate(cases):
        pv = nets.random_params(net, rng)
        pts = points_for(net, pv, rng, per_case_points)
        # every other case interleaves look-up reads / validation with the construction calls
        run = Runner(net, pv, reads_seed=(ci * 31 + 7) if ci % 2 else None)
        oc = run.R.order_check()
        if oc:
            disagree(out, net, pv, None, "graph order model: " + oc)
        mtree = {e: (mt[e][ci] if mt[e] is not None else None) for e in engines}
        if mtree.get("np") and "ERR" in mtree["np"]:
            disagree(out, net, pv, None, "model returns error " + mtree["np"]["ERR"] + " on a valid network")
        data.append((net, pv, pts, mtree, st[ci] if st is not None else None, run))
        for mode, sv in pts:
            env = dyn.env_of(pv, sv)
            # NumPy implementation vs model(np)
            try:
                got = run.numpy_step(sv, opts)
            except Exception as ex:
                got = ex
            out["coverage"]["evaluations"] += 1
            if mtree.get("np") and "ERR" not in mtree["np"]:
                mv = dyn.eval_all(mtree["np"], env)
                if distinct is not None:
                    brs = frozenset().union(*[b for (_, _, b) in mv.values()]) if mv else frozenset()
                    if net.nontrivial():
                        distinct.add((topo_key(net), brs))
                if isinstance(got, Exception):
                    disagree(out, net, pv, sv, f"NumPy step raised {got!r:.300} where the model succeeds", opts=opts)
                else:
                    for k in state_keys(net):
                        if k not in mv:
                            disagree(out, net, pv, sv, f"model has no output {k}", opts=opts)
                            break
                        v, mag, _ = mv[k]
                        if not tree.close(v, got[k], mag):
                            disagree(out, net, pv, sv, f"NumPy {k} = {got[k]!r}, model {v!r}", opts=opts)
                            break
            # CasADi implementation vs model(cs)
            for sym in sym_types:
                try:
                    F, _ = run.function(sym, 0, True, opts)
                    vals, probs = run.call(F, 0, True, sv)
                except Exception as ex:
                    vals, probs = None, [f"CasADi {sym} raised {ex!r:.300}"]
                out["coverage"]["evaluations"] += 1
                key = "cs" if "cs" in mtree else "np"
                if mtree.get(key) and "ERR" not in mtree[key]:
                    mv = dyn.eval_all(mtree[key], env)
                    if vals is None:
                        disagree(out, net, pv, sv, "; ".join(probs), opts=opts, sym=sym)
                    else:
                        for k, x in vals.items():
                            if k in mv and not tree.close(mv[k][0], x, mv[k][1]):
                                disagree(out, net, pv, sv, f"CasADi {sym} {k} = {x!r}, model {mv[k][0]!r}", opts=opts)
                                break
    return data


def finish(out, distinct, data, rule):
    out["coverage"]["distinct_nontrivial"] = len(distinct)
    out["coverage"]["rule"] = rule
    out["coverage"]["traces_validated_against_impl"] = out["coverage"]["evaluations"]
    fams = {}
    for (net, *_r) in data:
        fams[net.family] = fams.get(net.family, 0) + 1
    out["coverage"]["input_distribution"] = {
        "networks": len(data), "families": fams,
        "max_nodes": max(len(n.graph()[0]) for (n, *_r) in data),
        "with_merge_or_bifurcation": sum(1 for (n, *_r) in data if any(
            len(n.in_links(x[0])) >= 2 or len(n.out_links(x[0])) >= 2 for x in n.graph()[0]))}
    if data and not out["coverage"]["samples"]:
        net, pv, pts, *_r = data[min(3, len(data) - 1)]
        out["coverage"]["samples"] = [{"network": net.to_json(), "point": pts[0][1]}]
    return out


RULE = ("networks: fixed families (all origin/destination kinds on a single link, chain, merges, "
        "bifurcations, 2x2 junction, interior ramps of every kind with/without delta, ring, self-loop, "
        "2-cycle, lane drop/gain, VSL all/one/empty, single-segment chain) + random valid graphs to 8 "
        "nodes, each at interior and boundary states (zeros, rho_max, rho_crit, huge/inf limits); "
        "distinct = (topology signature, set of min/max/if sides taken in the model trees), "
        "non-trivial = has a node of in/out-degree >= 2 or a controlled element")


# ---------------------------------------------------------------------------
# C01: spec tree vs implementation
def run_C01(ctx):
    out = new_outcome()
    distinct = set()
    quick = ctx["tier"] == "quick"
    cases = gen_cases(ctx, 12 if quick else 150)
    data = correspondence(out, ctx, cases, engines=("np", "cs"), per_case_points=3 if quick else 12,
                          sym_types=("SX",) if quick else ("SX", "MX"), distinct=distinct)
    for (net, pv, pts, mtree, stree, run) in data:
        if stree is None:
            continue
        for mode, sv in pts:
            env = dyn.env_of(pv, sv)
            sv_ = dyn.eval_all(stree, env)
            try:
                got = run.numpy_step(sv)
            except Exception as ex:
                fail(out, f"C01:{topo_key(net)}:raise", net, pv, sv, f"NumPy step raised {ex!r:.300}")
                continue
            try:
                F, _ = run.function("SX", 0, False)
                cvals, probs = run.call(F, 0, False, sv)
            except Exception as ex:
                cvals = None
            for k in state_keys(net):
                v, mag, _ = sv_[k]
                if not tree.close(v, got[k], mag):
                    fail(out, f"C01:{topo_key(net)}:{k.split()[0]}", net, pv, sv,
                         f"NumPy engine: {k} = {got[k]!r} but METANET (spec tree) gives {v!r}",
                         observable=k, expected=v, actual=got[k], engine="numpy")
                    break
                if cvals is not None and not tree.close(v, cvals[k], mag):
                    fail(out, f"C01:{topo_key(net)}:{k.split()[0]}", net, pv, sv,
                         f"CasADi function: {k} = {cvals[k]!r} but METANET (spec tree) gives {v!r}",
                         observable=k, expected=v, actual=cvals[k], engine="casadi-SX")
                    break
    return finish(out, distinct, data, RULE)


def replay(failure):
    import json
    net = nets.Net.from_json(failure["net"])
    pv, sv = failure["pv"], failure["sv"]
    print("network:", json.dumps(failure["net"]))
    print("what:", failure["what"])
    run = Runner(net, pv)
    try:
        got = run.numpy_step(sv, failure.get("opts"))
        print("NumPy next states now:", {k: v for k, v in got.items() if not k.startswith("shape")})
    except Exception as ex:
        print("NumPy step raises:", repr(ex))
    try:
        st = dyn.spec_trees([net])[0]
        env = dyn.env_of(pv, sv)
        print("specification:", {k: v[0] for k, v in dyn.eval_all(st, env).items()})
    except Exception as ex:
        print("spec trees unavailable:", ex)
    return 0
