"""Running the implementation (/repo/src, forced on sys.path) on a network description."""
import os
import sys

REPO_SRC = os.environ.get("VERIF_REPO_SRC", "/repo/src")
if REPO_SRC not in sys.path:
    sys.path.insert(0, REPO_SRC)

import numpy as np  # noqa: E402
import casadi as cs  # noqa: E402
import sym_metanet as sm  # noqa: E402
from sym_metanet import (CongestedDestination, Destination, Link, LinkWithVsl,  # noqa: E402
                         MainstreamOrigin, MeteredOnRamp, Network, Node, Origin,
                         SimplifiedMeteredOnRamp)
from sym_metanet.engines.casadi import Engine as CsEngine  # noqa: E402
from sym_metanet.engines.numpy import Engine as NpEngine  # noqa: E402

assert os.path.realpath(sm.__file__).startswith(os.path.realpath(REPO_SRC)), sm.__file__


class Real:
    """the real objects of a description"""

    def __init__(self, net, pv, names=None, sym_params=None, reads=None, param_wrap=None):
        """pv: numeric parameter values keyed by model token; sym_params: set of tokens to be
        replaced by the given symbols {token: symbol}."""
        self.desc = net
        names = names or {}
        sp = sym_params or {}

        def val(tok):
            if tok in sp:
                return sp[tok]
            if tok in pv:
                if param_wrap:
                    return param_wrap(tok, pv[tok])
                if tok.endswith(".a") and float(pv[tok]).is_integer():
                    return int(pv[tok])          # a whole-number exponent as a user writes it: a=2
                return pv[tok]
            # parameters of elements that are replaced before the network is used
            return {"L": 1.0, "rho_max": 180.0, "rho_crit": 33.0, "v_free": 100.0, "a": 1.8,
                    "turnrate": 1.0, "alpha": 0.1}.get(tok.split(".")[-1], 2000.0)

        self.nodes = {}
        self.links = {}
        for l, v in list(net.links.items()) + list(getattr(net, 'x_links', {}).items()):
            kw = dict(nb_segments=v["N"], lanes=v["lanes"], length=val(f"lp.{l}.L"),
                      maximum_density=val(f"lp.{l}.rho_max"),
                      critical_density=val(f"lp.{l}.rho_crit"),
                      free_flow_velocity=val(f"lp.{l}.v_free"), a=val(f"lp.{l}.a"),
                      turnrate=val(f"lp.{l}.turnrate"), name=names.get(("l", l), f"L{l}"))
            if v["vsl"] is None:
                self.links[l] = Link(**kw)
            else:
                self.links[l] = LinkWithVsl(segments_with_vsl=set(v["vsl"]),
                                            alpha=val(f"lp.{l}.alpha"), **kw)
        self.origins = {}
        for o, k in list(net.origins.items()) + list(getattr(net, 'x_origins', {}).items()):
            nm = names.get(("o", o), f"O{o}")
            if k == "ideal":
                self.origins[o] = Origin(name=nm)
            elif k == "main":
                self.origins[o] = MainstreamOrigin(name=nm)
            elif k in ("ramp_in", "ramp_out"):
                # (the strings are equal to the documented literals without being those objects: read from a file,
                # lower-cased, joined ...)
                self.origins[o] = MeteredOnRamp(val(f"C.{o}"), flow_eq_type=bytes(k[5:], "ascii").decode("ascii"), name=nm)
            else:
                self.origins[o] = SimplifiedMeteredOnRamp(
                    val(f"C.{o}"), flow_eq_type=bytes("limited" if k == "simp_lim" else "unlimited", "ascii").decode("ascii"), name=nm)
        self.dests = {}
        for d, k in list(net.dests.items()) + list(getattr(net, 'x_dests', {}).items()):
            nm = names.get(("d", d), f"D{d}")
            self.dests[d] = Destination(name=nm) if k == "free" else CongestedDestination(name=nm)
        # (a network may be called anything: names with blanks, dashes, leading digits)
        self.read_errors = []
        # keywords named after ELEMENT parameters passed to Network.step / to_function next to the model parameters
        # (the project's own tests do so): every element reads its own parameters from itself, whatever is passed
        self.stray_kwargs = {}
        self.net = Network(name=["ring road A10", "A13-north", "2nd ring", "net_1", "réseau"][len(net.ops) % 5])
        for op in net.ops:
            if reads is not None and reads.random() < 0.5:
                self.touch()
            if op[0] == "use":
                self.touch()
            elif op[0] == "node":
                self.net.add_node(self.node(op[1], names))
            elif op[0] == "link":
                self.net.add_link(self.node(op[1], names), self.links[op[2]], self.node(op[3], names))
            elif op[0] == "origin":
                self.net.add_origin(self.origins[op[1]], self.node(op[2], names))
            elif op[0] == "dest":
                self.net.add_destination(self.dests[op[1]], self.node(op[2], names))
        self.pv = pv
        self.sp = sp

    def touch(self):
        """read every cached look-up (and validate) in the middle of the construction: a later
        construction call must not leave any of them stale"""
        n = self.net
        for attr in ("nodes_by_name", "links_by_name", "nodes_by_link", "origins", "origins_by_name",
                     "origins_by_node", "destinations", "destinations_by_name", "destinations_by_node", "elements"):
            try:
                list(getattr(n, attr))
            except Exception as ex:      # a read that raises is reported by the caller, it must not stop the harness
                self.read_errors.append(f"reading {attr} of the network raised {ex!r:.200}")
        try:
            ok = n.is_valid()[0]
        except Exception:
            ok = False
        if ok:
            # the network is (already) valid: step it on both engines; whatever is computed or
            # memoised now must not leak into the steps taken after the construction continues
            # (NumPy last: what the replaced elements keep is numeric, so that a stale reference to one of
            # them yields a silently wrong number rather than a type error)
            for eng in (CsEngine("SX"), NpEngine("rand")):
                try:
                    with np.errstate(all="ignore"):
                        n.step(engine=eng, T=0.01, tau=0.005, eta=60.0, kappa=40.0, delta=0.01, phi=1.0)
                except Exception:
                    pass

    def node(self, n, names):
        if n not in self.nodes:
            self.nodes[n] = Node(name=names.get(("n", n), f"N{n}"))
        return self.nodes[n]

    def step_kwargs(self):
        def val(tok):
            return self.sp[tok] if tok in self.sp else self.pv[tok]
        kw = dict(T=val("g.T"), tau=val("g.tau"), eta=val("g.eta"), kappa=val("g.kappa"))
        if self.desc.has_delta:
            kw["delta"] = val("g.delta")
        if self.desc.has_phi:
            kw["phi"] = val("g.phi")
        kw.update(self.stray_kwargs)
        return kw

    # ---- check the order model against the real object ----
    def order_check(self):
        nodes, edges = self.desc.graph()
        inv = {id(v): k for k, v in self.nodes.items()}
        linv = {id(v): k for k, v in self.links.items()}
        real_nodes = [inv[id(n)] for n in self.net.nodes]
        if real_nodes != [n for (n, _, _) in nodes]:
            return f"node order {real_nodes} vs {[n for (n, _, _) in nodes]}"
        real_links = [(inv[id(u)], inv[id(d)], linv[id(l)]) for u, d, l in self.net.links]
        if real_links != self.desc.links_order():
            return f"links order {real_links} vs {self.desc.links_order()}"
        for n in real_nodes:
            ri = [(inv[id(u)], inv[id(d)], linv[id(l)]) for u, d, l in self.net.in_links(self.nodes[n])]
            ro = [(inv[id(u)], inv[id(d)], linv[id(l)]) for u, d, l in self.net.out_links(self.nodes[n])]
            if ri != self.desc.in_links(n) or ro != self.desc.out_links(n):
                return f"in/out links of node {n}"
        return None

    # ---- initial conditions from a state point ----
    def init_conditions(self, sv, scalar_shape="vec1"):
        vdt = int if scalar_shape == "int" else float      # "int": integer-valued states given as integer arrays

        def sc(x):
            if scalar_shape in ("vec1", "int"):
                return np.array([x], dtype=vdt if float(x).is_integer() and abs(x) < 1e9 else float)
            if scalar_shape == "zerod":
                return np.array(x, dtype=float)
            return float(x)
        ic = {}
        for l, v in self.desc.links.items():
            d = {"rho": np.array([sv[f"rho.{l}.{i}"] for i in range(v["N"])], dtype=vdt),
                 "v": np.array([sv[f"v.{l}.{i}"] for i in range(v["N"])], dtype=vdt)}
            if v["vsl"] is not None:
                d["v_ctrl"] = np.array([sv[f"vc.{l}.{k}"] for k in range(len(v["vsl"]))], dtype=float)
            ic[self.links[l]] = d
        for o, k in self.desc.origins.items():
            if k == "ideal":
                continue
            act = {"main": "v_ctrl", "ramp_in": "r", "ramp_out": "r"}.get(k, "q")
            ic[self.origins[o]] = {"w": sc(sv[f"w.{o}"]), "d": sc(sv[f"d.{o}"]), act: sc(sv[f"u.{o}"])}
        for d, k in self.desc.dests.items():
            if k == "cong":
                ic[self.dests[d]] = {"d": sc(sv[f"dd.{d}"])}
        return ic

    def numpy_step_elementwise(self, sv, scalar_shape="vec1"):
        """the element-level API with its own defaults: every element initialised by its own init_vars (no option
        passed), then origins and links stepped one by one with the next-options explicitly off"""
        eng = NpEngine(float("nan"))
        ic = self.init_conditions(sv, scalar_shape)
        with np.errstate(all="ignore"):
            for el in self.net.elements:
                el.init_vars(init_conditions=ic.get(el), engine=eng)
            for el in self.net.origins:
                el.step(net=self.net, engine=eng, positive_next_queue=False, **self.step_kwargs())
            for (_, _, el) in self.net.links:
                el.step(net=self.net, engine=eng, positive_next_speed=False, positive_next_density=False, **self.step_kwargs())
        return self.read_next()

    def numpy_step(self, sv, opts=None, scalar_shape="vec1", engine=None):
        """returns ({out token: float}, ic)"""
        from harness.nets import opts_kwargs
        # every variable is supplied by the caller here; whatever the engine creates itself in place of a supplied
        # value would be "not a number" and show in the results
        eng = engine or NpEngine(float("nan"))
        ic = self.init_conditions(sv, scalar_shape)
        with np.errstate(all="ignore"):
            self.net.step(init_conditions=ic, engine=eng, **opts_kwargs(opts or {}),
                          **self.step_kwargs())
        return self.read_next(), ic

    def read_next(self):
        out = {}
        for l, v in self.desc.links.items():
            ns = self.links[l].next_states
            for nm, tag in (("rho", "rho+"), ("v", "v+")):
                arr = np.asarray(ns[nm], dtype=float).reshape(-1)
                for i in range(v["N"]):
                    out[f"{tag} {l} {i}"] = float(arr[i])
                out[f"shape {tag} {l}"] = tuple(np.shape(ns[nm]))
        for o, k in self.desc.origins.items():
            if k == "ideal":
                continue
            ns = self.origins[o].next_states
            out[f"w+ {o} 0"] = float(np.asarray(ns["w"], dtype=float).reshape(-1)[0])
            out[f"shape w+ {o}"] = tuple(np.shape(ns["w"]))
        return out

    # ---- CasADi: symbolic step + compiled function ----
    def casadi_function(self, sym_type="SX", compact=0, more_out=True, opts=None, parameters=None):
        from harness.nets import opts_kwargs
        eng = CsEngine(sym_type)
        self.net.step(engine=eng, **opts_kwargs(opts or {}), **self.step_kwargs())
        kw = dict(T=self.step_kwargs()["T"])
        F = eng.to_function(self.net, compact=compact, more_out=more_out,
                            parameters=parameters, **kw)
        return F

    def casadi_args_by_name(self, F, sv):
        """compact=0 argument values by input name (unique default names assumed)"""
        args = []
        for nm in F.name_in():
            args.append(self.values_for_name(nm, sv))
        return args

    def values_for_name(self, nm, sv):
        var, el = nm.split("_", 1) if not nm.startswith("v_ctrl_") else ("v_ctrl", nm[7:])
        for l, v in self.desc.links.items():
            if self.links[l].name == el:
                if var == "rho":
                    return [sv[f"rho.{l}.{i}"] for i in range(v["N"])]
                if var == "v":
                    return [sv[f"v.{l}.{i}"] for i in range(v["N"])]
                if var == "v_ctrl":
                    return [sv[f"vc.{l}.{k}"] for k in range(len(v["vsl"]))]
        for o in self.desc.origins:
            if self.origins[o].name == el:
                return [sv[{"w": f"w.{o}", "d": f"d.{o}"}.get(var, f"u.{o}")]]
        for d in self.desc.dests:
            if self.dests[d].name == el and var == "d":
                return [sv[f"dd.{d}"]]
        raise KeyError(nm)

    def casadi_eval(self, F, sv):
        """evaluate a compact=0 function -> {out token: float}"""
        res = F(*self.casadi_args_by_name(F, sv))
        if not isinstance(res, (list, tuple)):
            res = [res]
        out = {}
        for nm, val in zip(F.name_out(), res):
            arr = np.array(val, dtype=float).reshape(-1)
            self.store_output(nm, arr, out)
        return out

    def store_output(self, nm, arr, out):
        if nm.startswith("q_o_"):
            for o in self.desc.origins:
                if self.origins[o].name == nm[4:]:
                    out[f"qo {o} 0"] = float(arr[0])
            return
        if nm.startswith("q_") and not nm.endswith("+"):
            for l, v in self.desc.links.items():
                if self.links[l].name == nm[2:]:
                    for i in range(v["N"]):
                        out[f"q {l} {i}"] = float(arr[i])
            return
        assert nm.endswith("+"), nm
        var, el = nm[:-1].split("_", 1)
        for l, v in self.desc.links.items():
            if self.links[l].name == el and var in ("rho", "v"):
                for i in range(v["N"]):
                    out[f"{var}+ {l} {i}"] = float(arr[i])
                return
        for o in self.desc.origins:
            if self.origins[o].name == el and var == "w":
                out[f"w+ {o} 0"] = float(arr[0])
                return
        raise KeyError(nm)
