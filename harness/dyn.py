"""Dynamics slice shared by C01-C05, C07, C10, C11, C14, C16-C18.

A *case* is a network description (nets.Net) with numeric parameters and several
state points.  For a case we can obtain
  - the model trees (Coq, Blocks.v at the expression instance, engine np or cs, options),
  - the specification trees (Coq, Spec.v),
  - the implementation's NumPy step and CasADi functions,
and compare them.  Coq results are cached on disk keyed by the hash of the whole
Coq development (so an edit of the model, or a regenerated engine file,
invalidates them).
"""
import hashlib
import json
import math
import os

import numpy as np

from harness import build, coqio, nets, tree

CACHE_DIR = os.path.join(build.VERIF, ".cache")
_TH = None


def theory_hash():
    global _TH
    if _TH is None:
        _TH = build.theory_hash()
    return _TH


_PRUNED = False


def _cache_dir():
    """one sub-directory per state of the Coq development; the sub-directories of earlier states are useless (every
    entry is keyed by the hash of all theories) and are removed, oldest first, beyond the three most recent"""
    global _PRUNED
    d = os.path.join(CACHE_DIR, theory_hash()[:16])
    os.makedirs(d, exist_ok=True)
    if not _PRUNED:
        _PRUNED = True
        try:
            import shutil
            os.utime(d, None)
            subs = sorted((x for x in os.listdir(CACHE_DIR)), key=lambda x: os.path.getmtime(os.path.join(CACHE_DIR, x)))
            for x in subs[:-3]:
                px = os.path.join(CACHE_DIR, x)
                if px != d:
                    shutil.rmtree(px, ignore_errors=True) if os.path.isdir(px) else os.remove(px)
        except OSError:
            pass
    return d


def cached_eval(terms, header):
    """coqio.eval_cases with an on-disk cache"""
    cdir = _cache_dir()
    keys = [hashlib.sha256((theory_hash() + header + t).encode()).hexdigest()[:32] for t in terms]
    out = [None] * len(terms)
    todo = []
    for i, k in enumerate(keys):
        p = os.path.join(cdir, k + ".json")
        if os.path.exists(p):
            try:
                out[i] = json.load(open(p))
                continue
            except Exception:
                pass
        todo.append(i)
    if todo:
        res = coqio.eval_cases([terms[i] for i in todo], header=header)
        for i, r in zip(todo, res):
            out[i] = r
            tmp = os.path.join(cdir, keys[i] + f".{os.getpid()}.tmp")
            with open(tmp, "w") as f:
                json.dump(r, f)
            os.replace(tmp, os.path.join(cdir, keys[i] + ".json"))
    return out, len(todo)


def b(x):
    return "true" if x else "false"


def model_term(net, engine="np", opts=None):
    return (f"run_sym {engine}_engine {net.coq_universe()} {net.coq_graph()} "
            f"{nets.coq_options(opts or {})} {b(net.has_delta)} {b(net.has_phi)}")


def spec_term(net):
    return f"run_spec {net.coq_universe()} {net.coq_graph()} {b(net.has_delta)} {b(net.has_phi)}"


def model_trees(net_list, engine="np", opts=None):
    res, _ = cached_eval([model_term(n, engine, opts) for n in net_list], coqio.HEADER)
    return [parse_trees(r) for r in res]


def spec_trees(net_list):
    res, _ = cached_eval([spec_term(n) for n in net_list], coqio.HEADER_SPEC)
    return [parse_trees(r) for r in res]


def parse_trees(lines):
    d = coqio.parse_lines(lines)
    out = {}
    for k, t in d.items():
        if k == "ERR":
            out["ERR"] = t
        elif isinstance(t, tuple):
            out[k] = t
        else:
            out[k] = tree.parse(t)
    return out


# ---------------------------------------------------------------------------
def env_of(pv, sv):
    env = dict(pv)
    env.update(sv)
    return env


def eval_all(trees, env):
    """{key: (value, scale, branches)} for every proper tree"""
    out = {}
    for k, t in trees.items():
        if k == "ERR" or (isinstance(t, tuple) and t and t[0] == "!"):
            continue
        v, mag, br, _ = tree.eval_tree(t, env)
        out[k] = (v, mag, frozenset(br))
    return out


def near_excluded(net, pv, sv, tol=1e-6):
    """is the point within tol of the model's own 0/0 (merge with zero inflow, bifurcation with
    zero first-segment density), which the properties exclude?"""
    nodes, edges = net.graph()
    for (n, _, _) in nodes:
        ins = [e for e in edges if e[1] == n]
        outs = [e for e in edges if e[0] == n]
        if len(ins) >= 2:
            tot = 0.0
            for (_, _, l) in ins:
                i = net.links[l]["N"] - 1
                tot += abs(sv[f"rho.{l}.{i}"] * sv[f"v.{l}.{i}"] * net.links[l]["lanes"])
            if tot <= tol:
                return True
        if len(outs) >= 2:
            if sum(abs(sv[f"rho.{l}.0"]) for (_, _, l) in outs) <= tol:
                return True
    return False


def admissible_state(net, pv, rng, mode):
    """a state in the properties' admissible domain (non-negative; rho_first <= rho_max holds by
    construction of random_state), not within tol of the excluded 0/0"""
    for _ in range(50):
        sv = nets.random_state(net, pv, rng, mode)
        if not near_excluded(net, pv, sv):
            return sv
    return nets.random_state(net, pv, rng, "interior")


def compare(a, b_, scale):
    return tree.close(a, b_, scale)


def finite(x):
    return isinstance(x, float) and math.isfinite(x)


# ---------------------------------------------------------------------------
def casadi_io(R, F, sv, pvals=None):
    """evaluate any-compactness F at the point: returns (list of input vectors, list of outputs)
    Layout of inputs is reconstructed from F.name_in() for compact=0 only; for compact>=1 use
    `stack_inputs`."""
    raise NotImplementedError


def element_order(R):
    """the network's own enumeration: links, origins, destinations (ids)"""
    net = R.net
    linv = {id(v): k for k, v in R.links.items()}
    oinv = {id(v): k for k, v in R.origins.items()}
    dinv = {id(v): k for k, v in R.dests.items()}
    ls = [linv[id(l)] for _, _, l in net.links]
    os_ = [oinv[id(o)] for o in net.origins]
    ds = [dinv[id(d)] for d in net.destinations]
    return ls, os_, ds


ACT = {"main": "v_ctrl", "ramp_in": "r", "ramp_out": "r", "simp_lim": "q", "simp_unl": "q"}


def documented_layout(net, order):
    """The documented argument layout at compact=0 as a list of (name-kind, group, tokens):
    per group (x, u, d), per element in `order` (links, origins, destinations), per variable."""
    ls, os_, ds = order
    x, u, d = [], [], []
    for l in ls:
        N = net.links[l]["N"]
        x.append((("rho", "l", l), [f"rho.{l}.{i}" for i in range(N)]))
        x.append((("v", "l", l), [f"v.{l}.{i}" for i in range(N)]))
        if net.links[l]["vsl"] is not None:
            u.append((("v_ctrl", "l", l), [f"vc.{l}.{k}" for k in range(len(net.links[l]["vsl"]))]))
    for o in os_:
        k = net.origins[o]
        if k == "ideal":
            continue
        x.append((("w", "o", o), [f"w.{o}"]))
        u.append(((ACT[k], "o", o), [f"u.{o}"]))
        d.append((("d", "o", o), [f"d.{o}"]))
    for dd in ds:
        if net.dests[dd] == "cong":
            d.append((("d", "d", dd), [f"dd.{dd}"]))
    return x, u, d


def regroup(entries):
    """compact=1 grouping: stable regrouping by variable name (first-appearance order)"""
    groups = {}
    for (nm, _, _), toks in entries:
        groups.setdefault(nm, []).extend(toks)
    return groups


# ---------------------------------------------------------------------------
# ToFunction.v
HEADER_TF = ("From Coq Require Import QArith List String.\n"
             "From SM Require Import Num Graph Engine Expr Types Blocks Sym ToFunction TFSym.\n"
             "Import ListNotations.\nSet Printing Width 1000000.\nSet Printing Depth 1000000.\n")
LPAR_COQ = {"L": "PL", "rho_max": "Prhomax", "rho_crit": "Prhocrit", "v_free": "Pvfree", "a": "Pa",
            "turnrate": "Pturn", "alpha": "Palpha"}
GPAR_COQ = {"T": "GT", "tau": "Gtau", "eta": "Geta", "kappa": "Gkappa", "delta": "Gdelta", "phi": "Gphi"}


def coq_ident(tok):
    p = tok.split(".")
    if p[0] == "lp":
        return f"(LPar {p[1]}%nat {LPAR_COQ[p[2]]})"
    if p[0] == "C":
        return f"(OCap {p[1]}%nat)"
    if p[0] == "g":
        return f"(Glob {GPAR_COQ[p[1]]})"
    raise KeyError(tok)


def coq_names(net, names):
    def lst(kind, ids):
        n = (max(ids) + 1) if ids else 0
        return "[" + "; ".join('"%s"%%string' % names.get((kind, i), "") for i in range(n)) + "]"
    return ("{| lname := fun l => nth l %s \"\"%%string; oname := fun o => nth o %s \"\"%%string; "
            "dname := fun d => nth d %s \"\"%%string |}" % (lst("l", list(net.links)), lst("o", list(net.origins)),
                                                           lst("d", list(net.dests))))


def tf_term(net, names, opts, compact, more_out, ptoks, pnames):
    ps = "[" + "; ".join(f'("{pnames[t]}"%string, {coq_ident(t)})' for t in (ptoks or [])) + "]"
    return (f"run_tf cs_engine {coq_names(net, names)} {net.coq_universe()} {net.coq_graph()} "
            f"{nets.coq_options(opts or {})} {b(net.has_delta)} {b(net.has_phi)} {min(compact, 2) if compact > 0 else 0}%nat "
            f"{b(more_out)} {ps}")


def tf_models(terms):
    res, _ = cached_eval(terms, HEADER_TF)
    out = []
    for lines in res:
        ins, outs, err = [], [], None
        for ln in lines:
            if ln.startswith("IN "):
                nm, rest = ln[3:].split(" | ", 1) if " | " in ln else (ln[3:].rstrip(" |"), "")
                ins.append((nm, rest.split()))
            elif ln.startswith("OUT "):
                nm, rest = ln[4:].split(" | ", 1) if " | " in ln else (ln[4:].rstrip(" |"), "")
                outs.append((nm, [tree.parse(t) for t in rest.split(" ; ") if t.strip()]))
            elif ln.startswith("ERR "):
                err = ln[4:]
        out.append({"in": ins, "out": outs, "err": err})
    return out
