#!/usr/bin/env python3
"""writes MANIFEST.json from harness/registry.py and manifest_texts.json"""
import json, sys
sys.path.insert(0, "/verif")
from harness.registry import PROPS
texts = json.load(open("/verif/manifest_texts.json"))
props = [json.loads(l) for l in open("/verif/properties.jsonl")]
checks, na = [], []
for p in props:
    pid = p["id"]
    if pid in PROPS and pid in texts:
        t = texts[pid]
        checks.append({
            "property_id": pid,
            "quick_cmd": f"/venv/bin/python /verif/check.py {pid} quick",
            "thorough_cmd": f"/venv/bin/python /verif/check.py {pid} thorough",
            "evidence_file": f"/verif/evidence/{pid}.json",
            "replay_cmd_template": "/venv/bin/python /verif/check.py --replay {path}",
            "engine": "coq-proof+correspondence",
            "level_claimed": {"category": "proof", "text": t["level"], "design_ref": t.get("ref", "DESIGN.md §3")},
            "level_note": t["note"],
            "technique": t["technique"],
        })
    else:
        na.append({"property_id": pid, "reason": texts.get("_na", {}).get(pid, "not claimed in this revision: its Coq theorem and correspondence slice are not built yet (see DESIGN.md §10 status)")})
m = {
    "version": 1,
    "setup_cmd": "/venv/bin/python /verif/check.py --setup",
    "hooks": {"guard": "SYM_METANET_VERIF", "enable": "no hooks are needed: checks import /repo/src directly (PYTHONPATH forced) and use subclasses living in /verif",
              "baseline_off_cmd": "cd /repo && /venv/bin/python -m pytest -ra -q -p no:cacheprovider --timeout=900 --continue-on-collection-errors",
              "source_commits": [], "add_only": True},
    "engines": [{"name": "coq-proof+correspondence", "path": "/verif/check.py",
                 "serves_properties": [c["property_id"] for c in checks],
                 "kind_free_text": "Coq 8.16 theorems over a model regenerated (engine primitives, tables) or hand-written (element layer, state machines) and tied to /repo by a differential correspondence check; direct oracles search for replays"}],
    "checks": checks,
    "not_applicable": na,
    "notes": "Repairs of genuine defects are 'fix:' commits in /repo listed in /verif/known_findings.json (status fixed).",
}
json.dump(m, open("/verif/MANIFEST.json", "w"), indent=1)
print(len(checks), "checks;", len(na), "not claimed")
