#!/bin/bash
# tools_mut.sh <patch> <Cxx> [tier]: apply a seeded change to /repo, run a check, undo the change
set -u
patch=$1; pid=$2; tier=${3:-quick}
git -C /repo apply "$patch" || exit 2
( cd /verif && /venv/bin/python check.py $pid $tier ); rc=$?
git -C /repo checkout -- . ; git -C /repo clean -fdq src
echo "rc=$rc"
