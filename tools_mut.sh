#!/bin/bash
# tools_mut.sh <patch> <Cxx> [tier]: run a check against a seeded change WITHOUT touching /repo: the patch is applied to a
# scratch worktree of /repo's HEAD and the check is pointed at it with VERIF_REPO.  The evidence file written by that run is
# discarded and the generated model is put back to the unchanged tree afterwards.
set -u
patch=$1; pid=$2; tier=${3:-quick}
wt=$(mktemp -d /tmp/toolsmut_XXXXXX); rmdir $wt
git -C /repo worktree add --detach $wt HEAD >/dev/null 2>&1 || exit 2
cp /verif/evidence/$pid.json /tmp/evidence_$pid.bak 2>/dev/null
git -C $wt apply "$patch" || { git -C /repo worktree remove --force $wt; exit 2; }
( cd /verif && VERIF_REPO=$wt /venv/bin/python check.py $pid $tier ); rc=$?
git -C /repo worktree remove --force $wt; git -C /repo worktree prune
cp /tmp/evidence_$pid.bak /verif/evidence/$pid.json 2>/dev/null
( cd /verif && /venv/bin/python check.py --setup >/dev/null 2>&1 )   # generated model back to the unchanged tree
echo "rc=$rc"
