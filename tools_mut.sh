#!/bin/bash
# tools_mut.sh <patch> <Cxx> [tier]: apply a seeded change to /repo, run a check, undo the change.
# The evidence file and replays written by the run against the changed tree are discarded.
set -u
patch=$1; pid=$2; tier=${3:-quick}
cp /verif/evidence/$pid.json /tmp/evidence_$pid.bak 2>/dev/null
git -C /repo apply "$patch" || exit 2
( cd /verif && /venv/bin/python check.py $pid $tier ); rc=$?
git -C /repo checkout -- . ; git -C /repo clean -fdq src
cp /tmp/evidence_$pid.bak /verif/evidence/$pid.json 2>/dev/null
( cd /verif && /venv/bin/python check.py --setup >/dev/null 2>&1 )   # generated model back to the unchanged tree
echo "rc=$rc"
