(* Expr.v — the symbolic instance: expression trees over the scalars a network's
   dynamics can read.  Computable (vm_compute), printable (show), and the model of
   what the CasADi engine builds. *)
From Coq Require Import QArith List String Ascii DecimalString.
From SM Require Import Num.
Import ListNotations.
Local Open Scope string_scope.

Inductive lpar := PL | Prhomax | Prhocrit | Pvfree | Pa | Pturn | Palpha.
Inductive gpar := GT | Gtau | Geta | Gkappa | Gdelta | Gphi.

Inductive ident :=
| Rho (l i : nat)        (* density of segment i of link l *)
| Vel (l i : nat)        (* speed of segment i of link l *)
| Que (o : nat)          (* queue of origin o *)
| ActO (o : nat)         (* control of origin o: v_ctrl | r | q *)
| DistO (o : nat)        (* demand of origin o *)
| ActL (l k : nat)       (* k-th speed limit of VSL link l *)
| DistD (d : nat)        (* density scenario of congested destination d *)
| LPar (l : nat) (p : lpar)
| OCap (o : nat)
| Glob (g : gpar).

Inductive expr :=
| Var (x : ident) | Cst (q : Q)
| Add (a b : expr) | Sub (a b : expr) | Mul (a b : expr) | Div (a b : expr)
| Neg (a : expr) | Sq (a : expr) | Exp (a : expr) | Log (a : expr) | Pow (a b : expr)
| Min (a b : expr) | Max (a b : expr) | IfLt (a b t e : expr).

#[global] Instance NumExpr : Num expr := {|
  ofQ := Cst; add := Add; sub := Sub; mul := Mul; div := Div; neg := Neg; sq := Sq;
  nexp := Exp; nlog := Log; npow := Pow; nmin := Min; nmax := Max; iflt := IfLt |}.

(* ---- printing: space-separated prefix tokens, built with an accumulator ---- *)
Definition snat (n : nat) : string := NilEmpty.string_of_uint (Nat.to_uint n).
Definition sZ (z : Z) : string := NilZero.string_of_int (Z.to_int z).

Definition show_lpar (p : lpar) : string :=
  match p with PL => "L" | Prhomax => "rho_max" | Prhocrit => "rho_crit" | Pvfree => "v_free"
             | Pa => "a" | Pturn => "turnrate" | Palpha => "alpha" end.
Definition show_gpar (g : gpar) : string :=
  match g with GT => "T" | Gtau => "tau" | Geta => "eta" | Gkappa => "kappa"
             | Gdelta => "delta" | Gphi => "phi" end.

Definition show_ident (x : ident) : string :=
  match x with
  | Rho l i => "rho." ++ snat l ++ "." ++ snat i
  | Vel l i => "v." ++ snat l ++ "." ++ snat i
  | Que o => "w." ++ snat o
  | ActO o => "u." ++ snat o
  | DistO o => "d." ++ snat o
  | ActL l k => "vc." ++ snat l ++ "." ++ snat k
  | DistD d => "dd." ++ snat d
  | LPar l p => "lp." ++ snat l ++ "." ++ show_lpar p
  | OCap o => "C." ++ snat o
  | Glob g => "g." ++ show_gpar g
  end.

Fixpoint show_acc (e : expr) (acc : string) : string :=
  match e with
  | Var x => "$" ++ show_ident x ++ " " ++ acc
  | Cst q => "#" ++ sZ (Qnum q) ++ "/" ++ sZ (Zpos (Qden q)) ++ " " ++ acc
  | Add a b => "+ " ++ show_acc a (show_acc b acc)
  | Sub a b => "- " ++ show_acc a (show_acc b acc)
  | Mul a b => "* " ++ show_acc a (show_acc b acc)
  | Div a b => "/ " ++ show_acc a (show_acc b acc)
  | Neg a => "~ " ++ show_acc a acc
  | Sq a => "sq " ++ show_acc a acc
  | Exp a => "exp " ++ show_acc a acc
  | Log a => "log " ++ show_acc a acc
  | Pow a b => "pow " ++ show_acc a (show_acc b acc)
  | Min a b => "min " ++ show_acc a (show_acc b acc)
  | Max a b => "max " ++ show_acc a (show_acc b acc)
  | IfLt a b t e => "iflt " ++ show_acc a (show_acc b (show_acc t (show_acc e acc)))
  end.
Definition show (e : expr) : string := show_acc e "".

(* ---- symbols of a tree ---- *)
Fixpoint vars (e : expr) : list ident :=
  match e with
  | Var x => [x] | Cst _ => []
  | Add a b | Sub a b | Mul a b | Div a b | Pow a b | Min a b | Max a b => vars a ++ vars b
  | Neg a | Sq a | Exp a | Log a => vars a
  | IfLt a b t e => vars a ++ vars b ++ vars t ++ vars e
  end.

Definition lpar_eqb (p q : lpar) : bool :=
  match p, q with PL, PL | Prhomax, Prhomax | Prhocrit, Prhocrit | Pvfree, Pvfree
                | Pa, Pa | Pturn, Pturn | Palpha, Palpha => true | _, _ => false end.
Definition gpar_eqb (p q : gpar) : bool :=
  match p, q with GT, GT | Gtau, Gtau | Geta, Geta | Gkappa, Gkappa | Gdelta, Gdelta
                | Gphi, Gphi => true | _, _ => false end.
Definition ident_eqb (x y : ident) : bool :=
  match x, y with
  | Rho l i, Rho l' i' | Vel l i, Vel l' i' | ActL l i, ActL l' i' => Nat.eqb l l' && Nat.eqb i i'
  | Que o, Que o' | ActO o, ActO o' | DistO o, DistO o' | DistD o, DistD o' | OCap o, OCap o' => Nat.eqb o o'
  | LPar l p, LPar l' p' => Nat.eqb l l' && lpar_eqb p p'
  | Glob g, Glob g' => gpar_eqb g g'
  | _, _ => false
  end.
