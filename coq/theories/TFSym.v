(* TFSym.v — prints the ToFunction model of a network: argument names + symbols, result names
   + expression trees. *)
From Coq Require Import QArith List String Arith Bool.
From SM Require Import Num Graph Engine Expr Types Blocks Sym ToFunction.
Import ListNotations.
Local Open Scope string_scope.

Fixpoint join (sep : string) (l : list string) : string :=
  match l with
  | [] => ""
  | [x] => x
  | x :: l' => x ++ sep ++ join sep l'
  end.

Definition run_tf (E : engine expr) (nm : names) (U : universe) (g : graph) (opts : options)
           (has_delta has_phi : bool) (compact : nat) (more_out : bool)
           (ps : list (string * ident)) : list string :=
  let P := sym_params has_delta has_phi in
  let ins := map (fun x => "IN " ++ fst x ++ " | " ++ join " " (map show_ident (snd x)))
                 (tf_inputs nm U g compact ps) in
  let outs := match tf_outputs E nm U P g opts compact more_out with
              | Ok outs => map (fun x => "OUT " ++ fst x ++ " | " ++ join " ; " (map show (snd x))) outs
              | Err e => ["ERR " ++ show_err e]
              end in
  List.app ins outs.
