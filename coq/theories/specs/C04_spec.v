(* C04_spec.v — arguments and results of the compiled function. *)
From Coq Require Import Reals List String.
From SM Require Import Num NumR Graph Engine Expr ExprEval Types Blocks Validity ToFunction.
From SM.specs Require Import C03_spec.
From SM.proofs Require Import Closed.
Import ListNotations.

(* all symbols of a list of named vectors *)
Definition symbols (l : list (string * list ident)) : list ident := List.concat (map snd l).

(* (a) no symbol is left free: every symbol occurring in any result (next states and, if
   requested, flows) is one of the arguments, provided every symbol used in a parameter is
   declared *)
Definition results_closed : Prop :=
  forall nm U (P : params expr) g opts compact more_out ps outs,
    params_closed (symbols (tf_inputs nm U g compact ps)) P ->
    tf_outputs cs_engine nm U P g opts compact more_out = Ok outs ->
    forall n v e, In (n, v) outs -> In e v -> incl (vars e) (symbols (tf_inputs nm U g compact ps)).

(* (b) none missing, nothing else: at every level the arguments are exactly the declared state,
   action and disturbance symbols of the network's elements plus the declared parameters *)
Definition arguments_exact : Prop :=
  forall nm U g compact ps x,
    In x (symbols (tf_inputs nm U g compact ps)) <->
    (exists el ve, In el (elements g) /\ In ve (elem_vars U el) /\ In x (snd ve)) \/ In x (map snd ps).

(* (d) the three levels are one function: the results at level c are the level-c regrouping
   (per element; per variable name; one vector) of the SAME step result *)
Definition levels_are_regroupings : Prop :=
  forall (env : ident -> R) nm U (P : params expr) g opts,
    exists r, forall compact,
      map_res (eval_named env) (tf_outputs cs_engine nm U P g opts compact false) =
      map_res (state_outputs nm compact) r.

(* (c) positional successor: the state arguments and the results carry the same (element, variable)
   labels with the same sizes in the same order - per element and per segment in the network's own
   enumeration (links in Network.links order with rho then v, then queued origins with w) - so result
   k is the next value of state argument k and can be fed back.  Level 0 is stated on the labelled
   entries; levels 1 and 2 are the same stable regrouping (by variable name, then concatenated) of
   those entries on both sides. *)
Definition label_shape {T} (l : list (elem * string * list T)) : list (elem * string * nat) :=
  map (fun x => (fst (fst x), snd (fst x), List.length (snd x))) l.
Definition name_shape {T} (l : list (string * list T)) : list (string * nat) :=
  map (fun x => (fst x, List.length (snd x))) l.

Definition positional_successor : Prop :=
  forall U (P : params expr) g opts out,
    network_step cs_engine U P g opts (net_state U g) = Ok out ->
    (* level 0: same labels, same sizes, same order *)
    label_shape (group_entries U g GX) = label_shape (next_entries out) /\
    (* level 1: per variable name; result names carry a trailing "+" *)
    map (fun x => ((fst x ++ "+")%string, snd x))
        (name_shape (regroup (map (fun x => (snd (fst x), snd x)) (group_entries U g GX)))) =
    name_shape (outputs_level1 out) /\
    (* level 2: one vector of the same total size *)
    List.length (List.concat (map snd (regroup (map (fun x => (snd (fst x), snd x)) (group_entries U g GX))))) =
    List.length (List.concat (map snd (outputs_level1 out))).
