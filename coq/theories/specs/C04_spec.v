(* C04_spec.v — arguments and results of the compiled function. *)
From Coq Require Import Reals List String.
From SM Require Import Num NumR Graph Engine Expr ExprEval Types Blocks Validity ToFunction.
From SM.specs Require Import C03_spec.
From SM.proofs Require Import Closed.
Import ListNotations.

(* all symbols of a list of named vectors *)
Definition symbols (l : list (string * list ident)) : list ident := List.concat (map snd l).

(* (a) no symbol is left free: every symbol occurring in any result (next states and, if
   requested, flows) is one of the arguments, provided every symbol used in a parameter is
   declared *)
Definition results_closed : Prop :=
  forall nm U (P : params expr) g opts compact more_out ps outs,
    params_closed (symbols (tf_inputs nm U g compact ps)) P ->
    tf_outputs cs_engine nm U P g opts compact more_out = Ok outs ->
    forall n v e, In (n, v) outs -> In e v -> incl (vars e) (symbols (tf_inputs nm U g compact ps)).

(* (b) none missing, nothing else: at every level the arguments are exactly the declared state,
   action and disturbance symbols of the network's elements plus the declared parameters *)
Definition arguments_exact : Prop :=
  forall nm U g compact ps x,
    In x (symbols (tf_inputs nm U g compact ps)) <->
    (exists el ve, In el (elements g) /\ In ve (elem_vars U el) /\ In x (snd ve)) \/ In x (map snd ps).

(* (d) the three levels are one function: the results at level c are the level-c regrouping
   (per element; per variable name; one vector) of the SAME step result *)
Definition levels_are_regroupings : Prop :=
  forall (env : ident -> R) nm U (P : params expr) g opts,
    exists r, forall compact,
      map_res (eval_named env) (tf_outputs cs_engine nm U P g opts compact false) =
      map_res (state_outputs nm compact) r.
