(* C09_spec.v — what the construction calls build.  The abstract view of the graph (AbsGraph):
   the set of node objects, and three partial maps (edge -> link, node -> origin,
   node -> destination), with later writers winning. *)
From Coq Require Import List Arith Bool.
From SM Require Import Graph Construct.
Import ListNotations.

Definition a_node (g : cgraph) (x : obj) : Prop := In x (map c_obj (c_nodes g)).
Definition a_orig (g : cgraph) (x : obj) : option nat :=
  match find (fun c => obj_eqb (c_obj c) x) (c_nodes g) with Some c => c_orig c | None => None end.
Definition a_dest (g : cgraph) (x : obj) : option nat :=
  match find (fun c => obj_eqb (c_obj c) x) (c_nodes g) with Some c => c_dest c | None => None end.
Definition a_edge (g : cgraph) (u d : obj) : option obj :=
  match find (fun e => obj_eqb (c_up e) u && obj_eqb (c_down e) d) (c_edges g) with
  | Some e => Some (c_link e) | None => None end.

(* the effect of each decorated call on the abstract view *)
Definition prim_spec : Prop :=
  forall g,
    (* add_node x: x becomes a node, nothing else changes *)
    (forall x, (forall y, a_node (add_node g x) y <-> y = x \/ a_node g y) /\
               (forall y, a_orig (add_node g x) y = a_orig g y) /\
               (forall y, a_dest (add_node g x) y = a_dest g y) /\
               (forall u d, a_edge (add_node g x) u d = a_edge g u d)) /\
    (* add_origin o x: x is a node carrying o (replacing an earlier origin), nothing else changes *)
    (forall o x, (forall y, a_node (add_origin g o x) y <-> y = x \/ a_node g y) /\
                 (forall y, a_orig (add_origin g o x) y = if obj_eqb y x then Some o else a_orig g y) /\
                 (forall y, a_dest (add_origin g o x) y = a_dest g y) /\
                 (forall u d, a_edge (add_origin g o x) u d = a_edge g u d)) /\
    (forall o x, (forall y, a_node (add_destination g o x) y <-> y = x \/ a_node g y) /\
                 (forall y, a_dest (add_destination g o x) y = if obj_eqb y x then Some o else a_dest g y) /\
                 (forall y, a_orig (add_destination g o x) y = a_orig g y) /\
                 (forall u d, a_edge (add_destination g o x) u d = a_edge g u d)) /\
    (* add_link u l d: both ends are nodes, the edge u->d carries l (replacing an earlier link) *)
    (forall u l d, (forall y, a_node (add_link g u l d) y <-> y = u \/ y = d \/ a_node g y) /\
                   (forall u' d', a_edge (add_link g u l d) u' d' =
                                  if obj_eqb u' u && obj_eqb d' d then Some l else a_edge g u' d') /\
                   (forall y, a_orig (add_link g u l d) y = a_orig g y) /\
                   (forall y, a_dest (add_link g u l d) y = a_dest g y)).

(* the path grammar: node (link node)+ *)
Fixpoint alternates (expect_node : bool) (p : list obj) : bool :=
  match p with
  | [] => negb expect_node              (* must end right after a node *)
  | x :: p' => if expect_node then is_node x && alternates false p'
               else is_link x && alternates true p'
  end.
Definition well_formed_path (p : list obj) : bool :=
  match p with
  | first :: (_ :: _) as rest => is_node first && alternates false rest
  | _ => false
  end.

(* a path is accepted iff it is well formed; when accepted it is the documented sequence of calls *)
Definition path_spec : Prop :=
  forall p o d, (snd (expand_path p o d) = None <-> well_formed_path p = true).

(* typed use of the API: node positions receive Node objects, link positions Link objects; path
   items are arbitrary *)
Definition typed_op (op : cop) : Prop :=
  match op with
  | CAddNode x => is_node x = true
  | CAddNodes xs => Forall (fun x => is_node x = true) xs
  | CAddLink u l d => is_node u = true /\ is_link l = true /\ is_node d = true
  | CAddLinks ls => Forall (fun t => is_node (fst (fst t)) = true /\ is_link (snd (fst t)) = true /\
                                     is_node (snd t) = true) ls
  | CAddOrigin _ x | CAddDestination _ x => is_node x = true
  | CAddPath _ _ _ => True
  end.

(* no object that is not a node ever becomes a node; edges carry links; the graph stays well
   formed (unique node objects, unique edges, edge ends are nodes) *)
Definition cwf (g : cgraph) : Prop :=
  NoDup (map c_obj (c_nodes g)) /\
  NoDup (map (fun e => (c_up e, c_down e)) (c_edges g)) /\
  (forall e, In e (c_edges g) -> a_node g (c_up e) /\ a_node g (c_down e)).
Definition only_nodes_and_links (g : cgraph) : Prop :=
  (forall c, In c (c_nodes g) -> is_node (c_obj c) = true) /\
  (forall e, In e (c_edges g) -> is_link (c_link e) = true).
Definition construction_invariant : Prop :=
  forall ops, Forall typed_op ops -> cwf (run_ops ops) /\ only_nodes_and_links (run_ops ops).
