(* C01_spec.v — statement: one step of the element-layer model equals the METANET
   specification on every valid network, for every engine of the pair. *)
From Coq Require Import Reals List Arith.
From SM Require Import Num NumR Graph Engine Expr Types Blocks Spec Validity.
From SM.specs Require Import GraphWF.
From Coq Require Import List.
Import ListNotations.
Local Open Scope R_scope.

(* shape discipline of a state: what init_vars creates / what the caller must supply *)
Definition wf_link (U : universe) (st : state R) (m : nat) : Prop :=
  (1 <= lN (linkd U m))%nat /\
  length (s_rho st m) = lN (linkd U m) /\ length (s_v st m) = lN (linkd U m) /\
  match lvsl (linkd U m) with
  | Some vsl => NoDup vsl /\ Forall (fun j => (j < lN (linkd U m))%nat) vsl /\
                length (s_vc st m) = length vsl
  | None => True
  end.

(* what a link's result must be *)
Definition link_result_ok (U : universe) (P : params R) (g : graph) (st : state R)
           (e : edge) (r : nat * (list R * list R)) : Prop :=
  fst r = e_link e /\
  length (fst (snd r)) = lN (linkd U (e_link e)) /\
  length (snd (snd r)) = lN (linkd U (e_link e)) /\
  forall i, (i < lN (linkd U (e_link e)))%nat ->
    nth i (fst (snd r)) 0 = spec_rho_next U P g st e i /\
    nth i (snd (snd r)) 0 = spec_v_next U P g st e i.

(* what an origin's result must be: queue law with the flow of the origin's own link *)
Definition origin_result_ok (U : universe) (P : params R) (g : graph) (st : state R)
           (o : nat) (r : nat * option R) : Prop :=
  fst r = o /\
  exists n e1, origin_at g n = Some o /\ out_links g n = [e1] /\
    snd r = if is_queued (okind_of U o) then Some (spec_w_next U P st o (e_link e1)) else None.

Definition step_is_METANET (E : engine R) : Prop :=
  forall (U : universe) (P : params R) (g : graph) (st : state R),
    wf_graph g -> validb U g = true ->
    (forall e, In e (g_edges g) -> wf_link U st (e_link e)) ->
    (forall e, In e (g_edges g) -> lp P (e_link e) Pturn <> 0) ->
    (forall e, In e (g_edges g) -> lp P (e_link e) Prhocrit <> 0) ->
    exists out,
      network_step E U P g no_options st = Ok out /\
      Forall2 (link_result_ok U P g st) (links g) (o_links out) /\
      Forall2 (origin_result_ok U P g st) (map fst (origins_dict g)) (o_queues out).
