(* Pin_construct_spec.v - the source text (docstrings, annotations, comments removed; as re-printed by ast.unparse) of
   Network.__init__ and the seven construction calls: what Construct.v models (C09, C08).
   gen/Pin_construct.v is the same table read off /repo on every run.  A PIN of text, not a translation: it proves nothing
   about what the text means (the correspondence does that) - it guarantees that no edit of it goes unnoticed. *)
From Coq Require Import List String.
Import ListNotations.
Open Scope string_scope.

Definition expected_pin_construct : list (string * string) :=
  [("network.py:Network.<bases>", "ElementBase");
   ("network.py:Network.__init__", "@ (self, name=None): super().__init__(name) ; self._graph = nx.DiGraph(name=name)");
   ("network.py:Network.add_node", "@invalidate_cache(nodes_by_name) (self, node): self._graph.add_node(node) ; return self");
   ("network.py:Network.add_nodes", "@invalidate_cache(nodes_by_name) (self, nodes): self._graph.add_nodes_from(nodes) ; return self");
   ("network.py:Network.add_link", "@invalidate_cache(nodes_by_name, links_by_name, nodes_by_link) (self, node_up, link, node_down): self._graph.add_edge(node_up, node_down, **{LINKENTRY: link}) ; return self");
   ("network.py:Network.add_links", "@invalidate_cache(nodes_by_name, links_by_name, nodes_by_link) (self, links): def get_edge(linkdata):     node_up, link, node_down = linkdata     return (node_up, node_down, {LINKENTRY: link}) ; self._graph.add_edges_from((get_edge(link) for link in links)) ; return self");
   ("network.py:Network.add_origin", "@invalidate_cache(nodes_by_name, origins, origins_by_node, origins_by_name) (self, origin, node): if node not in self.nodes:     self._graph.add_node(node, **{ORIGINENTRY: origin}) else:     self.nodes[node][ORIGINENTRY] = origin ; return self");
   ("network.py:Network.add_destination", "@invalidate_cache(nodes_by_name, destinations, destinations_by_node, destinations_by_name) (self, destination, node): if node not in self.nodes:     self._graph.add_node(node, **{DESTINATIONENTRY: destination}) else:     self.nodes[node][DESTINATIONENTRY] = destination ; return self");
   ("network.py:Network.add_path", "@ (self, path, origin=None, destination=None): path = iter(path) ; first_node = next(path) ; if not isinstance(first_node, Node):     raise TypeError(f'First element of the path must be a `{Node.__name__}`; got {type(first_node)} instead.') ; self.add_node(first_node) ; if origin is not None:     self.add_origin(origin, first_node) ; current_link: _ = [first_node] ; longer_than_one = False ; for i, point in enumerate(path):     longer_than_one = True     current_link.append(point)     L = len(current_link)     if L == 2:         if not isinstance(point, Link):             raise TypeError(f'Expected a `{Link.__name__}` at index {i} of the path; got {type(point)} instead.')     else:         if not isinstance(point, Node):             raise TypeError(f'Expected a `{Node.__name__}` at index {i} of the path; got {type(point)} instead.')         self.add_node(point)         self.add_link(*current_link)         current_link = current_link[-1:] ; if not longer_than_one:     raise ValueError('Path must be longer than a single node.') ; last_node = point ; if not isinstance(last_node, Node):     raise TypeError(f'Last element of the path must be a `{Node.__name__}`; got {type(last_node)} instead.') ; if destination is not None:     self.add_destination(destination, last_node) ; return self")].

Definition construct_source_as_modelled (t : list (string * string)) : Prop := t = expected_pin_construct.
