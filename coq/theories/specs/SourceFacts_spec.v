(* SourceFacts_spec.v — facts of the source that the hand-written life-cycle model (Lifecycle.v) and the
   compilation model (ToFunction.v) take for granted, stated on the tables translator/facts.py reads off
   the code on every run (gen/Tables.v). *)
From Coq Require Import List ZArith Bool String.
From SM.gen Require Import Tables.
Import ListNotations.

(* Lifecycle.v, init_one: (re-)initialising an element with states drops its next states.  In the source:
   init_vars of every element class that declares states - its own, or the one it delegates to by an
   unconditional super().init_vars(...) - assigns next_states = None unconditionally *)
Definition init_resets_in_source : Prop :=
  forallb (fun x => implb (fst (snd x)) (snd (snd x))) gen_init_resets = true.
(* Lifecycle.v, step_one: a step overwrites the next states.  In the source: ElementWithVars.step stores the
   new value under every state name, unconditionally (not only when there is none yet) *)
Definition step_overwrites_in_source : Prop := gen_step_overwrites = true.

(* ToFunction.v: compactness 0 | 1 | _.  The documented classes of the integer argument *)
Definition doc_level (c : Z) : nat := if (c <=? 0)%Z then 0 else if (c =? 1)%Z then 1 else 2.
(* every compile helper of engines/casadi.py classifies EVERY integer the documented way (declared
   parameters: separate at level 0, one stacked vector otherwise) *)
Definition helpers_use_documented_levels : Prop :=
  forall c : Z,
    gen_level_inputs c = doc_level c /\ gen_level_outputs c = doc_level c /\
    gen_level_flows c = doc_level c /\ gen_level_parameters c = Nat.min (doc_level c) 1.
(* and the model's natural-number level is that class *)
Definition model_level_is_documented : Prop :=
  forall n : nat, doc_level (Z.of_nat n) = Nat.min n 2.

(* C16: the declared parameters trail as separate arguments exactly at the levels <= 0 and as one stacked vector at
   every other level - for EVERY integer level *)
Definition parameters_separate_iff_level_le_0 : Prop :=
  forall c : Z, gen_level_parameters c = if (c <=? 0)%Z then 0 else 1.

(* ---- Network.step as Blocks.network_step models it (C11, C01): every positivity option is off unless asked
   for, and the step is: init_vars of every element (handed the three positive_init_* options, the engine, and the
   initial conditions looked up BY THE ELEMENT OBJECT), then step of every origin (positive_next_queue), then step
   of every link (positive_next_speed, positive_next_density) - each handed the engine and the extra parameters *)
Local Open Scope string_scope.
Definition options_default_off : Prop :=
  List.length gen_option_defaults = 6 /\ forallb (fun x => negb (snd x)) gen_option_defaults = true.
Definition step_phases_as_modelled : Prop :=
  gen_step_phases =
  [ ("elements", "init_vars", ["positive_init_density"; "positive_init_queue"; "positive_init_speed"], true, false, Some true);
    ("origins", "step", ["positive_next_queue"], true, true, None);
    ("links", "step", ["positive_next_density"; "positive_next_speed"], true, true, None) ].

(* ---- Network.is_valid (C06): nine reporting sites, each immediately followed by the raise under `raises`,
   no other raise, and the verdict is `not msgs` - so raising, an invalid verdict and a non-empty message list
   coincide by construction *)
Definition validation_reports_and_raises_together : Prop :=
  List.length gen_valid_sites = 9 /\ forallb snd gen_valid_sites = true /\
  gen_valid_verdict_is_not_msgs = true /\ gen_valid_raises_only_there = true.

(* ---- Engine.to_function's readiness scan as Lifecycle.v's `ready` has it (C19): before anything else, for every
   element of the network and each of the three groups, a declared but uninitialised group raises RuntimeError, and so
   do declared states without next states; has_states / has_next_states / ... are `slot is not None` *)
Definition readiness_scan_as_modelled : Prop := gen_ready_scan = (true, true, true, true).
