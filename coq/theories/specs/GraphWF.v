(* GraphWF.v — well-formedness of the graph model (an invariant of the construction API,
   proved in proofs/Construction.v) and the structural facts a valid network provides. *)
From Coq Require Import List Arith Bool.
From SM Require Import Graph Types.
Import ListNotations.

Definition wf_graph (g : graph) : Prop :=
  NoDup (map nid (g_nodes g)) /\
  (forall e, In e (g_edges g) ->
     In (e_up e) (map nid (g_nodes g)) /\ In (e_down e) (map nid (g_nodes g))).

Record vfacts (U : universe) (g : graph) : Prop := {
  vf_link : forall e, In e (g_edges g) -> nodes_of_link g (e_link e) = Some (e_up e, e_down e);
  vf_links_edges : forall e, In e (links g) -> In e (g_edges g);
  vf_orig_dict : forall n o, origin_at g n = Some o -> dict_get o (origins_dict g) = Some n;
  vf_orig_dict_inv : forall o, In o (map fst (origins_dict g)) -> exists n, origin_at g n = Some o;
  vf_dest_dict : forall n d, dest_at g n = Some d -> dict_get d (dests_dict g) = Some n;
  vf_orig_out : forall n o, origin_at g n = Some o -> exists e1, out_links g n = [e1];
  vf_dest_in : forall n d, dest_at g n = Some d -> exists e1, in_links g n = [e1];
  vf_dest_out : forall n d, dest_at g n = Some d -> out_links g n = [];
  vf_src : forall e, In e (g_edges g) -> origin_at g (e_up e) = None -> in_links g (e_up e) <> [];
  vf_sink : forall e, In e (g_edges g) -> dest_at g (e_down e) = None -> out_links g (e_down e) <> [] }.
