(* C14_spec.v — invariance of the per-element next states to construction order and to a
   common non-zero scaling of the turn rates of the links leaving a node.  Names do not occur
   in the element-layer model at all (they only enter ToFunction's naming functions). *)
From Coq Require Import Reals List Permutation.
From SM Require Import Num NumR Graph Engine Expr Types Blocks Spec Validity.
From SM.specs Require Import GraphWF C01_spec.
From SM.proofs Require Import SpecPerm.
From Coq Require Import List.
Import ListNotations.
Local Open Scope R_scope.

(* same elements, same connections, any insertion order of nodes and edges *)
Definition same_network (g g' : graph) : Prop :=
  Permutation (g_nodes g) (g_nodes g') /\ Permutation (g_edges g) (g_edges g').

Definition order_invariant : Prop :=
  forall U (P : params R) g g' (st : state R), wf_graph g -> validb U g = true -> same_network g g' ->
    forall e i, spec_rho_next U P g st e i = spec_rho_next U P g' st e i /\
                spec_v_next U P g st e i = spec_v_next U P g' st e i.

(* ... hence the model's results for the two networks agree element by element *)
Definition model_order_invariant (E : engine R) : Prop :=
  forall U (P : params R) g g' (st : state R) out out',
    wf_graph g -> validb U g = true -> same_network g g' ->
    network_step E U P g no_options st = Ok out ->
    network_step E U P g' no_options st = Ok out' ->
    Forall2 (link_result_ok U P g st) (links g) (o_links out) ->
    Forall2 (link_result_ok U P g' st) (links g') (o_links out') ->
    forall e r r', In (e, r) (combine (links g) (o_links out)) ->
                   In (e, r') (combine (links g') (o_links out')) ->
      forall i, (i < lN (linkd U (e_link e)))%nat ->
        nth i (fst (snd r)) 0 = nth i (fst (snd r')) 0 /\
        nth i (snd (snd r)) 0 = nth i (snd (snd r')) 0.

Definition scaling_invariant : Prop :=
  forall U (P : params R) g (st : state R) (c : nat -> R), wf_graph g -> validb U g = true ->
    (forall n, c n <> 0) ->
    (forall e, In e (g_edges g) -> ssum (sturn P) (out_links g (e_up e)) <> 0) ->
    forall e i, In e (g_edges g) ->
      spec_rho_next U (scale_turn P c g) g st e i = spec_rho_next U P g st e i /\
      spec_v_next U (scale_turn P c g) g st e i = spec_v_next U P g st e i.

(* the flow entering the first segment of a leaving link is its turn-rate share of the node's
   total inflow (and by C01 this is the value the density update of the model uses) *)
Definition share_is_turnrate : Prop :=
  forall U (P : params R) g (st : state R) e,
    sinflow U P g st e =
    sturn P e / ssum (sturn P) (out_links g (e_up e)) * snode_Q U P g st (e_up e) /\
    forall i, spec_rho_next U P g st e i =
      srho st (e_link e) i +
      gT P / (lp P (e_link e) PL * slam U (e_link e)) *
      ((if Nat.eqb i 0 then sinflow U P g st e else sflow U st (e_link e) (i - 1))
       - sflow U st (e_link e) i).

(* ---- the same two clauses on the element-layer MODEL (the regenerated engines), with the results of
   the two steps produced, not assumed: valid network, state of the right shapes ---- *)
Definition same_results (U : universe) (r r' : nat * (list R * list R)) : Prop :=
  fst r = fst r' /\
  forall i, (i < lN (linkd U (fst r)))%nat ->
    nth i (fst (snd r)) 0 = nth i (fst (snd r')) 0 /\ nth i (snd (snd r)) 0 = nth i (snd (snd r')) 0.

Definition model_scaling_invariant (E : engine R) : Prop :=
  forall U (P : params R) g (st : state R) (c : nat -> R),
    wf_graph g -> validb U g = true ->
    (forall e, In e (g_edges g) -> wf_link U st (e_link e)) ->
    (forall e, In e (g_edges g) -> lp P (e_link e) Pturn <> 0) ->
    (forall e, In e (g_edges g) -> lp P (e_link e) Prhocrit <> 0) ->
    (forall n, c n <> 0) ->
    (forall e, In e (g_edges g) -> ssum (sturn P) (out_links g (e_up e)) <> 0) ->
    exists out out',
      network_step E U P g no_options st = Ok out /\
      network_step E U (scale_turn P c g) g no_options st = Ok out' /\
      Forall2 (same_results U) (o_links out) (o_links out').

Definition model_order_invariant_valid (E : engine R) : Prop :=
  forall U (P : params R) g g' (st : state R),
    wf_graph g -> wf_graph g' -> validb U g = true -> validb U g' = true -> same_network g g' ->
    (forall e, In e (g_edges g) -> wf_link U st (e_link e)) ->
    (forall e, In e (g_edges g) -> lp P (e_link e) Pturn <> 0) ->
    (forall e, In e (g_edges g) -> lp P (e_link e) Prhocrit <> 0) ->
    exists out out',
      network_step E U P g no_options st = Ok out /\
      network_step E U P g' no_options st = Ok out' /\
      forall e r r', In (e, r) (combine (links g) (o_links out)) ->
                     In (e, r') (combine (links g') (o_links out')) ->
        forall i, (i < lN (linkd U (e_link e)))%nat ->
          nth i (fst (snd r)) 0 = nth i (fst (snd r')) 0 /\
          nth i (snd (snd r)) 0 = nth i (snd (snd r')) 0.
