(* C11_spec.v — positivity options are exactly clamps at zero (any numeric structure). *)
From Coq Require Import List.
From SM Require Import Num Graph Engine Expr Types Blocks.
Import ListNotations.

Section C11.
Context {A : Type} {NA : Num A}.

Definition clamp0 (y : A) : A := nmax zero y.
Definition clamp (x : list A) : list A := map clamp0 x.

(* element-wise maximum of zero and the given values, on exactly the quantities named *)
Definition clamp_state (o : options) (st : state A) : state A :=
  {| s_rho := fun m => if pi_rho o then clamp (s_rho st m) else s_rho st m;
     s_v := fun m => if pi_v o then clamp (s_v st m) else s_v st m;
     s_w := fun k => if pi_w o then clamp0 (s_w st k) else s_w st k;
     s_uo := s_uo st; s_do := s_do st; s_vc := s_vc st; s_dd := s_dd st |}.
Definition no_init (o : options) : options :=
  {| pi_v := false; pi_rho := false; pi_w := false;
     pn_v := pn_v o; pn_rho := pn_rho o; pn_w := pn_w o |}.
Definition no_next (o : options) : options :=
  {| pi_v := pi_v o; pi_rho := pi_rho o; pi_w := pi_w o;
     pn_v := false; pn_rho := false; pn_w := false |}.

Definition clamp_out (o : options) (out : step_out (A:=A)) : step_out (A:=A) :=
  {| o_links := map (fun x => (fst x, (if pn_rho o then clamp (fst (snd x)) else fst (snd x),
                                       if pn_v o then clamp (snd (snd x)) else snd (snd x))))
                    (o_links out);
     o_queues := map (fun x => (fst x, option_map (fun w => if pn_w o then clamp0 w else w) (snd x)))
                     (o_queues out) |}.

(* the engine's max is the numeric structure's max, element-wise *)
Definition max_is_nmax (E : engine A) : Prop :=
  (forall z x, e_max E z x = map (nmax z) x) /\ (forall z y, e_max_s E z y = nmax z y).

Definition init_options_are_clamps (E : engine A) : Prop :=
  forall U P g o st,
    network_step E U P g o st = network_step E U P g (no_init o) (clamp_state o st).

Definition next_options_are_clamps (E : engine A) : Prop :=
  forall U P g o st,
    (* the shape check of base.py compares lengths; clamping keeps them *)
    network_step E U P g o st =
    match network_step E U P g (no_next o) st with
    | Ok out => Ok (clamp_out o out)
    | Err e => Err e
    end.

(* with every option off nothing is clamped: the result is the raw update of every element *)
Definition all_off_is_raw (E : engine A) : Prop :=
  forall U P g st m,
    link_step E U P g st no_options m =
    bind (link_raw E U P g st m)
         (fun rv => if (Nat.eqb (List.length (fst rv)) (List.length (s_rho st m)) &&
                        Nat.eqb (List.length (snd rv)) (List.length (s_v st m)))%bool
                    then Ok rv else Err EShape).
End C11.
