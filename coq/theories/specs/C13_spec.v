(* C13_spec.v — selected engine is the default; an explicit engine is always honoured. *)
From Coq Require Import List String Bool.
From SM Require Import EngineSel.
Import ListNotations.

Section C13.
Variable fw : bool.   (* do all call sites of the element layer forward the engine? *)

(* selecting by name or instance makes it the current engine, returned to callers *)
Definition use_selects : Prop :=
  forall s, (forall n, is_available n = true ->
               exists e, sel_step fw s (UseName n) = ({| current := e; fresh := S (fresh s) |}, REngine e) /\
                         e_class e = n /\ snd (sel_step fw (fst (sel_step fw s (UseName n))) Get) = REngine e) /\
            (forall e, sel_step fw s (UseInstance e) = ({| current := e; fresh := fresh s |}, REngine e) /\
                       snd (sel_step fw (fst (sel_step fw s (UseInstance e))) Get) = REngine e).
(* unknown names are refused and leave the selection unchanged *)
Definition unknown_refused : Prop :=
  forall s, (forall n, is_available n = false -> sel_step fw s (UseName n) = (s, RNotFound)) /\
            sel_step fw s UseOther = (s, RNotFound).
(* a step never touches the selection; without an explicit engine it uses the selected one *)
Definition step_keeps_selection : Prop :=
  forall s ex, fst (sel_step fw s (Step ex)) = s /\
               (ex = None -> snd (sel_step fw s (Step ex)) = RStepped (current s)).
End C13.

(* an explicit engine is honoured by every primitive iff every call site forwards it *)
Definition explicit_engine_honoured : Prop :=
  forall s e, snd (sel_step true s (Step (Some e))) = RStepped e.

(* along any chain of call sites of a call graph in which every site forwards, the callee sees
   the explicit engine *)
Definition forwarding_sound : Prop :=
  forall (calls path : list (string * string * bool)) (E : Type) (e : E),
    all_fwd calls = true -> incl path calls -> along (Some e) path = Some e.
