(* C05_spec.v — the extra flow outputs are the flows the state update used. *)
From Coq Require Import List String Arith.
From SM Require Import Num Graph Engine Expr Types Blocks ToFunction.
Import ListNotations.

Section C05.
Context {A : Type} {NA : Num A}.

(* every reported link flow is density x speed x lanes of the corresponding (init-clamped) input
   segment *)
Definition link_flow_is_rho_v_lanes (E : engine A) : Prop :=
  forall U (st : state A) m i d,
    (i < List.length (s_rho st m))%nat -> (i < List.length (s_v st m))%nat ->
    nth i (link_flow E U st m) d = mul (mul (nth i (s_rho st m) d) (nth i (s_v st m) d)) (lanes U m).

(* the reported origin flow q is the very value the queue update consumes:
   next queue = [max(0,.) if requested] (queue law applied to w, d, q, T) *)
Definition origin_flow_is_used_by_queue (E : engine A) : Prop :=
  forall U P g st opts o q,
    origin_flow E U P g st o = Ok q ->
    origin_step E U P g st opts o =
    Ok (if is_queued (okind_of U o)
        then Some (let w' := e_step_w E (s_w st o) (s_do st o) q (gT P) in
                   if pn_w opts then e_max_s E zero w' else w')
        else None).

(* ... and the value the node hands to the link it feeds: at a node carrying origin o, the flow
   entering the leaving link is built from q = origin_flow o (nodes.py:89-131) *)
Definition origin_flow_is_used_by_node (E : engine A) : Prop :=
  forall U P g st n m o q v_o,
    origin_at g n = Some o -> origin_flow E U P g st o = Ok q -> origin_speed g st o = Ok v_o ->
    node_up_speed_flow E U P g st n m =
    match in_links g n with
    | [] => Ok (v_o, q)
    | [e] =>
        let q1 := add (vlast (link_flow E U st (e_link e))) q in
        let outs := out_links g n in
        Ok (vlast (s_v st (e_link e)),
            if (1 <? List.length outs)%nat
            then e_up_flow E (e_vcat E [[q1]]) (lp P m Pturn)
                   (e_vcat E (map (fun e' => [lp P (e_link e') Pturn]) outs)) None
            else q1)
    | es =>
        let v_last := e_vcat E (map (fun e => [vlast (s_v st (e_link e))]) es) in
        let q_last := e_vcat E (map (fun e => [vlast (link_flow E U st (e_link e))]) es) in
        let betas := e_vcat E (map (fun e' => [lp P (e_link e') Pturn]) (out_links g n)) in
        Ok (e_up_speed E q_last v_last, e_up_flow E q_last (lp P m Pturn) betas (Some q))
    end.
End C05.

(* the flows are recomputed on the same (init-clamped) symbols the step used, in link order
   followed by origin order *)
Definition flows_from_step_state (E : engine expr) : Prop :=
  forall nm U P g opts,
    map fst (link_flow_entries E nm U g opts) = map (fun m => ("q_" ++ lname nm m)%string) (link_ids g) /\
    map snd (link_flow_entries E nm U g opts) =
      map (fun m => link_flow E U (init_state E opts (net_state U g)) m) (link_ids g) /\
    network_step E U P g opts (net_state U g) =
      (let st' := init_state E opts (net_state U g) in
       bind (mapM (fun o => bind (origin_step E U P g st' opts o) (fun r => Ok (o, r))) (origin_ids g))
            (fun ws => bind (mapM (fun e => bind (link_step E U P g st' opts (e_link e))
                                                 (fun r => Ok (e_link e, r))) (links g))
                            (fun ls => Ok {| o_links := ls; o_queues := ws |}))).
