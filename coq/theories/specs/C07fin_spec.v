(* C07fin_spec.v — the finiteness clause of C07 for a whole step.
   The element-layer model is run twice from the same finite inputs: on the reals, and on the partial
   reals (NumPR.v: an operation that would produce nan or inf from finite operands - division by zero,
   log of a non-positive number, 0^0, a negative base - yields None, and None propagates).  The claim:
   on admissible inputs the run on the partial reals produces no None at all - it is, entry by entry, the
   injection of the run on the reals.

   Admissible: non-negative densities (EXACT ZEROS allowed), positive length, lanes, rho_crit, a, tau,
   kappa, T; for a mainstream origin a non-negative speed limit and first-segment speed (zero allowed:
   the log-ratio guard) and positive v_free; rho_crit < rho_max for ramps; and excluding only the model's
   own 0/0 - a merge with zero total last-segment inflow, a bifurcation with zero total first-segment
   density - and turn rates of a node summing to zero.  Speeds and queues may be anything finite. *)
From Coq Require Import Reals Qreals List.
From SM Require Import Num NumR NumPR Graph Engine Expr Types Blocks Validity.
From SM.specs Require Import GraphWF C01_spec C15fin_spec.
From Coq Require Import List.
Import ListNotations.
Local Open Scope R_scope.

(* injection of finite parameters, states and results *)
Definition liftP (P : params R) : params PR :=
  {| lp := fun m p => Some (lp P m p); ocap := fun o => Some (ocap P o);
     gT := Some (gT P); gtau := Some (gtau P); geta := Some (geta P); gkappa := Some (gkappa P);
     gdelta := option_map Some (gdelta P); gphi := option_map Some (gphi P) |}.
Definition liftS (st : state R) : state PR :=
  {| s_rho := fun m => somes (s_rho st m); s_v := fun m => somes (s_v st m);
     s_w := fun o => Some (s_w st o); s_uo := fun o => Some (s_uo st o); s_do := fun o => Some (s_do st o);
     s_vc := fun m => somes (s_vc st m); s_dd := fun d => Some (s_dd st d) |}.
Definition mapres {T V} (f : T -> V) (r : res T) : res V :=
  match r with Ok x => Ok (f x) | Err e => Err e end.
Definition lift_pair (p : list R * list R) : list PR * list PR := (somes (fst p), somes (snd p)).
Definition lift_out (o : step_out (A:=R)) : step_out (A:=PR) :=
  {| o_links := map (fun x => (fst x, lift_pair (snd x))) (o_links o);
     o_queues := map (fun x => (fst x, option_map Some (snd x))) (o_queues o) |}.

Section Admissible.
Variable U : universe.
Variable P : params R.
Variable g : graph.
Variable st : state R.     (* the state the elements are stepped from, i.e. after the positive_init_* clamps *)

Definition link_ok (m : nat) : Prop :=
  Forall (fun x => 0 <= x) (s_rho st m) /\ 0 < lp P m PL /\ 0 < Q2R (llanes (linkd U m)) /\
  0 < lp P m Prhocrit /\ 0 < lp P m Pa /\
  (1 <= List.length (s_v st m))%nat /\ List.length (s_rho st m) = List.length (s_v st m).
(* o: an origin whose (only) leaving link is m *)
Definition origin_ok (o m : nat) : Prop :=
  match okind_of U o with
  | OIdeal => True
  | OMain => 0 <= s_uo st o /\ 0 <= vfirst (s_v st m) /\ 0 < lp P m Pvfree /\
             0 < lp P m Prhocrit /\ 0 < lp P m Pa
  | ORamp _ | OSimp _ => lp P m Prhocrit < lp P m Prhomax
  end.
(* flow of the last segment of link m: rho v lanes *)
Definition last_flow (m : nat) : R :=
  vlast (s_rho st m) * vlast (s_v st m) * Q2R (llanes (linkd U m)).

Record admissible_inputs : Prop := {
  ai_T : 0 < gT P; ai_tau : 0 < gtau P; ai_kappa : 0 < gkappa P;
  ai_link : forall e, In e (g_edges g) -> link_ok (e_link e);
  ai_origin : forall o n e, dict_get o (origins_dict g) = Some n -> out_links g n = [e] -> origin_ok o (e_link e);
  ai_turn : forall n, out_links g n <> [] ->
            vsum (map (fun e => lp P (e_link e) Pturn) (out_links g n)) <> 0;
  (* the model's own 0/0 *)
  ai_merge : forall n, (2 <= List.length (in_links g n))%nat ->
             vsum (map (fun e => last_flow (e_link e)) (in_links g n)) <> 0;
  ai_bifurcation : forall n, dest_at g n = None -> (2 <= List.length (out_links g n))%nat ->
                   vsum (map (fun e => vfirst (s_rho st (e_link e))) (out_links g n)) <> 0 }.
End Admissible.

(* (a) on ANY graph: the run on the partial reals is the injection of the run on the reals (when the
   graph is not valid both report the same Python failure) *)
Definition step_commutes_with_injection (EP : engine PR) (ER : engine R) : Prop :=
  forall U P g opts st,
    admissible_inputs U P g (init_state ER opts st) ->
    network_step EP U (liftP P) g opts (liftS st) = mapres lift_out (network_step ER U P g opts st).

(* (b) hence on a valid network every output of the step is finite *)
Definition every_output_finite (EP : engine PR) (ER : engine R) : Prop :=
  forall U P g opts st,
    wf_graph g -> validb U g = true ->
    (forall e, In e (g_edges g) -> wf_link U st (e_link e)) ->
    (forall e, In e (g_edges g) -> lp P (e_link e) Pturn <> 0) ->
    admissible_inputs U P g (init_state ER opts st) ->
    exists out,
      network_step ER U P g opts st = Ok out /\
      network_step EP U (liftP P) g opts (liftS st) = Ok (lift_out out).

(* (c) the usual reading: a state whose densities, speeds and queues are all non-negative is left as it is by the
   positive_init_* clamps, so admissibility of the given state suffices, for every option set *)
Definition nonnegative_state (st : state R) : Prop :=
  (forall m, Forall (fun x => 0 <= x) (s_rho st m)) /\ (forall m, Forall (fun x => 0 <= x) (s_v st m)) /\
  (forall o, 0 <= s_w st o).
Definition every_output_finite_from_nonnegative (EP : engine PR) (ER : engine R) : Prop :=
  forall U P g opts st,
    wf_graph g -> validb U g = true ->
    (forall e, In e (g_edges g) -> wf_link U st (e_link e)) ->
    (forall e, In e (g_edges g) -> lp P (e_link e) Pturn <> 0) ->
    nonnegative_state st -> admissible_inputs U P g st ->
    exists out,
      network_step ER U P g opts st = Ok out /\
      network_step EP U (liftP P) g opts (liftS st) = Ok (lift_out out).
