(* C06_spec.v — the nine documented structural conditions, stated declaratively on the graph. *)
From Coq Require Import List Arith Bool.
From SM Require Import Graph Types Validity.
From SM.specs Require Import GraphWF.
Import ListNotations.

Section Nine.
Variable U : universe.
Variable g : graph.

(* (1) no link, origin or destination object occurs twice in the network *)
Definition c1 : Prop :=
  NoDup (map e_link (links g)) /\
  NoDup (flat_map (fun ne => opt_list id (n_orig ne)) (g_nodes g)) /\
  NoDup (flat_map (fun ne => opt_list id (n_dest ne)) (g_nodes g)).
Definition per_node (Q : node_entry -> Prop) : Prop := forall ne, In ne (g_nodes g) -> Q ne.
(* (2) no node has both an origin and a destination *)
Definition c2 := per_node (fun ne => ~ (n_orig ne <> None /\ n_dest ne <> None)).
(* (3) no node is connected to no link *)
Definition c3 := per_node (fun ne => ~ (in_links g (nid ne) = [] /\ out_links g (nid ne) = [])).
(* (4) a node without entering links has an origin; (5) a node without exiting links a destination *)
Definition c4 := per_node (fun ne => in_links g (nid ne) = [] -> n_orig ne <> None).
Definition c5 := per_node (fun ne => out_links g (nid ne) = [] -> n_dest ne <> None).
(* (6) only ramps may sit on a node with entering links; (7) an origin node has at most one exiting link *)
Definition c6 := per_node (fun ne => forall o, n_orig ne = Some o -> is_ramp (okind_of U o) = false ->
                                               in_links g (nid ne) = []).
Definition c7 := per_node (fun ne => forall o, n_orig ne = Some o -> length (out_links g (nid ne)) <= 1).
(* (8) a destination node has at most one entering link and (9) no exiting link *)
Definition c8 := per_node (fun ne => forall d, n_dest ne = Some d -> length (in_links g (nid ne)) <= 1).
Definition c9 := per_node (fun ne => forall d, n_dest ne = Some d -> out_links g (nid ne) = []).

Definition nine_conditions : Prop := c1 /\ c2 /\ c3 /\ c4 /\ c5 /\ c6 /\ c7 /\ c8 /\ c9.
End Nine.

(* validation accepts exactly the networks satisfying the nine conditions *)
Definition validation_is_nine_conditions : Prop :=
  forall U g, wf_graph g -> (validb U g = true <-> nine_conditions U g).

(* raising, verdict and messages are consistent *)
Definition verdict_consistent : Prop :=
  forall U g,
    v_ok (is_valid U false g) = validb U g /\
    (v_raised (is_valid U true g) <> None <-> validb U g = false) /\
    (validb U g = false -> v_msgs (is_valid U false g) <> []) /\
    (validb U g = true -> v_msgs (is_valid U false g) = []) /\
    (forall m, v_raised (is_valid U true g) = Some m -> exists ms, v_msgs (is_valid U false g) = m :: ms).
