(* C19_spec.v — a function is only produced for a fully initialised and stepped network. *)
From Coq Require Import List Arith Bool.
From SM Require Import Lifecycle.
Import ListNotations.

Section C19.
Variable n : lnet.

(* what must hold of the state in which to_function returns a function *)
Definition compiled_state_ok (s : lstate) (els : list nat) : Prop :=
  (* every member with states, actions or disturbances is initialised *)
  (forall e, In e (members s) -> declares_any n e = true -> initialised s e = true) /\
  (* every member with states has next states, i.e. (init_resets_next) was stepped after its last
     initialisation *)
  (forall e, In e (members s) -> declares_states n e = true -> exists gs, next (slots s e) = Some gs) /\
  (* no free symbol: every symbol generation a next state reads is the CURRENT generation of a
     member's variables (so the element it belongs to was not re-initialised or removed since) *)
  (forall e gs g, In e (members s) -> declares_states n e = true -> next (slots s e) = Some gs -> In g gs ->
     exists e', In e' (members s) /\ declares_any n e' = true /\ vars (slots s e') = Some (Some g)) /\
  els = sym_members n s.

Definition compile_only_when_ready : Prop :=
  forall s, (exists els, lstep n s ToFunction = (s, LFunction els) /\ compiled_state_ok s els) \/
            lstep n s ToFunction = (s, LRuntimeError).

(* initialising an element discards its next states; a successful step records the generations of
   the variables it read at that moment *)
Definition init_resets_next : Prop :=
  forall s e k, next (slots (fst (lstep n s (InitVars e k))) e) = None /\
                (forall e', e' <> e -> slots (fst (lstep n s (InitVars e k))) e' = slots s e').
Definition step_records_current : Prop :=
  forall s e, lstep n s (StepEl e) = (step_one n s e, LOk) ->
    declares_states n e = true ->
    next (slots (step_one n s e) e) = Some (gens_of s (e :: reads n s e)) /\
    vars (slots (step_one n s e) e) = vars (slots s e).

(* symbol generations are never reused: at any reachable state every generation in use is older
   than the counter, so a re-initialised element never gets back symbols an old next state reads *)
Definition gens_fresh (s : lstate) : Prop :=
  (forall e g, vars (slots s e) = Some (Some g) -> g < gen s) /\
  (forall e gs g, next (slots s e) = Some gs -> In g gs -> g < gen s).
Definition generations_never_reused : Prop :=
  forall ops, gens_fresh (fst (lrun n (linit n) ops)).
End C19.
