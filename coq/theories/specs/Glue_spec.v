(* Glue_spec.v - what "the element-layer model is the regenerated glue" means.

   gen/BlocksGen.v is written by translator/blocks.py from blocks/{links,nodes,origins,destinations}.py on every
   run.  gen_network_step runs Network.step's two loops (origins that declare a state, then links; ElementBase.step's
   shape check on each link result) over those REGENERATED definitions.  The statement: on every numeric structure,
   engine record, universe, parameter set, graph, option set and state it yields the same value as Blocks.network_step
   - the hand-written model every other theorem is stated about - or both fail (res_sim: the generated model raises a
   Python failure where Python does, e.g. a source node without origin hands None on and the link fails when it uses
   it, Blocks.v fails in the node already; which failure is reported is not compared). *)
From Coq Require Import QArith List String Arith Bool.
From SM Require Import Num Graph Engine Expr Types Blocks.
From SM.gen Require Import BlocksGen.
Import ListNotations.

Definition res_sim {T} (a b : res T) : Prop :=
  match a, b with Ok x, Ok y => x = y | Err _, Err _ => True | _, _ => False end.

Section Glue.
Context {A : Type} {NA : Num A}.
Variable E : engine A.
Variable U : universe.
Variable P : params A.
Variable g : graph.

(* ElementBase.step (base.py): the shape check on what step_dynamics returned *)
Definition shape_checked (st : state A) (m : nat) (r : list A * list A) : res (list A * list A) :=
  if ((List.length (fst r) =? List.length (s_rho st m)) && (List.length (snd r) =? List.length (s_v st m)))%nat
  then Ok r else Err EShape.

Definition gen_network_step (opts : options) (st : state A) : res (step_out (A := A)) :=
  let st' := init_state E opts st in
  ws <- mapM (fun o =>
          if is_queued (okind_of U o)
          then r <- gd_origin_step E U P g st' o (gtau P) (geta P) (gkappa P) (gT P) (gdelta P) (gphi P) (pn_w opts) ;;
               Ok (o, Some r)
          else Ok (o, None)) (map fst (origins_dict g)) ;;
  ls <- mapM (fun e =>
          r <- gd_link_step E U P g st' (e_link e) (gtau P) (geta P) (gkappa P) (gT P) (gdelta P) (gphi P)
                 (pn_v opts) (pn_rho opts) ;;
          r' <- shape_checked st' (e_link e) r ;;
          Ok (e_link e, r')) (links g) ;;
  Ok {| o_links := ls; o_queues := ws |}.
End Glue.

Definition element_layer_is_the_regenerated_glue : Prop :=
  forall (A : Type) (NA : Num A) (E : engine A) (U : universe) (P : params A) (g : graph) (opts : options) (st : state A),
    res_sim (gen_network_step E U P g opts st) (network_step E U P g opts st).

(* where the model succeeds (every validated network: Steppable.v) the regenerated definitions give that very value *)
Definition regenerated_glue_gives_the_model_value : Prop :=
  forall (A : Type) (NA : Num A) (E : engine A) (U : universe) (P : params A) (g : graph) (opts : options) (st : state A) out,
    network_step E U P g opts st = Ok out -> gen_network_step E U P g opts st = Ok out.

(* the default values of the parameters of the translated methods, as the element-level API documents them
   (Link.step_dynamics clamps speeds by default - unlike Network.step, whose options all default to False: F5) *)
Definition expected_defaults : list (string * string) :=
  [("CongestedDestination.get_density.engine", "None");
   ("Destination.get_density.engine", "None");
   ("Link.get_flow.engine", "None");
   ("Link.step_dynamics.delta", "None");
   ("Link.step_dynamics.engine", "None");
   ("Link.step_dynamics.phi", "None");
   ("Link.step_dynamics.positive_next_density", "False");
   ("Link.step_dynamics.positive_next_speed", "True");
   ("MainstreamOrigin.get_flow.engine", "None");
   ("MainstreamOrigin.step_dynamics.engine", "None");
   ("MainstreamOrigin.step_dynamics.positive_next_queue", "False");
   ("MeteredOnRamp.get_flow.engine", "None");
   ("MeteredOnRamp.step_dynamics.engine", "None");
   ("MeteredOnRamp.step_dynamics.positive_next_queue", "False");
   ("Node.get_downstream_density.engine", "None");
   ("Node.get_upstream_speed_and_flow.engine", "None");
   ("Origin.get_flow.engine", "None");
   ("SimplifiedMeteredOnRamp.get_flow.engine", "None")]%string.
Definition element_level_defaults_as_documented : Prop := gen_defaults = expected_defaults.

(* C01's statement with the REGENERATED glue in the place of the hand-written model: on every valid network the
   definitions translated from blocks/*.py, run over the engine definitions translated from engines/*.py, return
   the METANET values of Spec.v (link_result_ok / origin_result_ok are C01's per-segment and per-queue clauses) *)
From Coq Require Import Reals.
From SM Require Import NumR Spec Validity.
From SM.specs Require Import GraphWF C01_spec.

Definition regenerated_step_is_METANET (E : engine R) : Prop :=
  forall (U : universe) (P : params R) (g : graph) (st : state R),
    wf_graph g -> validb U g = true ->
    (forall e, In e (g_edges g) -> wf_link U st (e_link e)) ->
    (forall e, In e (g_edges g) -> lp P (e_link e) Pturn <> 0%R) ->
    (forall e, In e (g_edges g) -> lp P (e_link e) Prhocrit <> 0%R) ->
    exists out,
      gen_network_step E U P g no_options st = Ok out /\
      Forall2 (link_result_ok U P g st) (links g) (o_links out) /\
      Forall2 (origin_result_ok U P g st) (map fst (origins_dict g)) (o_queues out).
