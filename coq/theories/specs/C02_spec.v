(* C02_spec.v — vehicles are conserved by every step: at every node and network-wide.
   Stated on the per-segment values of Spec.v, which theorem C01 proves the model to return. *)
From Coq Require Import Reals List.
From SM Require Import Num NumR Graph Expr Types Spec Validity.
From SM.specs Require Import GraphWF.
From SM.proofs Require Import VecR.
From Coq Require Import List.
Import ListNotations.
Local Open Scope R_scope.

Section C02.
Variable U : universe.
Variable P : params R.
Variable g : graph.
Variable st : state R.

(* at node n: the flows entering the first segments of its leaving links sum to the last-segment
   flows of its entering links plus the flow of its origin *)
Definition node_balance (n : nat) : Prop :=
  Rsum (map (sinflow U P g st) (out_links g n)) =
  Rsum (map (slast_q U st) (in_links g n)) + snode_origin_flow U P g st n.

(* change in the number of vehicles held in the segments of link e: density x lanes x length *)
Definition link_vehicles_delta (e : edge) : R :=
  Rsum (map (fun i => (spec_rho_next U P g st e i - srho st (e_link e) i)
                      * slam U (e_link e) * lp P (e_link e) PL)
            (seq 0 (sN U (e_link e)))).

(* per node: its origin's queue change, external demand (queued origins), admitted flow (ideal) *)
Definition at_origin (n : nat) (f : nat -> nat -> R) : R :=
  match origin_at g n, out_links g n with
  | Some o, e1 :: _ => f o (e_link e1)
  | _, _ => 0
  end.
Definition queue_delta (n : nat) : R :=
  at_origin n (fun o m => if is_queued (okind_of U o) then spec_w_next U P st o m - s_w st o else 0).
Definition demand (n : nat) : R :=
  at_origin n (fun o m => if is_queued (okind_of U o) then s_do st o else 0).
Definition ideal_inflow (n : nat) : R :=
  at_origin n (fun o m => if is_queued (okind_of U o) then 0 else sorigin_flow U P st o m).
Definition exit_flow (e : edge) : R :=
  match dest_at g (e_down e) with Some _ => slast_q U st e | None => 0 end.

Definition network_balance : Prop :=
  let ns := map nid (g_nodes g) in
  Rsum (map link_vehicles_delta (g_edges g)) + Rsum (map queue_delta ns) =
  gT P * (Rsum (map demand ns) + Rsum (map ideal_inflow ns) - Rsum (map exit_flow (g_edges g))).
End C02.

Definition conservation : Prop :=
  forall U (P : params R) g (st : state R),
    wf_graph g -> validb U g = true ->
    (* no clamping; the only numeric side conditions: non-zero lanes x length, and a non-zero
       turn-rate sum at every node with leaving links *)
    (forall e, In e (g_edges g) -> lp P (e_link e) PL * slam U (e_link e) <> 0) ->
    (forall e, In e (g_edges g) -> ssum (sturn P) (out_links g (e_up e)) <> 0) ->
    (forall e, In e (g_edges g) -> (1 <= sN U (e_link e))%nat) ->
    (forall n, out_links g n <> [] -> node_balance U P g st n) /\ network_balance U P g st.

(* the same on the element-layer MODEL (the regenerated engines): the step of a valid network returns, for
   every link segment and every queue, the very values (spec_rho_next, spec_w_next) the two balances are
   stated on - C01's theorem and `conservation` in one statement *)
From SM Require Import Engine Blocks.
From SM.specs Require Import C01_spec.
Definition model_conserves (E : engine R) : Prop :=
  forall U (P : params R) g (st : state R),
    wf_graph g -> validb U g = true ->
    (forall e, In e (g_edges g) -> wf_link U st (e_link e)) ->
    (forall e, In e (g_edges g) -> lp P (e_link e) Pturn <> 0) ->
    (forall e, In e (g_edges g) -> lp P (e_link e) Prhocrit <> 0) ->
    (forall e, In e (g_edges g) -> lp P (e_link e) PL * slam U (e_link e) <> 0) ->
    (forall e, In e (g_edges g) -> ssum (sturn P) (out_links g (e_up e)) <> 0) ->
    exists out,
      network_step E U P g no_options st = Ok out /\
      Forall2 (link_result_ok U P g st) (links g) (o_links out) /\
      Forall2 (origin_result_ok U P g st) (map fst (origins_dict g)) (o_queues out) /\
      (forall n, out_links g n <> [] -> node_balance U P g st n) /\ network_balance U P g st.
