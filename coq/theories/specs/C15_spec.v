(* C15_spec.v — statement of engine agreement, for any numeric structure. *)
From Coq Require Import List String.
From SM Require Import Num.
From SM.gen Require Import EnginesNp EnginesCs.

Section AtInstance.
Context {A : Type} {NA : Num A}.
Definition engines_agree : Prop :=
  (forall q b bs qo, Np.nodes_get_upstream_flow q b bs qo = Cs.nodes_get_upstream_flow q b bs qo) /\
  (forall q v, Np.nodes_get_upstream_speed q v = Cs.nodes_get_upstream_speed q v) /\
  (forall r, Np.nodes_get_downstream_density r = Cs.nodes_get_downstream_density r) /\
  (forall r rc, Np.destinations_get_congestion_free_downstream_density r rc =
                Cs.destinations_get_congestion_free_downstream_density r rc) /\
  (forall r d rc, Np.destinations_get_congested_downstream_density r d rc =
                  Cs.destinations_get_congested_downstream_density r d rc) /\
  (forall r v l, Np.links_get_flow r v l = Cs.links_get_flow r v l) /\
  (forall r q qu l L T, Np.links_step_density r q qu l L T = Cs.links_step_density r q qu l L T) /\
  (forall v vu r rd V l L tau eta kappa T qr de ld ph rc,
      Np.links_step_speed v vu r rd V l L tau eta kappa T qr de ld ph rc =
      Cs.links_step_speed v vu r rd V l L tau eta kappa T qr de ld ph rc) /\
  (forall r vf rc a, Np.links_Veq r vf rc a = Cs.links_Veq r vf rc a) /\
  (forall r vf rc a, Np.links_Veq_s r vf rc a = Cs.links_Veq_s r vf rc a) /\
  (forall r vc vsl al vf rc a,
      Np.links_controlled_Veq r vc vsl al vf rc a = Cs.links_controlled_Veq r vc vsl al vf rc a) /\
  (forall w d q T, Np.origins_step_queue w d q T = Cs.origins_step_queue w d q T) /\
  (forall d w vc v1 rc a vf l T,
      Np.origins_get_mainstream_flow d w vc v1 rc a vf l T =
      Cs.origins_get_mainstream_flow d w vc v1 rc a vf l T) /\
  (forall d w C r rm r1 rc T ty,
      Np.origins_get_ramp_flow d w C r rm r1 rc T ty = Cs.origins_get_ramp_flow d w C r rm r1 rc T ty) /\
  (forall qd d w C rm r1 rc T ty,
      Np.origins_get_simplifiedramp_flow qd d w C rm r1 rc T ty =
      Cs.origins_get_simplifiedramp_flow qd d w C rm r1 rc T ty) /\
  (forall xs : list (list A), Np.engine_vcat xs = Cs.engine_vcat xs) /\
  (forall a b, Np.engine_max a b = Cs.engine_max a b) /\
  (forall a b : A, Np.engine_max_s a b = Cs.engine_max_s a b).
End AtInstance.
