(* C15fin_spec.v — the finiteness clause of C15 (and of C07 at primitive level): on admissible
   arguments - INCLUDING exact zeros of density and speed - every link / node / destination law of
   both engines is defined over the partial reals (no nan or inf is born from finite inputs) and
   equals the value over the reals.  `somes` injects a vector of finite numbers. *)
From Coq Require Import Reals List.
From SM Require Import Num NumR NumPR.
Import ListNotations.
Local Open Scope R_scope.

Definition somes (l : list R) : list PR := map Some l.

Section Fin.
(* the laws at the partial reals and at the reals *)
Variable flowP : list PR -> list PR -> PR -> list PR.
Variable flowR : list R -> list R -> R -> list R.
Variable densP : list PR -> list PR -> list PR -> PR -> PR -> PR -> list PR.
Variable densR : list R -> list R -> list R -> R -> R -> R -> list R.
Variable VeqP : list PR -> PR -> PR -> PR -> list PR.
Variable VeqR : list R -> R -> R -> R -> list R.
Variable speedP : list PR -> list PR -> list PR -> list PR -> list PR -> PR -> PR -> PR -> PR -> PR -> PR ->
                  option PR -> option PR -> option PR -> option PR -> option PR -> list PR.
Variable speedR : list R -> list R -> list R -> list R -> list R -> R -> R -> R -> R -> R -> R ->
                  option R -> option R -> option R -> option R -> option R -> list R.

Definition flow_finite : Prop :=
  forall rho v lam, flowP (somes rho) (somes v) (Some lam) = somes (flowR rho v lam).
Definition density_finite : Prop :=
  forall rho q qu lam L T, lam <> 0 -> L <> 0 ->
    densP (somes rho) (somes q) (somes qu) (Some lam) (Some L) (Some T) = somes (densR rho q qu lam L T).
(* equilibrium speed: defined for every non-negative density, zero included *)
Definition Veq_finite : Prop :=
  forall rho vf rc a, Forall (fun x => 0 <= x) rho -> 0 < rc -> 0 < a ->
    VeqP (somes rho) (Some vf) (Some rc) (Some a) = somes (VeqR rho vf rc a).
(* speed update with merging and lane-drop terms: defined for non-negative densities (zero incl.),
   any speeds (zero incl.), positive tau, L, lanes, kappa, rho_crit *)
Definition speed_finite : Prop :=
  forall v vu r rd V lanes L tau eta kappa T qr de ld ph rc,
    Forall (fun x => 0 <= x) r -> 0 < kappa -> 0 < L -> 0 < lanes -> 0 < tau ->
    (forall x, rc = Some x -> 0 < x) -> (1 <= List.length v)%nat -> List.length r = List.length v ->
    speedP (somes v) (somes vu) (somes r) (somes rd) (somes V) (Some lanes) (Some L) (Some tau) (Some eta)
           (Some kappa) (Some T) (option_map Some qr) (option_map Some de) (option_map Some ld)
           (option_map Some ph) (option_map Some rc) =
    somes (speedR v vu r rd V lanes L tau eta kappa T qr de ld ph rc).
End Fin.
