(* C03_spec.v / C16 — the compiled function denotes the NumPy step.
   eval_state / eval_params: the numbers an environment gives to the symbols. *)
From Coq Require Import Reals List String.
From SM Require Import Num NumR Graph Engine Expr ExprEval Types Blocks ToFunction.
Import ListNotations.

Definition eval_state (env : ident -> R) (st : state expr) : state R :=
  {| s_rho := fun m => map (eval env) (s_rho st m); s_v := fun m => map (eval env) (s_v st m);
     s_w := fun o => eval env (s_w st o); s_uo := fun o => eval env (s_uo st o);
     s_do := fun o => eval env (s_do st o); s_vc := fun m => map (eval env) (s_vc st m);
     s_dd := fun d => eval env (s_dd st d) |}.
Definition eval_params (env : ident -> R) (P : params expr) : params R :=
  {| lp := fun l p => eval env (lp P l p); ocap := fun o => eval env (ocap P o);
     gT := eval env (gT P); gtau := eval env (gtau P); geta := eval env (geta P);
     gkappa := eval env (gkappa P); gdelta := option_map (eval env) (gdelta P);
     gphi := option_map (eval env) (gphi P) |}.
Definition eval_named (env : ident -> R) (l : list (string * list expr)) : list (string * list R) :=
  map (fun x => (fst x, map (eval env) (snd x))) l.
Definition map_res {T V} (f : T -> V) (r : res T) : res V :=
  match r with Ok x => Ok (f x) | Err e => Err e end.

(* C03: for every network (valid or not: errors agree too), every option set, every naming, every
   compactness level and every numeric argument vector env, the state results of the function
   compiled by the CasADi-derived engine, evaluated at env, are the regrouped next states of the
   NumPy-derived engine stepped from the same numbers.  P may mix symbols and constants (C16). *)
Definition compiled_is_numpy_step : Prop :=
  forall (env : ident -> R) nm U (P : params expr) g opts compact,
    map_res (eval_named env) (tf_outputs cs_engine nm U P g opts compact false) =
    map_res (state_outputs nm compact)
            (network_step (@np_engine R NumR) U (eval_params env P) g opts
                          (eval_state env (net_state U g))).

(* C16: a parameter given as a symbol and evaluated at a value behaves as that value: the two
   parameter records below differ in how each parameter is given (any expression: a symbol, a
   constant) but evaluate alike *)
Definition symbolic_parameters_are_values : Prop :=
  forall (env : ident -> R) nm U (P P' : params expr) g opts compact,
    eval_params env P = eval_params env P' ->
    map_res (eval_named env) (tf_outputs cs_engine nm U P g opts compact false) =
    map_res (eval_named env) (tf_outputs cs_engine nm U P' g opts compact false).

(* parameters trail the state/action/disturbance arguments in the order declared *)
Definition parameters_trail_in_order : Prop :=
  forall nm U g compact ps,
    exists front, tf_inputs nm U g compact ps = (front ++ param_inputs compact ps)%list /\
                  front = tf_inputs nm U g compact [] /\
                  List.concat (map snd (param_inputs compact ps)) = map snd ps /\
                  (compact = O -> map fst (param_inputs compact ps) = map fst ps).
