(* CacheGen_spec.v — statement only: what Cache.v assumes of a call decorated with @invalidate_cache(p1, ..., pn)
   (hstep / step_prim: `cache_drop (invalidates kind)` and then the call) is what the wrapper REGENERATED from
   util/funcs.py::invalidate_cache on this run does (gen/CacheGen.v, translator/cachegen.py). *)
From Coq Require Import List Bool.
From SM Require Import Graph Construct Cache PyCacheSupport.
From SM.gen Require Import CacheGen.
Import ListNotations.

Definition decorated_call_drops_exactly_the_named_properties : Prop :=
  forall ks : list ckey, ks <> [] ->
  exists w, gen_invalidate_cache ckey_eqb (map CProp ks) = Some w /\
    forall (R : Type) (func : cache -> list nat -> R) (c : cache) (log : list nat),
      (* the decorated function runs AFTER the invalidation, on the cache it leaves, and its value is returned;
         no lru wrapper is cleared *)
      exists c', w R func true c log = func c' log
                 (* every named property is dropped, whichever are populated; nothing else is touched *)
                 /\ forall k, c' k = cache_drop ks c k.

(* a decorator without arguments, or with an argument that is neither a cached property nor an lru wrapper, is refused *)
Definition decorator_refuses_what_it_cannot_invalidate : Prop :=
  gen_invalidate_cache ckey_eqb (@nil (callable ckey)) (V:=cgraph) = None /\
  forall a b : list (callable ckey), gen_invalidate_cache ckey_eqb (a ++ COther :: b) (V:=cgraph) = None.
