(* C08_spec.v — look-ups are never stale. *)
From Coq Require Import List Bool.
From SM Require Import Graph Construct Cache.
Import ListNotations.

(* which decorated call can change which look-up (a statement about the model of the look-ups and
   of the calls, proved sound in proofs/CacheFresh.v) *)
Definition affects (k : pkind) (key : ckey) : bool :=
  match k, key with
  | (KAddNode | KAddNodes), KNodesByName => true
  | (KAddLink | KAddLinks), (KNodesByName | KLinksByName | KNodesByLink) => true
  | KAddOrigin, (KNodesByName | KOrigins | KOriginsByName | KOriginsByNode) => true
  | KAddDestination, (KNodesByName | KDests | KDestsByName | KDestsByNode) => true
  | _, _ => false
  end.
Definition all_kinds : list pkind := [KAddNode; KAddNodes; KAddLink; KAddLinks; KAddOrigin; KAddDestination].

(* the finite obligation on an invalidation table: every look-up a call can change is dropped by it *)
Definition table_ok (inv : pkind -> list ckey) : bool :=
  forallb (fun k => forallb (fun key => implb (affects k key) (existsb (ckey_eqb key) (inv k))) all_keys) all_kinds.

(* every populated look-up equals what is recomputed from the graph at that moment, whatever the
   element names are (colliding or not) *)
Definition fresh (s : cstate) : Prop :=
  forall nm key, lookup nm s key = recompute nm key (fst s).

Definition never_stale : Prop :=
  forall inv, table_ok inv = true -> forall h, fresh (hrun inv h).
