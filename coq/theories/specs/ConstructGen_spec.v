(* ConstructGen_spec.v — statement only: every construction call of the hand-written model Construct.v (the model
   C08's and C09's theorems are about) has, on every graph and for all arguments, exactly the effect and the error of
   the definitions REGENERATED from network.py on this run (gen/ConstructGen.v, translator/construct.py) over the
   networkx primitives of NxSupport.v. *)
From Coq Require Import List.
From SM Require Import Graph Construct NxSupport.
From SM.gen Require Import ConstructGen.

Definition gen_apply_op (g : cgraph) (op : cop) : cgraph * option cerr :=
  match op with
  | CAddNode x => gen_add_node_full g x
  | CAddNodes xs => gen_add_nodes_full g xs
  | CAddLink u l d => gen_add_link_full g u l d
  | CAddLinks ls => gen_add_links_full g ls
  | CAddOrigin o x => gen_add_origin_full g o x
  | CAddDestination d x => gen_add_destination_full g d x
  | CAddPath p o d => gen_add_path_full g p o d
  end.

Definition construction_model_is_the_regenerated_code : Prop :=
  forall (g : cgraph) (op : cop), apply_op g op = gen_apply_op g op.

(* the error UnboundLocalError, which the regenerated add_path could in principle raise (the loop variable read
   after a loop that never ran), is never raised *)
Definition regenerated_add_path_never_reads_an_unbound_variable : Prop :=
  forall g p o d, snd (gen_add_path_full g p o d) <> Some CUnbound.
