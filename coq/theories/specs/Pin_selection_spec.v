(* Pin_selection_spec.v - the source text (docstrings, annotations, comments removed; as re-printed by ast.unparse) of
   engines/core.py: get_current_engine, get_available_engines, use, and engines/__init__.py: what EngineSel.v models (C13).
   gen/Pin_selection.v is the same table read off /repo on every run.  A PIN of text, not a translation: it proves nothing
   about what the text means (the correspondence does that) - it guarantees that no edit of it goes unnoticed. *)
From Coq Require Import List String.
Import ListNotations.
Open Scope string_scope.

Definition expected_pin_selection : list (string * string) :=
  [("engines/core.py:get_current_engine", "@ (): return sym_metanet.engine");
   ("engines/core.py:get_available_engines", "@ (): return {'casadi': {'module': 'sym_metanet.engines.casadi', 'class': 'Engine'}, 'numpy': {'module': 'sym_metanet.engines.numpy', 'class': 'Engine'}}");
   ("engines/core.py:use", "@ (engine, *args, **kwargs): if isinstance(engine, EngineBase):     sym_metanet.engine = engine else:     engines = get_available_engines()     if engine not in engines:         raise EngineNotFoundError(f'Engine class must be in {{{', '.join(engines)}}}; got {engine} instead.')     from importlib import import_module     engineinfo = engines[engine]     cls = getattr(import_module(engineinfo['module']), engineinfo['class'])     sym_metanet.engine = cls(*args, **kwargs) ; return sym_metanet.engine");
   ("engines/__init__.py:<module>", "__all__ = ['get_current_engine', 'get_available_engines', 'use'] ; from sym_metanet.engines.core import get_available_engines, get_current_engine, use")].

Definition selection_source_as_modelled (t : list (string * string)) : Prop := t = expected_pin_selection.
