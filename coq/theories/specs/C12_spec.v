(* C12_spec.v — stepping is a pure, repeatable function of the supplied values. *)
From Coq Require Import List String Bool.
From SM Require Import Lifecycle.
From SM.gen Require Import Tables.
Import ListNotations.

(* (a) Network.step leaves nothing of the earlier history in the variable slots of the members:
   whatever was initialised, stepped or compiled before, after Network.step from numbers every
   member's slots are the same *)
Definition step_forgets_history (n : lnet) : Prop :=
  forall s1 s2, members s1 = members s2 ->
    forall e, In e (members s1) ->
      slots (fst (lstep n s1 (StepAll Numbers))) e = slots (fst (lstep n s2 (StepAll Numbers))) e.

(* ... and with engine symbols, the same up to the numbering of the fresh symbol generations: the
   structure (which members are initialised, which have next states) is history independent *)
Definition slot_shape (s : slot) : bool * bool :=
  (match vars s with Some _ => true | None => false end, match next s with Some _ => true | None => false end).
Definition step_shape_forgets_history (n : lnet) : Prop :=
  forall s1 s2 k, members s1 = members s2 ->
    forall e, In e (members s1) ->
      slot_shape (slots (fst (lstep n s1 (StepAll k))) e) = slot_shape (slots (fst (lstep n s2 (StepAll k))) e).

(* (b) no in-place statement of the NumPy engine or of the element layer targets a value that may
   be the caller's: every target is a value the function created itself, or one of the element's
   own variable dictionaries *)
Definition not_aliased (p : provenance) : bool := match p with PAliased => false | _ => true end.
Definition no_inplace_write_on_caller_data : Prop :=
  forallb (fun x => not_aliased (snd x)) gen_effects = true.
