(* CompileGen_spec.v — statement only: the layout functions of the hand-written model ToFunction.v (the arguments and
   results of the compiled function: which C03 / C04 / C05 / C16 / C19 are about) are, for EVERY integer compactness
   level, what the definitions REGENERATED from the compile helpers of engines/casadi.py on this run compute
   (gen/CompileGen.v, translator/compilegen.py), when handed the dictionaries of variables of the model. *)
From Coq Require Import List ZArith String Bool.
From SM Require Import Num Graph Engine Expr Types Blocks Validity ToFunction PySupport.
From SM.gen Require Import CompileGen.
Import ListNotations.

Definition zlevel (c : Z) : nat := if (c <=? 0)%Z then 0%nat else if (c =? 1)%Z then 1%nat else 2%nat.

(* ---- what the helpers compute, as pure functions of the dictionaries they are handed (any element and value types) ---- *)
Section Layout.
Context {E T : Type}.
Variable ename : E -> string.
Definition kv_in (x : list (E * list (string * list T))) : list (string * list T) := flat_map snd x.
Definition lay0_in (x : list (E * list (string * list T))) : list (string * list T) :=
  flat_map (fun it => map (fun kv => ((fst kv ++ "_" ++ ename (fst it))%string, snd kv)) (snd it)) x.
Definition lay_inputs (x u d : list (E * list (string * list T))) (c : Z) : list (string * list T) :=
  match zlevel c with
  | O => lay0_in x ++ lay0_in u ++ lay0_in d
  | 1%nat => regroup (kv_in x) ++ regroup (kv_in u) ++ regroup (kv_in d)
  | _ => [("x"%string, List.concat (map snd (regroup (kv_in x)))); ("u"%string, List.concat (map snd (regroup (kv_in u))));
          ("d"%string, List.concat (map snd (regroup (kv_in d))))]
  end.
Definition lay_params (ps : list (string * list T)) (c : Z) : list (string * list T) :=
  match ps with
  | [] => []
  | _ => if (c <=? 0)%Z then ps else [("p"%string, List.concat (map snd ps))]
  end.
Definition lay0_out (x : list (E * list (string * list T))) : list (string * list T) :=
  flat_map (fun it => map (fun kv => ((fst kv ++ "_" ++ ename (fst it) ++ "+")%string, snd kv)) (snd it)) x.
Definition kv_out (x : list (E * list (string * list T))) : list (string * list T) :=
  flat_map (fun it => map (fun kv => ((fst kv ++ "+")%string, snd kv)) (snd it)) x.
Definition lay_outputs (x : list (E * list (string * list T))) (c : Z) : list (string * list T) :=
  match zlevel c with
  | O => lay0_out x
  | 1%nat => regroup (kv_out x)
  | _ => [("x+"%string, List.concat (map snd (regroup (kv_out x))))]
  end.
End Layout.

(* net.states / net.actions / net.disturbances as to_function hands them on: element -> (variable name -> symbols) *)
Definition dd_of (U : universe) (g : graph) (gr : grp) : list (elem * list (string * list ident)) :=
  map (fun el => (el, map (fun ve => (snd (fst ve), snd ve))
                          (filter (fun ve => grp_eqb (fst (fst ve)) gr) (elem_vars U el))))
      (elements g).

Definition inputs_layout_is_the_regenerated_code : Prop :=
  forall (nm : names) (U : universe) (g : graph) (c : Z) (ps : list (string * ident)),
    let '(names0, args0) := gen_gather_inputs (elem_name nm) (@List.concat ident)
                                              (dd_of U g GX) (dd_of U g GU) (dd_of U g GD) c in
    let '(names1, args1) :=
        match ps with
        | [] => (names0, args0)            (* `if parameters:` *)
        | _ => gen_add_parameters_to_inputs (@List.concat ident) names0 args0 (map (fun p => (fst p, [snd p])) ps) c
        end in
    combine names1 args1 = tf_inputs nm U g (zlevel c) ps /\ List.length names1 = List.length args1.

(* net.next_states after a step: links (rho, v), then the origins that have a queue (w) *)
Definition next_dd {A} (out : step_out (A:=A)) : list (elem * list (string * list A)) :=
  map (fun x => (EL (fst x), [("rho"%string, fst (snd x)); ("v"%string, snd (snd x))])) (o_links out)
  ++ flat_map (fun x => match snd x with Some w => [(EO (fst x), [("w"%string, [w])])] | None => [] end) (o_queues out).

Definition outputs_layout_is_the_regenerated_code : Prop :=
  forall (A : Type) (nm : names) (out : step_out (A:=A)) (c : Z),
    let '(names0, args0) := gen_gather_outputs (elem_name nm) (@List.concat A) (next_dd out) c in
    combine names0 args0 = state_outputs nm (zlevel c) out /\ List.length names0 = List.length args0.

(* the extra flow outputs: the layout of flow_outputs, for link flows lf and origin flows qf *)
Definition flow_layout {A} (compact : nat) (ql qo : list (string * list A)) : list (string * list A) :=
  match compact with
  | O => ql ++ qo
  | 1%nat => [("q"%string, List.concat (map snd ql)); ("q_o"%string, List.concat (map snd qo))]
  | _ => [("q"%string, List.concat (map snd ql) ++ List.concat (map snd qo))]
  end.

Definition flows_layout_is_the_regenerated_code : Prop :=
  forall (A : Type) (nm : names) (lids oids : list nat) (lf qf : nat -> list A)
         (names0 : list string) (args0 : list (list A)) (pars : list (string * list A)) (c : Z),
    List.length names0 = List.length args0 ->
    exists names1 args1,
      gen_add_flows_to_outputs (lname nm) (oname nm) (@List.concat A) lids oids lf qf names0 args0 pars c
      = Some (names1, args1)          (* in particular: the IndexError branch is never taken *)
      /\ List.length names1 = List.length args1
      /\ combine names1 args1
         = combine names0 args0
           ++ flow_layout (zlevel c) (map (fun m => (("q_" ++ lname nm m)%string, lf m)) lids)
                                     (map (fun o => (("q_o_" ++ oname nm o)%string, qf o)) oids).

(* and flow_layout is the layout ToFunction.flow_outputs uses *)
Definition model_flow_outputs_use_flow_layout : Prop :=
  forall (E : engine expr) nm U P g opts (compact : nat),
    flow_outputs E nm U P g opts compact
    = bind (origin_flow_entries E nm U P g opts)
           (fun qo => Ok (flow_layout compact (link_flow_entries E nm U g opts) qo)).

(* ---- Engine.to_function itself: for every element / value type, all dictionaries of variables, every integer level, with and
        without the extra outputs and declared parameters, the regenerated to_function (variables handed on unfiltered) hands
        cs.Function exactly these (name, value) lists as inputs and as outputs, in these roles ---- *)
Definition to_function_layout_is_the_regenerated_code : Prop :=
  forall (E L O T : Type) (ename : E -> string) (lname : L -> string) (oname : O -> string)
         (links : list L) (origins : list O) (lf : L -> list T) (qf : O -> list T)
         (x u d nxt : list (E * list (string * list T))) (c : Z) (more_out : bool) (ps : option (list (string * list T))),
    gen_to_function ename lname oname (@List.concat T) links origins lf qf x u d nxt (fun v => v) (fun v => v) c more_out ps
    = Some (lay_inputs ename x u d c ++ lay_params (match ps with Some p => p | None => [] end) c,
            lay_outputs ename nxt c
            ++ if more_out
               then flow_layout (zlevel c) (map (fun m => (("q_" ++ lname m)%string, lf m)) links)
                                           (map (fun o => (("q_o_" ++ oname o)%string, qf o)) origins)
               else []).

(* and on the model's dictionaries these are ToFunction.v's lists *)
Definition model_layouts_are_the_generic_ones : Prop :=
  (forall nm U g (c : Z) (ps : list (string * ident)),
      lay_inputs (elem_name nm) (dd_of U g GX) (dd_of U g GU) (dd_of U g GD) c
      ++ lay_params (map (fun p => (fst p, [snd p])) ps) c = tf_inputs nm U g (zlevel c) ps)
  /\ (forall (A : Type) nm (out : step_out (A:=A)) (c : Z),
         lay_outputs (elem_name nm) (next_dd out) c = state_outputs nm (zlevel c) out).
