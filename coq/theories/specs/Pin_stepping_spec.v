(* Pin_stepping_spec.v - the source text (docstrings, annotations, comments removed; as re-printed by ast.unparse) of
   ElementBase, ElementWithVars (slots, has_*, step with its shape check) and Network.step: what Lifecycle.v and the loop
   structure of Blocks.network_step model (C07, C11, C12, C19).
   gen/Pin_stepping.v is the same table read off /repo on every run.  A PIN of text, not a translation: it proves nothing
   about what the text means (the correspondence does that) - it guarantees that no edit of it goes unnoticed. *)
From Coq Require Import List String.
Import ListNotations.
Open Scope string_scope.

Definition expected_pin_stepping : list (string * string) :=
  [("blocks/base.py:ElementBase.<bases>", "");
   ("blocks/base.py:ElementBase.<Assign>", "__slots__ = 'name'");
   ("blocks/base.py:ElementBase.<AnnAssign>", "__ids: _ = {}");
   ("blocks/base.py:ElementBase.__init__", "@ (self, name=None): cls = self.__class__ ; if cls in self.__ids:     _id = self.__ids[cls] else:     _id = count(0)     self.__ids[cls] = _id ; self.name = name or f'{cls.__name__}{next(_id)}'");
   ("blocks/base.py:ElementBase.__str__", "@ (self): return self.name");
   ("blocks/base.py:ElementBase.__repr__", "@ (self): return f'<{self.name}: {self.__class__.__name__}>'");
   ("blocks/base.py:ElementWithVars.<bases>", "ElementBase,Generic[VarType],ABC");
   ("blocks/base.py:ElementWithVars.<Assign>", "__slots__ = ('states', 'next_states', 'actions', 'disturbances')");
   ("blocks/base.py:ElementWithVars.<AnnAssign>", "_states: _ = set()");
   ("blocks/base.py:ElementWithVars.<AnnAssign>", "_actions: _ = set()");
   ("blocks/base.py:ElementWithVars.<AnnAssign>", "_disturbances: _ = set()");
   ("blocks/base.py:ElementWithVars.__init__", "@ (self, name=None): super().__init__(name) ; self.states: _ = None ; self.next_states: _ = None ; self.actions: _ = None ; self.disturbances: _ = None");
   ("blocks/base.py:ElementWithVars.has_states", "@property (self): return self.states is not None");
   ("blocks/base.py:ElementWithVars.has_next_states", "@property (self): return self.next_states is not None");
   ("blocks/base.py:ElementWithVars.has_actions", "@property (self): return self.actions is not None");
   ("blocks/base.py:ElementWithVars.has_disturbances", "@property (self): return self.disturbances is not None");
   ("blocks/base.py:ElementWithVars.init_vars", "@abstractmethod (self, *args, **kwargs): raise NotImplementedError(f'Variable initialization not supported for {self.__class__.__name__}.')");
   ("blocks/base.py:ElementWithVars.step_dynamics", "@abstractmethod (self, *args, **kwargs): raise NotImplementedError(f'Stepping the dynamics not supported for {self.__class__.__name__}.')");
   ("blocks/base.py:ElementWithVars.step", "@ (self, *args, **kwargs): if not self._states and self.states is None:     return ; assert self.states is not None, 'States not initialized.' ; next_states = self.step_dynamics(*args, **kwargs) ; if self.next_states is None:     self.next_states = {} ; for name, state in self.states.items():     next_state = next_states[name]     self.next_states[name] = next_state     if hasattr(next_state, 'shape') and hasattr(state, 'shape') and (next_state.shape != state.shape):         raise RuntimeError('Shapes of new and old states do not match.')");
   ("blocks/base.py:ElementWithVars.__str__", "@ (self): return self.name");
   ("blocks/base.py:ElementWithVars.__repr__", "@ (self): return f'<{self.name}: {self.__class__.__name__}>'");
   ("network.py:Network.<bases>", "ElementBase");
   ("network.py:Network.step", "@ (self, init_conditions=None, engine=None, positive_init_speed=False, positive_init_density=False, positive_init_queue=False, positive_next_speed=False, positive_next_density=False, positive_next_queue=False, **other_parameters): if init_conditions is None:     init_conditions = {} ; for el in self.elements:     el.init_vars(init_conditions=init_conditions.get(el), engine=engine, positive_init_queue=positive_init_queue, positive_init_density=positive_init_density, positive_init_speed=positive_init_speed) ; for origin in self.origins:     origin.step(net=self, engine=engine, positive_next_queue=positive_next_queue, **other_parameters) ; for _, _, link in self.links:     link.step(net=self, engine=engine, positive_next_speed=positive_next_speed, positive_next_density=positive_next_density, **other_parameters)")].

Definition stepping_source_as_modelled (t : list (string * string)) : Prop := t = expected_pin_stepping.
