(* ValidGen_spec.v — statement only: the hand-written model of Network.is_valid (Validity.v), which C06's
   theorems are about and whose `validb` is the validity hypothesis of every network theorem, returns for
   every universe and every graph exactly the message list of the definitions REGENERATED from
   network.py::Network.is_valid on this run (gen/ValidGen.v, translator/validity.py). *)
From Coq Require Import List.
From SM Require Import Graph Types Validity.
From SM.gen Require Import ValidGen.

Definition validity_model_is_the_regenerated_code : Prop :=
  forall (U : universe) (g : graph), is_valid_msgs U g = gen_is_valid_msgs U g.

(* hence the verdicts: `not msgs` of the regenerated list is validb, and the regenerated code has the four passes *)
Definition validb_is_the_regenerated_verdict : Prop :=
  forall (U : universe) (g : graph), validb U g = isnil (gen_is_valid_msgs U g).
Definition regenerated_code_has_four_passes : Prop := gen_number_of_passes = 4.
