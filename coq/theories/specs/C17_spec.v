(* C17_spec.v — origin flows respect demand, capacity and space limits; queues stay
   non-negative.  Stated on the origin primitives as regenerated from the engine sources. *)
From Coq Require Import Reals String.
From SM Require Import Num NumR.
Local Open Scope R_scope.

Definition flow_ok (q d w T cap : R) : Prop :=
  0 <= q /\ q <= d + w / T /\ q <= cap /\ 0 <= w + T * (d - q).

(* metered ramp, both variants (any type string other than "in" selects the "out" law) *)
Definition ramp_bounds (f : R -> R -> R -> R -> R -> R -> R -> R -> string -> R) : Prop :=
  forall d w C r rmax r1 rc T ty,
    0 <= d -> 0 <= w -> 0 < T -> 0 <= C -> 0 <= r <= 1 -> r1 <= rmax -> rc < rmax ->
    flow_ok (f d w C r rmax r1 rc T ty) d w T C /\ (r1 = rmax -> f d w C r rmax r1 rc T ty = 0).

(* limited simplified ramp (any type string other than "unlimited") *)
Definition simp_bounds (f : R -> R -> R -> R -> R -> R -> R -> R -> string -> R) : Prop :=
  forall qdes d w C rmax r1 rc T ty, ty <> "unlimited"%string ->
    0 <= qdes -> 0 <= d -> 0 <= w -> 0 < T -> 0 <= C -> r1 <= rmax -> rc < rmax ->
    flow_ok (f qdes d w C rmax r1 rc T ty) d w T C /\ (r1 = rmax -> f qdes d w C rmax r1 rc T ty = 0).

(* mainstream origin: capacity is the capacity flow of its link, lanes * V(rho_crit) * rho_crit *)
Definition main_bounds (f : R -> R -> R -> R -> R -> R -> R -> R -> R -> R) : Prop :=
  forall d w vctrl v1 rc a vf lanes T,
    0 <= d -> 0 <= w -> 0 < T -> 0 <= vctrl -> 0 <= v1 -> 0 < rc -> 0 < a -> 0 < vf -> 0 <= lanes ->
    flow_ok (f d w vctrl v1 rc a vf lanes T) d w T (lanes * (vf * exp (- (1 / a))) * rc).

(* the queue law used by both engines *)
Definition queue_law (f : R -> R -> R -> R -> R) : Prop := forall w d q T, f w d q T = w + T * (d - q).

(* network level: with no clamping option, the next queue of every mainstream, metered or limited
   simplified origin of the element-layer model is non-negative on the admissible domain *)
From Coq Require Import List.
From SM Require Import Graph Engine Expr Types Blocks.
Definition adm_origin (U : universe) (P : params R) (st : state R) (o m : nat) : Prop :=
  0 <= s_do st o /\ 0 <= s_w st o /\ 0 < gT P /\ 0 <= ocap P o /\
  nth 0 (s_rho st m) 0 <= lp P m Prhomax /\ lp P m Prhocrit < lp P m Prhomax /\
  0 <= nth 0 (s_v st m) 0 /\ 0 < lp P m Prhocrit /\ 0 < lp P m Pa /\ 0 < lp P m Pvfree /\
  (0 <= llanes (linkd U m))%Q /\
  match okind_of U o with
  | OMain => 0 <= s_uo st o
  | ORamp _ => 0 <= s_uo st o <= 1
  | OSimp true => 0 <= s_uo st o
  | _ => False            (* ideal origins have no queue; unlimited simplified ramps admit q_des *)
  end.
Definition queues_stay_nonneg (E : engine R) : Prop :=
  forall U P g st o m w',
    exiting_link g o = Ok m -> adm_origin U P st o m ->
    origin_step E U P g st no_options o = Ok (Some w') -> 0 <= w'.
