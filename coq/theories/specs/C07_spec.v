(* C07_spec.v — every network accepted by validation can be stepped and compiled. *)
From Coq Require Import Reals List String.
From SM Require Import Num NumR NumPR Graph Engine Expr Types Blocks Validity Sym ToFunction.
From SM.specs Require Import GraphWF C01_spec.
From Coq Require Import List.
Import ListNotations.
Local Open Scope R_scope.

(* (i)+(ii) stepping succeeds with every option set, and every next state has the length of its
   state: none of the Python failure points the model makes explicit (assert len(links) == 1,
   first of an empty view, None flow at a source node, missing key, shape mismatch) is reachable *)
Definition steps_with_all_options (E : engine R) : Prop :=
  forall U (P : params R) g (st : state R) opts,
    wf_graph g -> validb U g = true ->
    (forall e, In e (g_edges g) -> wf_link U st (e_link e)) ->
    (forall e, In e (g_edges g) -> lp P (e_link e) Pturn <> 0) ->
    (forall e, In e (g_edges g) -> lp P (e_link e) Prhocrit <> 0) ->
    exists out,
      network_step E U P g opts st = Ok out /\
      map fst (o_links out) = map e_link (links g) /\
      (forall x, In x (o_links out) ->
         length (fst (snd x)) = length (s_rho st (fst x)) /\ length (snd (snd x)) = length (s_v st (fst x))) /\
      map fst (o_queues out) = map fst (origins_dict g).

(* (iii) compiling succeeds at every level, with and without the extra flow outputs *)
Definition link_shapes_ok (U : universe) (g : graph) : Prop :=
  forall e, In e (g_edges g) ->
    (1 <= lN (linkd U (e_link e)))%nat /\
    match lvsl (linkd U (e_link e)) with
    | Some vsl => NoDup vsl /\ Forall (fun j => (j < lN (linkd U (e_link e)))%nat) vsl
    | None => True
    end.
Definition compiles_at_every_level : Prop :=
  forall nm U g opts has_delta has_phi compact more_out,
    wf_graph g -> validb U g = true -> link_shapes_ok U g ->
    exists outs, tf_outputs cs_engine nm U (Sym.sym_params has_delta has_phi) g opts compact more_out = Ok outs.

(* (iv) the mechanism the property names: the mainstream-origin flow is defined (no nan / inf born
   from finite inputs) on the whole admissible domain INCLUDING zero speed, thanks to the log-ratio
   guard; likewise the ramp laws *)
Definition mainstream_defined (f : PR -> PR -> PR -> PR -> PR -> PR -> PR -> PR -> PR -> PR) : Prop :=
  forall d w vctrl v1 rc a vf lanes T,
    0 < T -> 0 <= vctrl -> 0 <= v1 -> 0 < rc -> 0 < a -> 0 < vf ->
    defined (f (Some d) (Some w) (Some vctrl) (Some v1) (Some rc) (Some a) (Some vf) (Some lanes) (Some T)).
Definition ramp_defined (f : PR -> PR -> PR -> PR -> PR -> PR -> PR -> PR -> string -> PR) : Prop :=
  forall d w C r rmax r1 rc T ty, 0 < T -> rc < rmax ->
    defined (f (Some d) (Some w) (Some C) (Some r) (Some rmax) (Some r1) (Some rc) (Some T) ty).
