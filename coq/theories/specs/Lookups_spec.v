(* Lookups_spec.v - the source text of Network's derived look-ups and of the two link views that Graph.v, Cache.v,
   Construct.v and the layout model were written from (docstrings, annotations, comments removed; as re-printed by
   Python's ast.unparse).  gen/Lookups.v is the same table read off network.py / views.py on every run.

   What each stands for in the models:
     nodes_by_name, links_by_name, origins_by_name, destinations_by_name   name -> element dictionaries in graph / link /
                                                  dictionary order, a later element with the same name replacing the value
     links / out_links / in_links                 Graph.links, out_links, in_links (networkx adjacency order)
     nodes_by_link                                Graph.nodes_of_link (last occurrence of a link object wins)
     origins / destinations                       Graph.origins_dict / dests_dict (node order, Graph.dict_set)
     origins_by_node / destinations_by_node       Graph.origin_at / dest_at restricted to the dictionary's values
     elements                                     links, then origins, then destinations: the enumeration order of
                                                  Network.step's first loop and of to_function's arguments (C04, C14)
     states / next_states                         the dictionaries of the elements that have them, in that order
   This is a PIN of source text, not a translation: the equality below holds exactly as long as these bodies are
   untouched. *)
From Coq Require Import List String.
Import ListNotations.
Open Scope string_scope.

Definition expected_lookup_bodies : list (string * string) :=
  [("nodes_by_name", "@cached_property (self): return {node.name: node for node in self._graph.nodes}");
   ("links", "@cached_property (self): return OutLinkViewWrapper(self._graph)");
   ("out_links", "@property (self): return self.links");
   ("in_links", "@cached_property (self): return InLinkViewWrapper(self._graph)");
   ("links_by_name", "@cached_property (self): return {link.name: link for _, _, link in self.links}");
   ("nodes_by_link", "@cached_property (self): return {link: (unode, dnode) for unode, dnode, link in self.links}");
   ("origins", "@cached_property (self): return {data[ORIGINENTRY]: node for node, data in self._graph.nodes.data() if ORIGINENTRY in data}");
   ("origins_by_name", "@cached_property (self): return {origin.name: origin for origin in self.origins}");
   ("origins_by_node", "@cached_property (self): d = self.origins ; return dict(zip(d.values(), d.keys()))");
   ("destinations", "@cached_property (self): return {data[DESTINATIONENTRY]: node for node, data in self._graph.nodes.data() if DESTINATIONENTRY in data}");
   ("destinations_by_name", "@cached_property (self): return {destination.name: destination for destination in self.destinations}");
   ("destinations_by_node", "@cached_property (self): d = self.destinations ; return dict(zip(d.values(), d.keys()))");
   ("elements", "@property (self): return chain((link[-1] for link in self.links), self.origins, self.destinations)");
   ("states", "@property (self): return {el: el.states for el in self.elements if el.has_states}");
   ("next_states", "@property (self): return {el: el.next_states for el in self.elements if el.has_next_states}");
   ("views.OutLinkViewWrapper.__getitem__", "@ (self, e): return super().__getitem__(e)[LINKENTRY]");
   ("views.OutLinkViewWrapper.__iter__", "@ (self): for un, dns in self._nodes_nbrs():     for dn, l in dns.items():         yield (un, dn, l[LINKENTRY])");
   ("views.OutLinkViewWrapper.__call__", "@ (self, nbunch=None, data=LINKENTRY, default=None): return super().__call__(nbunch, data, default=default)");
   ("views.OutLinkViewWrapper.<bases>", "nx.classes.reportviews.OutEdgeView");
   ("views.InLinkViewWrapper.__getitem__", "@ (self, e): return super().__getitem__(e)[LINKENTRY]");
   ("views.InLinkViewWrapper.__iter__", "@ (self): for un, dns in self._nodes_nbrs():     for dn, l in dns.items():         yield (un, dn, l[LINKENTRY])");
   ("views.InLinkViewWrapper.__call__", "@ (self, nbunch=None, data=LINKENTRY, default=None): return super().__call__(nbunch, data, default=default)");
   ("views.InLinkViewWrapper.<bases>", "nx.classes.reportviews.InEdgeView")].

Definition lookups_as_modelled (t : list (string * string)) : Prop := t = expected_lookup_bodies.
