(* Pin_cache_spec.v - the source text (docstrings, annotations, comments removed; as re-printed by ast.unparse) of
   util/funcs.py: first, invalidate_cache: what Cache.v models together with functools.cached_property (C08).
   gen/Pin_cache.v is the same table read off /repo on every run.  A PIN of text, not a translation: it proves nothing
   about what the text means (the correspondence does that) - it guarantees that no edit of it goes unnoticed. *)
From Coq Require Import List String.
Import ListNotations.
Open Scope string_scope.

Definition expected_pin_cache : list (string * string) :=
  [("util/funcs.py:first", "@ (o): return next(iter(o))");
   ("util/funcs.py:invalidate_cache", "@ (*callables): if not callables:     raise ValueError('No callables were passed for cache invalidation.') ; cached_properties: _ = [] ; lru_caches: _ = [] ; for p in callables:     if isinstance(p, cached_property):         cached_properties.append(p)     elif hasattr(p, 'cache_clear'):         lru_caches.append(p)     else:         raise TypeError(f'Expected cached properties or lru wrappers; got {p.__class__.__name__} instead.') ; Ncp = len(cached_properties) ; if Ncp == 0:     invalidate_cached_properties = None elif Ncp == 1:     prop = cached_properties[0]      def invalidate_cached_properties(self):         propname = prop.attrname         if propname in self.__dict__:             del self.__dict__[propname] else:      def invalidate_cached_properties(self):         for prop in cached_properties:             propname = prop.attrname             if propname in self.__dict__:                 del self.__dict__[propname] ; Nlru = len(lru_caches) ; if Nlru == 0:     invalidate_lru_caches = None elif Nlru == 1:     lru_cache = lru_caches[0]      def invalidate_lru_caches():         lru_cache.cache_clear() else:      def invalidate_lru_caches():         for lru_cache in lru_caches:             lru_cache.cache_clear() ; def decorating_function(func):      @wraps(func)     def wrapper(*args, **kwargs):         if invalidate_cached_properties is not None and args:             invalidate_cached_properties(args[0])         if invalidate_lru_caches is not None:             invalidate_lru_caches()         return func(*args, **kwargs)     return wrapper ; return decorating_function")].

Definition cache_source_as_modelled (t : list (string * string)) : Prop := t = expected_pin_cache.
