(* C18_spec.v — neutral controls reproduce the uncontrolled model; limits never raise speeds.
   "Infinite" is stated as "at or above the threshold at which the limit stops binding", which
   every infinite (or merely large enough) value satisfies; the literal IEEE inf is exercised by
   the dynamic runs. *)
From Coq Require Import Reals List String.
From SM Require Import Num NumR Graph Engine Expr Types Blocks Spec.
From Coq Require Import List.
Import ListNotations.
Local Open Scope R_scope.

Section Prim.
Variable Veq : list R -> R -> R -> R -> list R.
Variable cVeq : list R -> list R -> list nat -> R -> R -> R -> R -> list R.
Variable step_v : list R -> list R -> list R -> list R -> list R -> R -> R -> R -> R -> R -> R ->
                  option R -> option R -> option R -> option R -> option R -> list R.
Variable ramp : R -> R -> R -> R -> R -> R -> R -> R -> string -> R.
Variable simp : R -> R -> R -> R -> R -> R -> R -> R -> string -> R.
Variable main : R -> R -> R -> R -> R -> R -> R -> R -> R -> R.

Definition vsl_ok (N : nat) (vsl : list nat) (vc : list R) : Prop :=
  NoDup vsl /\ Forall (fun j => (j < N)%nat) vsl /\ length vc = length vsl.

(* limits at or above the equilibrium speed (in particular infinite), or no limited segment:
   the controlled equilibrium speed IS the plain one *)
Definition neutral_limits_are_plain : Prop :=
  forall rho vc vsl al vf rc a, vsl_ok (length rho) vsl vc ->
    (forall k, (k < length vsl)%nat ->
       nth (nth k vsl O) (Veq rho vf rc a) 0 <= (1 + al) * nth k vc 0) ->
    cVeq rho vc vsl al vf rc a = Veq rho vf rc a.

(* any limit: never above the plain equilibrium speed, untouched on unlisted segments *)
Definition limits_only_lower : Prop :=
  forall rho vc vsl al vf rc a i, vsl_ok (length rho) vsl vc -> (i < length rho)%nat ->
    nth i (cVeq rho vc vsl al vf rc a) 0 <= nth i (Veq rho vf rc a) 0 /\
    (~ In i vsl -> nth i (cVeq rho vc vsl al vf rc a) 0 = nth i (Veq rho vf rc a) 0).

(* the speed update is monotone in the equilibrium speed (T/tau >= 0): a finite limit never
   increases any next speed *)
Definition speed_update_monotone : Prop :=
  forall v vu r rd V V' lanes L tau eta kappa T qr de ld ph rc i,
    0 <= T / tau -> (i < length v)%nat ->
    length vu = length v -> length r = length v -> length rd = length v ->
    length V = length v -> length V' = length v ->
    nth i V' 0 <= nth i V 0 ->
    nth i (step_v v vu r rd V' lanes L tau eta kappa T qr de ld ph rc) 0 <=
    nth i (step_v v vu r rd V lanes L tau eta kappa T qr de ld ph rc) 0.

Definition rate_one_variants_coincide : Prop :=
  forall d w C rmax r1 rc T,
    ramp d w C 1 rmax r1 rc T "in" = ramp d w C 1 rmax r1 rc T "out".

Definition unbounded_desired_flow_is_rate_one : Prop :=
  forall qdes d w C rmax r1 rc T,
    ramp d w C 1 rmax r1 rc T "out" <= qdes ->
    simp qdes d w C rmax r1 rc T "limited" = ramp d w C 1 rmax r1 rc T "out".

Definition mainstream_limit_neutral : Prop :=
  forall d w vctrl v1 rc a vf lanes T, v1 <= vctrl ->
    main d w vctrl v1 rc a vf lanes T = main d w v1 v1 rc a vf lanes T.

Definition neutral_controls : Prop :=
  neutral_limits_are_plain /\ limits_only_lower /\ speed_update_monotone /\
  rate_one_variants_coincide /\ unbounded_desired_flow_is_rate_one /\ mainstream_limit_neutral.
End Prim.

(* link level (Blocks.v): the two link classes differ only in link_Veq; link_raw_V is the common
   update for a given equilibrium-speed vector, and a plain link uses e_Veq *)
Definition plain_link_uses_Veq (E : engine R) : Prop :=
  forall U P g st m, lvsl (linkd U m) = None ->
    link_raw E U P g st m =
    link_raw_V E U P g st (e_Veq E (s_rho st m) (lp P m Pvfree) (lp P m Prhocrit) (lp P m Pa)) m.

(* a speed-limited link with neutral limits (or no limited segment) steps exactly like that *)
Definition neutral_link_steps_like_plain (E : engine R) : Prop :=
  forall U P g st m vsl,
    lvsl (linkd U m) = Some vsl ->
    vsl_ok (length (s_rho st m)) vsl (s_vc st m) ->
    (forall k, (k < length vsl)%nat ->
       nth (nth k vsl O) (e_Veq E (s_rho st m) (lp P m Pvfree) (lp P m Prhocrit) (lp P m Pa)) 0
       <= (1 + lp P m Palpha) * nth k (s_vc st m) 0) ->
    link_raw E U P g st m =
    link_raw_V E U P g st (e_Veq E (s_rho st m) (lp P m Pvfree) (lp P m Prhocrit) (lp P m Pa)) m.

(* any limits: same next densities, no next speed above the plain link's *)
Definition limited_link_never_faster (E : engine R) : Prop :=
  forall U P g st m vsl r v r0 v0,
    lvsl (linkd U m) = Some vsl ->
    vsl_ok (length (s_rho st m)) vsl (s_vc st m) ->
    0 <= gT P / gtau P ->
    length (s_v st m) = length (s_rho st m) -> lN (linkd U m) = length (s_rho st m) ->
    (1 <= length (s_rho st m))%nat ->
    link_raw E U P g st m = Ok (r, v) ->
    link_raw_V E U P g st (e_Veq E (s_rho st m) (lp P m Pvfree) (lp P m Prhocrit) (lp P m Pa)) m
      = Ok (r0, v0) ->
    r = r0 /\ forall i, (i < length (s_rho st m))%nat -> nth i v 0 <= nth i v0 0.
