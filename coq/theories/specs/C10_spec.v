(* C10_spec.v — each next state depends only on its own segment and its model neighbours:
   two states (same parameters, same graph) that agree on the neighbourhood of a segment /
   origin give it the same next value.  Everything outside the listed quantities - any other
   segment, link, origin or destination of the network - is left unconstrained. *)
From Coq Require Import Reals List.
From SM Require Import Num NumR Graph Expr Types Spec.
From Coq Require Import List.
Import ListNotations.
Local Open Scope R_scope.

Section C10.
Variable U : universe.
Variable P : params R.
Variable g : graph.
Variables st st' : state R.

(* density and speed of one segment *)
Definition seg_eq (m i : nat) : Prop := srho st m i = srho st' m i /\ svel st m i = svel st' m i.
(* queue, demand and control of an origin, and the first segment of the link it feeds *)
Definition origin_eq (n : nat) : Prop :=
  match origin_at g n, out_links g n with
  | Some o, e1 :: _ =>
      s_w st o = s_w st' o /\ s_do st o = s_do st' o /\ s_uo st o = s_uo st' o /\
      seg_eq (e_link e1) 0
  | _, _ => True
  end.
(* what the node upstream of e feeds into e: last segments of the entering links, the origin *)
Definition upstream_eq (e : edge) : Prop :=
  (forall e', In e' (in_links g (e_up e)) -> seg_eq (e_link e') (slastseg U (e_link e'))) /\
  origin_eq (e_up e).
(* the density immediately downstream of the last segment of e *)
Definition downstream_eq (e : edge) : Prop :=
  match dest_at g (e_down e) with
  | Some d => s_dd st d = s_dd st' d
  | None => forall e', In e' (out_links g (e_down e)) -> srho st (e_link e') 0 = srho st' (e_link e') 0
  end.

Definition nb_rho (e : edge) (i : nat) : Prop :=
  seg_eq (e_link e) i /\
  (if Nat.eqb i 0 then upstream_eq e else seg_eq (e_link e) (i - 1)).

Definition nb_v (e : edge) (i : nat) : Prop :=
  seg_eq (e_link e) i /\
  (if Nat.eqb i 0 then upstream_eq e else svel st (e_link e) (i - 1) = svel st' (e_link e) (i - 1)) /\
  (if Nat.eqb i (slastseg U (e_link e)) then downstream_eq e
   else srho st (e_link e) (i + 1) = srho st' (e_link e) (i + 1)) /\
  (* own speed limit *)
  match lvsl (linkd U (e_link e)) with
  | Some vsl => match index_of i vsl with
                | Some k => nth k (s_vc st (e_link e)) zero = nth k (s_vc st' (e_link e)) zero
                | None => True
                end
  | None => True
  end.

Definition locality : Prop :=
  (forall e i, nb_rho e i -> spec_rho_next U P g st e i = spec_rho_next U P g st' e i) /\
  (forall e i, nb_v e i -> spec_v_next U P g st e i = spec_v_next U P g st' e i) /\
  (forall n o e1 l, origin_at g n = Some o -> out_links g n = e1 :: l -> origin_eq n ->
     spec_w_next U P st o (e_link e1) = spec_w_next U P st' o (e_link e1)).
End C10.

(* the same on the element-layer MODEL (the regenerated engines): two steps of a valid network from states
   that agree on the neighbourhood of a segment return the same value for that segment *)
From SM Require Import Engine Blocks Validity.
From SM.specs Require Import GraphWF C01_spec.
Definition model_locality (E : engine R) : Prop :=
  forall U (P : params R) g (st st' : state R),
    wf_graph g -> validb U g = true ->
    (forall e, In e (g_edges g) -> wf_link U st (e_link e)) ->
    (forall e, In e (g_edges g) -> wf_link U st' (e_link e)) ->
    (forall e, In e (g_edges g) -> lp P (e_link e) Pturn <> 0) ->
    (forall e, In e (g_edges g) -> lp P (e_link e) Prhocrit <> 0) ->
    exists out out',
      network_step E U P g no_options st = Ok out /\
      network_step E U P g no_options st' = Ok out' /\
      forall e r r', In (e, r) (combine (links g) (o_links out)) ->
                     In (e, r') (combine (links g) (o_links out')) ->
        forall i, (i < lN (linkd U (e_link e)))%nat ->
          (nb_rho U g st st' e i -> nth i (fst (snd r)) 0 = nth i (fst (snd r')) 0) /\
          (nb_v U g st st' e i -> nth i (snd (snd r)) 0 = nth i (snd (snd r')) 0).
