(* InitVars_spec.v - what the life-cycle model (Lifecycle.v), the clamping model (Blocks.init_state) and the purity
   statements assume about every element class's init_vars, as a table of effects; gen/InitVars.v is the table READ
   OFF blocks/*.py by translator/initvars.py on every run.

   ESet g [(n, FromGivenOrVar k sz)]  self.g = {n: init_conditions[k] if k in init_conditions else engine.var(f"{k}_{self.name}", sz)}
                                      - a NEW dictionary is bound; the supplied one is only read
   EResetNext                         self.next_states = None
   EClamp f g n                       if f: self.g[n] = engine.max(0, self.g[n])
   EDel g n / ESetItem g n src        del self.g[n] / self.g[n] = <given or new>
   (a super().init_vars(...) call is replaced by the effects of the method it resolves to; the translator insists that
   it hands on the caller's init_conditions, engine and every positive_init_* flag under its own name) *)
From Coq Require Import List String Bool.
Import ListNotations.
Open Scope string_scope.

Inductive vsize := SOne | SSegments | SSigns.
Inductive src := FromGivenOrVar (key : string) (size : vsize).
Inductive effect :=
  | ESet (group : string) (entries : list (string * src))
  | EResetNext
  | EClamp (flag group name : string)
  | EDel (group name : string)
  | ESetItem (group name : string) (s : src).

Definition link_effects : list effect :=
  [ESet "states" [("rho", FromGivenOrVar "rho" SSegments); ("v", FromGivenOrVar "v" SSegments)];
   EResetNext;
   EClamp "positive_init_density" "states" "rho";
   EClamp "positive_init_speed" "states" "v"].
Definition queued_effects (action : string) : list effect :=
  [ESet "states" [("w", FromGivenOrVar "w" SOne)];
   EResetNext;
   ESet "actions" [(action, FromGivenOrVar action SOne)];
   ESet "disturbances" [("d", FromGivenOrVar "d" SOne)];
   EClamp "positive_init_queue" "states" "w"].

Definition expected_init_effects : list (string * list effect) :=
  [("Link", link_effects);
   ("LinkWithVsl", (link_effects ++ [ESet "actions" [("v_ctrl", FromGivenOrVar "v_ctrl" SSigns)]])%list);
   ("Origin", []);
   ("MainstreamOrigin", queued_effects "v_ctrl");
   ("MeteredOnRamp", queued_effects "r");
   ("SimplifiedMeteredOnRamp", (queued_effects "r" ++ [EDel "actions" "r"; ESetItem "actions" "q" (FromGivenOrVar "q" SOne)])%list);
   ("Destination", []);
   ("CongestedDestination", [ESet "disturbances" [("d", FromGivenOrVar "d" SOne)]])].

Definition init_vars_as_modelled (t : list (string * list effect)) : Prop := t = expected_init_effects.

(* ---- consequences read by the other models, stated for any table ---- *)
Definition src_key (s : src) : string := match s with FromGivenOrVar k _ => k end.

(* every variable is looked up in the supplied conditions under its own name *)
Definition own_keyb (e : effect) : bool :=
  match e with
  | ESet _ ents => forallb (fun ns => String.eqb (fst ns) (src_key (snd ns))) ents
  | ESetItem _ n s => String.eqb n (src_key s)
  | _ => true
  end.
Definition every_variable_under_its_own_name (t : list (string * list effect)) : Prop :=
  forall c effs e, In (c, effs) t -> In e effs -> own_keyb e = true.

(* the clamps: densities and speeds of links, queues of origins, each under its own flag, and nothing else *)
Definition clamps_of (effs : list effect) : list (string * string * string) :=
  flat_map (fun e => match e with EClamp f g n => [(f, g, n)] | _ => [] end) effs.
Definition documented_clamps (c : string) : list (string * string * string) :=
  if (String.eqb c "Link" || String.eqb c "LinkWithVsl")%bool
  then [("positive_init_density", "states", "rho"); ("positive_init_speed", "states", "v")]
  else if (String.eqb c "MainstreamOrigin" || String.eqb c "MeteredOnRamp" || String.eqb c "SimplifiedMeteredOnRamp")%bool
  then [("positive_init_queue", "states", "w")]
  else [].
Definition clamps_are_the_documented_ones (t : list (string * list effect)) : Prop :=
  forall c effs, In (c, effs) t -> clamps_of effs = documented_clamps c.

(* a class that binds its states also drops its next states, and does so before any clamp *)
Fixpoint reset_before_clamps (seen_reset : bool) (effs : list effect) : bool :=
  match effs with
  | [] => true
  | EResetNext :: r => reset_before_clamps true r
  | EClamp _ _ _ :: r => seen_reset && reset_before_clamps seen_reset r
  | _ :: r => reset_before_clamps seen_reset r
  end.
Definition sets_states (effs : list effect) : bool :=
  existsb (fun e => match e with ESet g _ => String.eqb g "states" | _ => false end) effs.
Definition has_reset (effs : list effect) : bool :=
  existsb (fun e => match e with EResetNext => true | _ => false end) effs.
Definition states_bound_means_next_dropped (t : list (string * list effect)) : Prop :=
  forall c effs, In (c, effs) t ->
    (sets_states effs = true -> has_reset effs = true) /\ reset_before_clamps false effs = true.

(* the keys an element's `actions` dictionary ends up with *)
Fixpoint final_keys (g : string) (acc : list string) (effs : list effect) : list string :=
  match effs with
  | [] => acc
  | ESet g' ents :: r => final_keys g (if String.eqb g g' then map fst ents else acc) r
  | EDel g' n :: r => final_keys g (if String.eqb g g' then filter (fun k => negb (String.eqb k n)) acc else acc) r
  | ESetItem g' n _ :: r =>
      final_keys g (if String.eqb g g' then (if existsb (String.eqb n) acc then acc else (acc ++ [n])%list) else acc) r
  | _ :: r => final_keys g acc r
  end.
Definition documented_actions (c : string) : list string :=
  if String.eqb c "LinkWithVsl" then ["v_ctrl"] else if String.eqb c "MainstreamOrigin" then ["v_ctrl"]
  else if String.eqb c "MeteredOnRamp" then ["r"] else if String.eqb c "SimplifiedMeteredOnRamp" then ["q"] else [].
Definition control_inputs_as_documented (t : list (string * list effect)) : Prop :=
  forall c effs, In (c, effs) t -> final_keys "actions" [] effs = documented_actions c.
