(* NxSupport.v — the networkx.DiGraph primitives the construction calls of Network make, over the graph
   representation of Construct.v (nodes and edges in insertion order, a node's attribute dictionary reduced
   to its origin / destination entries, an edge's to its link entry).  The regenerated text of the construction
   calls (gen/ConstructGen.v, translator/construct.py) is written over these.  No proofs here. *)
From Coq Require Import List Arith Bool.
From SM Require Import Graph Construct.
Import ListNotations.

Inductive attr := AOrig (o : nat) | ADest (d : nat).
Definition set_attr (c : cnode) (a : attr) : cnode :=
  match a with
  | AOrig o => {| c_obj := c_obj c; c_orig := Some o; c_dest := c_dest c |}
  | ADest d => {| c_obj := c_obj c; c_orig := c_orig c; c_dest := Some d |}
  end.

(* DiGraph.add_node(x, **attrs): a new node gets the attributes, an existing one has them updated *)
Definition nx_add_node (g : cgraph) (x : obj) (attrs : list attr) : cgraph :=
  if has_node g x
  then {| c_nodes := upd_node (fun c => fold_left set_attr attrs c) x (c_nodes g); c_edges := c_edges g |}
  else {| c_nodes := c_nodes g ++ [fold_left set_attr attrs {| c_obj := x; c_orig := None; c_dest := None |}];
          c_edges := c_edges g |}.
(* G.nodes[x][key] = value, for a node x of the graph *)
Definition nx_set_node_attr (g : cgraph) (x : obj) (a : attr) : cgraph :=
  {| c_nodes := upd_node (fun c => set_attr c a) x (c_nodes g); c_edges := c_edges g |}.
Definition nx_add_nodes_from (g : cgraph) (xs : list obj) : cgraph :=
  fold_left (fun g x => nx_add_node g x []) xs g.
(* DiGraph.add_edge(u, v, link=l): missing end nodes are created (u first); an existing edge keeps its position *)
Definition nx_add_edge (g : cgraph) (u v l : obj) : cgraph :=
  let g := nx_add_node (nx_add_node g u []) v [] in
  if has_edge g u v
  then {| c_nodes := c_nodes g;
          c_edges := map (fun e => if obj_eqb (c_up e) u && obj_eqb (c_down e) v
                                   then {| c_up := u; c_down := v; c_link := l |} else e) (c_edges g) |}
  else {| c_nodes := c_nodes g; c_edges := c_edges g ++ [{| c_up := u; c_down := v; c_link := l |}] |}.
(* DiGraph.add_edges_from of triples (u, v, {link: l}) *)
Definition nx_add_edges_from (g : cgraph) (es : list (obj * obj * obj)) : cgraph :=
  fold_left (fun g e => let '(u, v, l) := e in nx_add_edge g u v l) es g.

Definition is_none {T} (o : option T) : bool := match o with None => true | Some _ => false end.
(* lst[-1:] *)
Definition last_slice {T} (l : list T) : list T := match rev l with [] => [] | x :: _ => [x] end.
