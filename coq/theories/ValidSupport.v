(* ValidSupport.v — the few Python containers the regenerated text of Network.is_valid (gen/ValidGen.v,
   translator/validity.py) is written over: a dictionary from objects to counts as an association list
   keyed by identity (kind + id), `key in data` on a node's attribute dictionary.  No proofs here. *)
From Coq Require Import List Arith Bool.
From SM Require Import Graph Types Validity.
Import ListNotations.

Definition is_some {T} (o : option T) : bool := match o with Some _ => true | None => false end.

(* count.get(o, default) *)
Fixpoint cnt_get (c : list (elem * nat)) (k : elem) (default : nat) : nat :=
  match c with
  | [] => default
  | (k', v) :: c' => if elem_eqb k' k then v else cnt_get c' k default
  end.
(* count[o] = v : an existing key keeps its position *)
Fixpoint cnt_set (c : list (elem * nat)) (k : elem) (v : nat) : list (elem * nat) :=
  match c with
  | [] => [(k, v)]
  | (k', v') :: c' => if elem_eqb k' k then (k', v) :: c' else (k', v') :: cnt_set c' k v
  end.
