(* Validity.v — executable model of Network.is_valid (network.py:384-507): the four
   passes in the code's order, messages as data.  No proofs here. *)
From Coq Require Import List Arith Bool.
From SM Require Import Graph Types.
Import ListNotations.

Inductive elem := EL (l : nat) | EO (o : nat) | ED (d : nat).
Definition elem_eqb (x y : elem) : bool :=
  match x, y with
  | EL a, EL b | EO a, EO b | ED a, ED b => Nat.eqb a b
  | _, _ => false
  end.

Inductive msg :=
| MDup (x : elem)            (* (1) element duplicated *)
| MBoth (n : nat)            (* (2) origin and destination on one node *)
| MIsolated (n : nat)        (* (3) no entering and no exiting link *)
| MNoOrigin (n : nat)        (* (4) no entering link and no origin *)
| MNoDest (n : nat)          (* (5) no exiting link and no destination *)
| MOrigIn (n o : nat)        (* (6) non-ramp origin on a node with entering links *)
| MOrigOut (n o : nat)       (* (7) origin node with several exiting links *)
| MDestIn (n d : nat)        (* (8) destination node with several entering links *)
| MDestOut (n d : nat).      (* (9) destination node with exiting links *)

Definition opt_list {T U} (f : T -> U) (o : option T) : list U :=
  match o with Some x => [f x] | None => [] end.

(* the objects counted by pass (1), in the code's order *)
Definition counted (g : graph) : list elem :=
  map (fun e => EL (e_link e)) (links g)
  ++ flat_map (fun ne => opt_list EO (n_orig ne) ++ opt_list ED (n_dest ne)) (g_nodes g).

Fixpoint dup_msgs (seen l : list elem) : list msg :=
  match l with
  | [] => []
  | x :: l' => (if existsb (elem_eqb x) seen then [MDup x] else []) ++ dup_msgs (x :: seen) l'
  end.

Definition isnil {T} (l : list T) : bool := match l with [] => true | _ => false end.

Definition node_msgs (g : graph) (ne : node_entry) : list msg :=
  let n := nid ne in
  let n_in := length (in_links g n) in
  let n_out := length (out_links g n) in
  (match n_orig ne, n_dest ne with Some _, Some _ => [MBoth n] | _, _ => [] end)
  ++ (if (n_in =? 0) && (n_out =? 0) then [MIsolated n] else [])
  ++ (if (n_in =? 0) && isnil (opt_list id (n_orig ne)) then [MNoOrigin n] else [])
  ++ (if (n_out =? 0) && isnil (opt_list id (n_dest ne)) then [MNoDest n] else []).

Section WithU.
Variable U : universe.

Definition origin_msgs (g : graph) (on : nat * nat) : list msg :=
  let '(o, n) := on in
  (if negb (is_ramp (okind_of U o)) && negb (isnil (in_links g n)) then [MOrigIn n o] else [])
  ++ (if 1 <? length (out_links g n) then [MOrigOut n o] else []).

Definition dest_msgs (g : graph) (dn : nat * nat) : list msg :=
  let '(d, n) := dn in
  (if 1 <? length (in_links g n) then [MDestIn n d] else [])
  ++ (if negb (isnil (out_links g n)) then [MDestOut n d] else []).

Definition is_valid_msgs (g : graph) : list msg :=
  dup_msgs [] (counted g)
  ++ flat_map (node_msgs g) (g_nodes g)
  ++ flat_map (origin_msgs g) (origins_dict g)
  ++ flat_map (dest_msgs g) (dests_dict g).

Definition validb (g : graph) : bool := isnil (is_valid_msgs g).

(* is_valid(raises): the verdict, the messages and, with raises=True, the raised message *)
Record verdict := { v_ok : bool; v_msgs : list msg; v_raised : option msg }.
Definition is_valid (raises : bool) (g : graph) : verdict :=
  let ms := is_valid_msgs g in
  match ms with
  | m :: _ => if raises then {| v_ok := false; v_msgs := [m]; v_raised := Some m |}
              else {| v_ok := false; v_msgs := ms; v_raised := None |}
  | [] => {| v_ok := true; v_msgs := []; v_raised := None |}
  end.
End WithU.
