(* NumPR.v — "partial reals": None is *undefined* (an IEEE NaN/inf born from finite
   inputs): division by 0, log of a non-positive number, power of a negative base
   or 0^y with y <= 0.  Every operator propagates None; iflt evaluates only the
   selected branch (CasADi if_else / Python conditional semantics on defined
   conditions).  Used for the finiteness clauses of C07 / C15. *)
From Coq Require Import Reals Qreals.
From SM Require Import Num NumR.
Local Open Scope R_scope.

Definition PR := option R.

Definition pr1 (f : R -> R) (a : PR) : PR :=
  match a with Some x => Some (f x) | None => None end.
Definition pr2 (f : R -> R -> R) (a b : PR) : PR :=
  match a, b with Some x, Some y => Some (f x y) | _, _ => None end.
Definition pr_div (a b : PR) : PR :=
  match a, b with
  | Some x, Some y => if Req_EM_T y 0 then None else Some (x / y)
  | _, _ => None
  end.
Definition pr_log (a : PR) : PR :=
  match a with
  | Some x => if Rlt_dec 0 x then Some (ln x) else None
  | None => None
  end.
Definition pr_pow (a b : PR) : PR :=
  match a, b with
  | Some x, Some y =>
      if Rlt_dec 0 x then Some (Rpower x y)
      else if Req_EM_T x 0 then (if Rlt_dec 0 y then Some 0 else None)
      else None
  | _, _ => None
  end.
Definition pr_iflt (a b t e : PR) : PR :=
  match a, b with
  | Some x, Some y => if Rlt_dec x y then t else e
  | _, _ => None
  end.

#[global] Instance NumPR : Num PR := {|
  ofQ := fun q => Some (Q2R q); add := pr2 Rplus; sub := pr2 Rminus; mul := pr2 Rmult;
  div := pr_div; neg := pr1 Ropp; sq := pr1 (fun x => x * x); nexp := pr1 exp;
  nlog := pr_log; npow := pr_pow; nmin := pr2 Rmin; nmax := pr2 Rmax; iflt := pr_iflt |}.

(* the defined part of a partial real refines the real it would be in NumR *)
Definition refines (p : PR) (r : R) : Prop := forall x, p = Some x -> x = r.
Definition defined (p : PR) : Prop := exists x, p = Some x.
