(* Lifecycle.v — model of the variable slots of the elements of a network across
   init_vars / step / to_function (blocks/base.py:56-122, the init_vars of links / origins /
   destinations, network.py:509-574, engines/casadi.py:281-325).  Symbols are tracked by
   generation: every init_vars with engine symbols creates symbols of a fresh generation; numbers
   are generation-free.  No proofs here. *)
From Coq Require Import List Arith Bool.
Import ListNotations.

(* where the variables of an initialisation come from *)
Inductive src := Symbols | Numbers.

Record slot := {
  vars : option (option nat);        (* None: not initialised; Some None: numbers; Some (Some g): symbols of generation g *)
  next : option (list nat)           (* None: not stepped since the last initialisation;
                                        Some gs: next states computed from symbols of generations gs *)
}.
Definition empty_slot : slot := {| vars := None; next := None |}.

(* static description of the network the history runs on *)
Record lnet := {
  elems : list nat;                             (* Network.elements *)
  declares_any : nat -> bool;                   (* some of _states/_actions/_disturbances non-empty *)
  declares_states : nat -> bool;                (* _states non-empty *)
  needs : nat -> list nat                       (* elements whose variables the step of this one reads *)
}.

Record lstate := { slots : nat -> slot; gen : nat; members : list nat }.   (* members: elements in the network *)
Definition linit (n : lnet) : lstate := {| slots := fun _ => empty_slot; gen := 1; members := elems n |}.

Definition upd {T} (f : nat -> T) (k : nat) (v : T) : nat -> T := fun x => if Nat.eqb x k then v else f x.
Definition gens_of (s : lstate) (els : list nat) : list nat :=
  flat_map (fun e => match vars (slots s e) with Some (Some g) => [g] | _ => [] end) els.
Definition initialised (s : lstate) (e : nat) : bool :=
  match vars (slots s e) with Some _ => true | None => false end.

Inductive lop :=
| InitVars (e : nat) (k : src)          (* element.init_vars(...) *)
| StepAll (k : src)                     (* Network.step: initialise every member, step every member with states *)
| StepEl (e : nat)                      (* element.step(net=...) *)
| AddElem (e : nat)                     (* a construction call brings a new element into the network *)
| DropElem (e : nat)                    (* a replacement removes an element from the network *)
| ToFunction.

Inductive lres := LOk | LAssert | LTypeErr | LRuntimeError
                | LFunction (sym_elems : list nat).   (* the members whose symbols are the arguments *)

Definition init_one (s : lstate) (e : nat) (k : src) : lstate :=
  match k with
  | Symbols => {| slots := upd (slots s) e {| vars := Some (Some (gen s)); next := None |};
                  gen := S (gen s); members := members s |}
  | Numbers => {| slots := upd (slots s) e {| vars := Some None; next := None |};
                  gen := gen s; members := members s |}
  end.

Section Machine.
Variable n : lnet.

(* the neighbours an element's step actually reads: those of its potential neighbours that are in
   the network and have variables *)
Definition reads (s : lstate) (e : nat) : list nat :=
  filter (fun x => existsb (Nat.eqb x) (members s) && declares_any n x) (needs n e).
Definition step_one (s : lstate) (e : nat) : lstate :=
  {| slots := upd (slots s) e {| vars := vars (slots s e); next := Some (gens_of s (e :: reads s e)) |};
     gen := gen s; members := members s |}.
Definition sym_members (s : lstate) : list nat :=
  filter (fun e => declares_any n e && match vars (slots s e) with Some (Some _) => true | _ => false end)
         (members s).

(* readiness scan of to_function, then the free-symbol rule of casadi.Function *)
Definition ready (s : lstate) : bool :=
  forallb (fun e => implb (declares_any n e) (initialised s e) &&
                    implb (declares_states n e) (match next (slots s e) with Some _ => true | None => false end))
          (members s).
Definition inputs_of (s : lstate) : list nat := gens_of s (filter (declares_any n) (members s)).
Definition outputs_read (s : lstate) : list nat :=
  flat_map (fun e => match next (slots s e) with Some gs => gs | None => [] end)
           (filter (declares_states n) (members s)).
Definition closed (s : lstate) : bool :=
  forallb (fun g => existsb (Nat.eqb g) (inputs_of s)) (outputs_read s).

Definition lstep (s : lstate) (op : lop) : lstate * lres :=
  match op with
  | InitVars e k => (init_one s e k, LOk)
  | StepAll k =>
      let s1 := fold_left (fun s e => init_one s e k) (members s) s in
      let s2 := fold_left (fun s e => if declares_states n e then step_one s e else s) (members s1) s1 in
      (s2, LOk)
  | StepEl e =>
      if negb (declares_states n e) then (s, LOk)                 (* state-less element: nothing to step *)
      else if negb (initialised s e) then (s, LAssert)
      else if forallb (initialised s) (reads s e) then (step_one s e, LOk)
      else (s, LTypeErr)
  | AddElem e => ({| slots := slots s; gen := gen s;
                     members := if existsb (Nat.eqb e) (members s) then members s else members s ++ [e] |}, LOk)
  | DropElem e => ({| slots := slots s; gen := gen s;
                      members := filter (fun x => negb (Nat.eqb x e)) (members s) |}, LOk)
  | ToFunction =>
      if ready s then (if closed s then (s, LFunction (sym_members s)) else (s, LRuntimeError))
      else (s, LRuntimeError)
  end.

Fixpoint lrun (s : lstate) (ops : list lop) : lstate * list lres :=
  match ops with
  | [] => (s, [])
  | op :: ops' => let '(s1, r) := lstep s op in let '(s2, rs) := lrun s1 ops' in (s2, r :: rs)
  end.
End Machine.
