(* Engine.v — the engine record the element layer is parameterised by, filled
   from the two generated modules. *)
From SM Require Import Num.
From SM.gen Require Import EnginesNp EnginesCs.

Record engine (A : Type) := {
  e_up_flow   : list A -> A -> list A -> option A -> A;
  e_up_speed  : list A -> list A -> A;
  e_down_dens : list A -> A;
  e_flow      : list A -> list A -> A -> list A;
  e_step_rho  : list A -> list A -> list A -> A -> A -> A -> list A;
  e_step_v    : list A -> list A -> list A -> list A -> list A -> A -> A -> A -> A -> A -> A ->
                option A -> option A -> option A -> option A -> option A -> list A;
  e_Veq       : list A -> A -> A -> A -> list A;
  e_cVeq      : list A -> list A -> list nat -> A -> A -> A -> A -> list A;
  e_step_w    : A -> A -> A -> A -> A;
  e_main      : A -> A -> A -> A -> A -> A -> A -> A -> A -> A;
  e_ramp      : A -> A -> A -> A -> A -> A -> A -> A -> string -> A;
  e_simp      : A -> A -> A -> A -> A -> A -> A -> A -> string -> A;
  e_dfree     : A -> A -> A;
  e_dcong     : A -> A -> A -> A;
  e_vcat      : list (list A) -> list A;
  e_max       : A -> list A -> list A;
  e_max_s     : A -> A -> A }.
Arguments e_up_flow {A}. Arguments e_up_speed {A}. Arguments e_down_dens {A}.
Arguments e_flow {A}. Arguments e_step_rho {A}. Arguments e_step_v {A}. Arguments e_Veq {A}.
Arguments e_cVeq {A}. Arguments e_step_w {A}. Arguments e_main {A}. Arguments e_ramp {A}.
Arguments e_simp {A}. Arguments e_dfree {A}. Arguments e_dcong {A}. Arguments e_vcat {A}.
Arguments e_max {A}. Arguments e_max_s {A}.

Definition np_engine {A} {NA : Num A} : engine A := {|
  e_up_flow := Np.nodes_get_upstream_flow; e_up_speed := Np.nodes_get_upstream_speed;
  e_down_dens := Np.nodes_get_downstream_density; e_flow := Np.links_get_flow;
  e_step_rho := Np.links_step_density; e_step_v := Np.links_step_speed; e_Veq := Np.links_Veq;
  e_cVeq := Np.links_controlled_Veq; e_step_w := Np.origins_step_queue;
  e_main := Np.origins_get_mainstream_flow; e_ramp := Np.origins_get_ramp_flow;
  e_simp := Np.origins_get_simplifiedramp_flow;
  e_dfree := Np.destinations_get_congestion_free_downstream_density;
  e_dcong := Np.destinations_get_congested_downstream_density;
  e_vcat := Np.engine_vcat; e_max := Np.engine_max; e_max_s := Np.engine_max_s |}.

Definition cs_engine {A} {NA : Num A} : engine A := {|
  e_up_flow := Cs.nodes_get_upstream_flow; e_up_speed := Cs.nodes_get_upstream_speed;
  e_down_dens := Cs.nodes_get_downstream_density; e_flow := Cs.links_get_flow;
  e_step_rho := Cs.links_step_density; e_step_v := Cs.links_step_speed; e_Veq := Cs.links_Veq;
  e_cVeq := Cs.links_controlled_Veq; e_step_w := Cs.origins_step_queue;
  e_main := Cs.origins_get_mainstream_flow; e_ramp := Cs.origins_get_ramp_flow;
  e_simp := Cs.origins_get_simplifiedramp_flow;
  e_dfree := Cs.destinations_get_congestion_free_downstream_density;
  e_dcong := Cs.destinations_get_congested_downstream_density;
  e_vcat := Cs.engine_vcat; e_max := Cs.engine_max; e_max_s := Cs.engine_max_s |}.
