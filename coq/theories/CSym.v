(* CSym.v — prints what a history of construction calls and look-up reads observes. *)
From Coq Require Import List String Arith Bool.
From SM Require Import Graph Expr Construct Cache.
Import ListNotations.
Local Open Scope string_scope.

Definition show_obj (x : obj) : string :=
  match x with ONode n => "n" ++ snat n | OLink l => "l" ++ snat l | OOther k => "x" ++ snat k end.
Definition show_opt (o : option nat) : string := match o with Some k => snat k | None => "-" end.
Fixpoint joins (sep : string) (l : list string) : string :=
  match l with [] => "" | [x] => x | x :: l' => x ++ sep ++ joins sep l' end.

Definition show_cgraph (g : cgraph) : string :=
  "nodes " ++ joins "," (map (fun c => show_obj (c_obj c) ++ ":" ++ show_opt (c_orig c) ++ ":" ++ show_opt (c_dest c))
                             (c_nodes g))
  ++ " links " ++ joins "," (map (fun e => show_obj (c_up e) ++ ">" ++ show_obj (c_link e) ++ ">" ++ show_obj (c_down e))
                                 (clinks g)).

Definition show_cval (v : cval) : string :=
  match v with
  | VNameObj d => joins "," (map (fun kv => snat (fst kv) ++ "=" ++ show_obj (snd kv)) d)
  | VLinkNodes d => joins "," (map (fun kv => show_obj (fst kv) ++ "=" ++ show_obj (fst (snd kv)) ++ ">"
                                              ++ show_obj (snd (snd kv))) d)
  | VIdNode d => joins "," (map (fun kv => snat (fst kv) ++ "=" ++ show_obj (snd kv)) d)
  | VNameId d => joins "," (map (fun kv => snat (fst kv) ++ "=" ++ snat (snd kv)) d)
  | VNodeId d => joins "," (map (fun kv => show_obj (fst kv) ++ "=" ++ snat (snd kv)) d)
  end.
Definition show_key (k : ckey) : string :=
  match k with
  | KNodesByName => "nodes_by_name" | KLinksByName => "links_by_name" | KNodesByLink => "nodes_by_link"
  | KOrigins => "origins" | KOriginsByName => "origins_by_name" | KOriginsByNode => "origins_by_node"
  | KDests => "destinations" | KDestsByName => "destinations_by_name" | KDestsByNode => "destinations_by_node"
  end.
Definition show_cerr (e : option cerr) : string :=
  match e with None => "ok" | Some CTypeErr => "TypeError" | Some CValueErr => "ValueError"
             | Some CStopIter => "StopIteration" | Some CUnbound => "UnboundLocalError" end.

(* error raised by an operation (only add_path can fail in the model) *)
Definition hop_err (op : hop) : option cerr :=
  match op with HAddPath p o d => snd (expand_path p o d) | _ => None end.

(* after every operation: the error class, the graph, and - for a read - the value returned *)
Fixpoint observe (inv : pkind -> list ckey) (nm : cnames) (s : cstate) (h : list hop) : list string :=
  match h with
  | [] => []
  | op :: h' =>
      let s' := hstep inv s op in
      (show_cerr (hop_err op) ++ " | " ++ show_cgraph (fst s') ++ " | "
       ++ match op with HRead k => show_key k ++ " " ++ show_cval (lookup nm s' k) | _ => "" end)
      :: observe inv nm s' h'
  end.
Definition run_history (inv : pkind -> list ckey) (nm : cnames) (h : list hop) : list string :=
  observe inv nm (cempty, cache_empty) h.
