(* Cache.v — model of the cached look-ups of Network (functools.cached_property on
   network.py:60-126) and of util/funcs.py::invalidate_cache.  The invalidation table is NOT
   written here: it is regenerated from the decorators in network.py (gen/Tables.v).
   No proofs here. *)
From Coq Require Import List Arith Bool.
From SM Require Import Graph Construct.
Import ListNotations.

Inductive ckey := KNodesByName | KLinksByName | KNodesByLink | KOrigins | KOriginsByName
                | KOriginsByNode | KDests | KDestsByName | KDestsByNode.
Definition ckey_eqb (a b : ckey) : bool :=
  match a, b with
  | KNodesByName, KNodesByName | KLinksByName, KLinksByName | KNodesByLink, KNodesByLink
  | KOrigins, KOrigins | KOriginsByName, KOriginsByName | KOriginsByNode, KOriginsByNode
  | KDests, KDests | KDestsByName, KDestsByName | KDestsByNode, KDestsByNode => true
  | _, _ => false
  end.
Definition all_keys : list ckey :=
  [KNodesByName; KLinksByName; KNodesByLink; KOrigins; KOriginsByName; KOriginsByNode;
   KDests; KDestsByName; KDestsByNode].

(* element names (labels): names of node / link objects and of origins / destinations *)
Record cnames := { obj_name : obj -> nat; orig_name : nat -> nat; dest_name : nat -> nat }.

(* Python dict built by successive assignment: position of the first occurrence of a key,
   value of the last *)
Section Dict.
Context {K V : Type}.
Variable keq : K -> K -> bool.
Fixpoint dset (k : K) (v : V) (d : list (K * V)) : list (K * V) :=
  match d with
  | [] => [(k, v)]
  | (k', v') :: d' => if keq k' k then (k', v) :: d' else (k', v') :: dset k v d'
  end.
Definition dict_of (l : list (K * V)) : list (K * V) := fold_left (fun d kv => dset (fst kv) (snd kv) d) l [].
End Dict.

(* net.links: for every node in order, its out-edges in insertion order *)
Definition clinks (g : cgraph) : list cedge :=
  flat_map (fun c => filter (fun e => obj_eqb (c_up e) (c_obj c)) (c_edges g)) (c_nodes g).

Inductive cval :=
| VNameObj (d : list (nat * obj))            (* name -> node / link object *)
| VLinkNodes (d : list (obj * (obj * obj)))  (* link -> (up, down) *)
| VIdNode (d : list (nat * obj))             (* origin / destination -> node *)
| VNameId (d : list (nat * nat))             (* name -> origin / destination *)
| VNodeId (d : list (obj * nat)).            (* node -> origin / destination *)

Section Lookups.
Variable nm : cnames.

Definition origins_d (g : cgraph) : list (nat * obj) :=
  dict_of Nat.eqb (flat_map (fun c => match c_orig c with Some o => [(o, c_obj c)] | None => [] end) (c_nodes g)).
Definition dests_d (g : cgraph) : list (nat * obj) :=
  dict_of Nat.eqb (flat_map (fun c => match c_dest c with Some o => [(o, c_obj c)] | None => [] end) (c_nodes g)).

(* what each look-up is when computed from the graph (network.py:60-126) *)
Definition recompute (k : ckey) (g : cgraph) : cval :=
  match k with
  | KNodesByName => VNameObj (dict_of Nat.eqb (map (fun c => (obj_name nm (c_obj c), c_obj c)) (c_nodes g)))
  | KLinksByName => VNameObj (dict_of Nat.eqb (map (fun e => (obj_name nm (c_link e), c_link e)) (clinks g)))
  | KNodesByLink => VLinkNodes (dict_of obj_eqb (map (fun e => (c_link e, (c_up e, c_down e))) (clinks g)))
  | KOrigins => VIdNode (origins_d g)
  | KOriginsByName => VNameId (dict_of Nat.eqb (map (fun on => (orig_name nm (fst on), fst on)) (origins_d g)))
  | KOriginsByNode => VNodeId (dict_of obj_eqb (map (fun on => (snd on, fst on)) (origins_d g)))
  | KDests => VIdNode (dests_d g)
  | KDestsByName => VNameId (dict_of Nat.eqb (map (fun on => (dest_name nm (fst on), fst on)) (dests_d g)))
  | KDestsByNode => VNodeId (dict_of obj_eqb (map (fun on => (snd on, fst on)) (dests_d g)))
  end.
End Lookups.

(* ---- the cache: a populated key remembers the graph it was computed from ---- *)
Definition cache := ckey -> option cgraph.
Definition cache_empty : cache := fun _ => None.
Definition cache_drop (ks : list ckey) (c : cache) : cache :=
  fun k => if existsb (ckey_eqb k) ks then None else c k.
Definition cache_fill (ks : list ckey) (g : cgraph) (c : cache) : cache :=
  fun k => match c k with
           | Some g0 => Some g0
           | None => if existsb (ckey_eqb k) ks then Some g else None
           end.

(* keys whose computation reads another cached look-up (and thereby populates it) *)
Definition reads_through (k : ckey) : list ckey :=
  match k with
  | KOriginsByName | KOriginsByNode => [KOrigins]
  | KDestsByName | KDestsByNode => [KDests]
  | _ => []
  end.

Inductive pkind := KAddNode | KAddNodes | KAddLink | KAddLinks | KAddOrigin | KAddDestination.
Definition kind_of_prim (p : prim) : pkind :=
  match p with
  | PAddNode _ => KAddNode | PAddLink _ _ _ => KAddLink
  | PAddOrigin _ _ => KAddOrigin | PAddDestination _ _ => KAddDestination
  end.

(* operations of the cached network: decorated calls (public bulk calls included) and reads *)
Inductive hop :=
| HPrim (p : prim)
| HAddNodes (xs : list obj)
| HAddLinks (ls : list (obj * obj * obj))
| HAddPath (path : list obj) (o d : option nat)
| HRead (k : ckey).

Section Machine.
(* the invalidation table: which keys each decorated call deletes before running *)
Variable invalidates : pkind -> list ckey.

Definition cstate := (cgraph * cache)%type.
Definition step_prim (s : cstate) (p : prim) : cstate :=
  (apply_prim (fst s) p, cache_drop (invalidates (kind_of_prim p)) (snd s)).

Definition hstep (s : cstate) (op : hop) : cstate :=
  match op with
  | HPrim p => step_prim s p
  | HAddNodes xs => (fold_left add_node xs (fst s), cache_drop (invalidates KAddNodes) (snd s))
  | HAddLinks ls => (fold_left (fun g t => add_link g (fst (fst t)) (snd (fst t)) (snd t)) ls (fst s),
                     cache_drop (invalidates KAddLinks) (snd s))
  | HAddPath p o d => fold_left step_prim (fst (expand_path p o d)) s
  | HRead k =>
      (* a derived look-up is computed from the (possibly older) cached look-up it reads *)
      let c1 := cache_fill (reads_through k) (fst s) (snd s) in
      let src := match reads_through k with
                 | k' :: _ => match c1 k' with Some g0 => g0 | None => fst s end
                 | [] => fst s
                 end in
      (fst s, cache_fill [k] src c1)
  end.
Definition hrun (h : list hop) : cstate := fold_left hstep h (cempty, cache_empty).

(* the value a look-up returns now: the cached one if populated, else computed (and cached) *)
Definition lookup (nm : cnames) (s : cstate) (k : ckey) : cval :=
  match snd s k with
  | Some g0 => recompute nm k g0
  | None => recompute nm k (fst s)
  end.
End Machine.
