(* ExprEval.v — meaning of an expression tree over the reals. *)
From Coq Require Import Reals Qreals QArith List.
From SM Require Import Num NumR Expr.
Local Open Scope R_scope.

Fixpoint eval (env : ident -> R) (e : expr) : R :=
  match e with
  | Var x => env x
  | Cst q => Q2R q
  | Add a b => eval env a + eval env b
  | Sub a b => eval env a - eval env b
  | Mul a b => eval env a * eval env b
  | Div a b => eval env a / eval env b
  | Neg a => - eval env a
  | Sq a => eval env a * eval env a
  | Exp a => exp (eval env a)
  | Log a => ln (eval env a)
  | Pow a b => Rpow (eval env a) (eval env b)
  | Min a b => Rmin (eval env a) (eval env b)
  | Max a b => Rmax (eval env a) (eval env b)
  | IfLt a b t e' => if Rlt_dec (eval env a) (eval env b) then eval env t else eval env e'
  end.
