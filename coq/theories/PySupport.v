(* PySupport.v — the Python containers the regenerated compile helpers (gen/CompileGen.v, translator/compilegen.py)
   are written over: an insertion-ordered dict with string keys as an association list.  No proofs here. *)
From Coq Require Import List String Bool.
Import ListNotations.

(* k in d *)
Fixpoint d_mem {T} (d : list (string * T)) (k : string) : bool :=
  match d with
  | [] => false
  | (k', _) :: d' => if String.eqb k' k then true else d_mem d' k
  end.
(* d[k] for a dictionary of lists (asked only where k in d is known; [] otherwise) *)
Fixpoint d_get {T} (d : list (string * list T)) (k : string) : list T :=
  match d with
  | [] => []
  | (k', v) :: d' => if String.eqb k' k then v else d_get d' k
  end.
(* d[k] = v : an existing key keeps its position, a new one goes last *)
Fixpoint d_set {T} (d : list (string * T)) (k : string) (v : T) : list (string * T) :=
  match d with
  | [] => [(k, v)]
  | (k', v') :: d' => if String.eqb k' k then (k', v) :: d' else (k', v') :: d_set d' k v
  end.
