(* NumR.v — the real-number instance in which the algebraic theorems are stated. *)
From Coq Require Import Reals Qreals.
From SM Require Import Num.
Local Open Scope R_scope.

(* IEEE-like power on the admissible domain: 0^y = 0 (y > 0), x^y = exp(y ln x) for x > 0.
   (Coq's Rpower 0 y would be 1.)  Negative bases are outside every theorem's domain. *)
Definition Rpow (x y : R) : R := if Req_EM_T x 0 then 0 else Rpower x y.

#[global] Instance NumR : Num R := {|
  ofQ := Q2R; add := Rplus; sub := Rminus; mul := Rmult; div := Rdiv; neg := Ropp;
  sq := fun x => x * x; nexp := exp; nlog := ln; npow := Rpow;
  nmin := Rmin; nmax := Rmax;
  iflt := fun a b t e => if Rlt_dec a b then t else e |}.
