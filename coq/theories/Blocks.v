(* Blocks.v — hand-written executable model of the element layer
   (blocks/{links,nodes,origins,destinations,base}.py and Network.step), written
   once for every numeric structure and every engine record.  Python failure
   points are explicit error results.  No proofs here. *)
From Coq Require Import QArith List String Arith Bool.
From SM Require Import Num Graph Engine Expr Types.
Import ListNotations.

(* Python failure points *)
Inductive err := EAssert       (* assert len(links) == 1 in _get_exiting/_get_entering_link *)
               | EEmpty        (* vcat of nothing / first of an empty view *)
               | ENoneFlow     (* source node without origin: v0, q0 are None *)
               | EKey          (* missing dictionary key *)
               | EShape.       (* base.py: shapes of new and old states do not match *)
Inductive res (T : Type) := Ok (x : T) | Err (e : err).
Arguments Ok {T}. Arguments Err {T}.
Definition bind {T U} (r : res T) (f : T -> res U) : res U :=
  match r with Ok x => f x | Err e => Err e end.
Notation "x <- r ;; k" := (bind r (fun x => k)) (at level 61, r at next level, right associativity).
Fixpoint mapM {T U} (f : T -> res U) (l : list T) : res (list U) :=
  match l with
  | [] => Ok []
  | x :: xs => y <- f x ;; ys <- mapM f xs ;; Ok (y :: ys)
  end.

Section Blocks.
Context {A : Type} {NA : Num A}.
Variable E : engine A.
Variable U : universe.
Variable P : params A.
Variable g : graph.

Definition lanes (m : nat) : A := ofQ (llanes (linkd U m)).

Section WithState.
Variable st : state A.

(* links.py:143 *)
Definition link_flow (m : nat) : list A :=
  e_flow E (s_rho st m) (s_v st m) (lanes m).

(* origins.py:60-69 / destinations.py:48-57 *)
Definition exiting_link (o : nat) : res nat :=
  match dict_get o (origins_dict g) with
  | None => Err EKey
  | Some n => match out_links g n with [e] => Ok (e_link e) | _ => Err EAssert end
  end.
Definition entering_link (d : nat) : res nat :=
  match dict_get d (dests_dict g) with
  | None => Err EKey
  | Some n => match in_links g n with [e] => Ok (e_link e) | _ => Err EAssert end
  end.

(* origins.py:39 *)
Definition origin_speed (o : nat) : res A :=
  m <- exiting_link o ;; Ok (vfirst (s_v st m)).

(* origins.py:58, 203-213, 369-379, 451-461 *)
Definition origin_flow (o : nat) : res A :=
  m <- exiting_link o ;;
  Ok match okind_of U o with
     | OIdeal => vfirst (link_flow m)
     | OMain => e_main E (s_do st o) (s_w st o) (s_uo st o) (vfirst (s_v st m))
                  (lp P m Prhocrit) (lp P m Pa) (lp P m Pvfree) (lanes m) (gT P)
     | ORamp is_in => e_ramp E (s_do st o) (s_w st o) (ocap P o) (s_uo st o) (lp P m Prhomax)
                  (vfirst (s_rho st m)) (lp P m Prhocrit) (gT P) (if is_in then "in" else "out")%string
     | OSimp lim => e_simp E (s_uo st o) (s_do st o) (s_w st o) (ocap P o) (lp P m Prhomax)
                  (vfirst (s_rho st m)) (lp P m Prhocrit) (gT P)
                  (if lim then "limited" else "unlimited")%string
     end.

(* destinations.py:44-46, 116-118 *)
Definition dest_density (d : nat) : res A :=
  m <- entering_link d ;;
  Ok match dkind_of U d with
     | DFree => e_dfree E (vlast (s_rho st m)) (lp P m Prhocrit)
     | DCong => e_dcong E (vlast (s_rho st m)) (s_dd st d) (lp P m Prhocrit)
     end.

(* nodes.py:26-62 *)
Definition node_down_density (n : nat) : res A :=
  match dest_at g n with
  | Some d => dest_density d
  | None =>
      match out_links g n with
      | [] => Err EEmpty
      | [e] => Ok (vfirst (s_rho st (e_link e)))
      | es => Ok (e_down_dens E (e_vcat E (map (fun e => [vfirst (s_rho st (e_link e))]) es)))
      end
  end.

(* nodes.py:64-140 *)
Definition node_up_speed_flow (n m : nat) : res (A * A) :=
  ov <- match origin_at g n with
        | Some o => v_o <- origin_speed o ;; q_o <- origin_flow o ;; Ok (Some (v_o, q_o))
        | None => Ok None
        end ;;
  match in_links g n with
  | [] => match ov with Some vq => Ok vq | None => Err ENoneFlow end
  | [e] =>
      let mu := e_link e in
      let v := vlast (s_v st mu) in
      let q := vlast (link_flow mu) in
      let q := match ov with Some (_, q_o) => add q q_o | None => q end in
      let outs := out_links g n in
      let q := if (1 <? List.length outs)%nat
               then e_up_flow E (e_vcat E [[q]]) (lp P m Pturn)
                      (e_vcat E (map (fun e' => [lp P (e_link e') Pturn]) outs)) None
               else q in
      Ok (v, q)
  | es =>
      let v_last := e_vcat E (map (fun e => [vlast (s_v st (e_link e))]) es) in
      let q_last := e_vcat E (map (fun e => [vlast (link_flow (e_link e))]) es) in
      let betas := e_vcat E (map (fun e' => [lp P (e_link e') Pturn]) (out_links g n)) in
      Ok (e_up_speed E q_last v_last,
          e_up_flow E q_last (lp P m Pturn) betas (option_map snd ov))
  end.

(* links.py:263-264 / 344-353: equilibrium speed of a plain or of a speed-limited link *)
Definition link_Veq (m : nat) : list A :=
  match lvsl (linkd U m) with
  | None => e_Veq E (s_rho st m) (lp P m Pvfree) (lp P m Prhocrit) (lp P m Pa)
  | Some vsl => e_cVeq E (s_rho st m) (s_vc st m) vsl (lp P m Palpha)
                  (lp P m Pvfree) (lp P m Prhocrit) (lp P m Pa)
  end.

(* links.py:145-256: the next density and speed before the positive_next_* clamps, for a given
   equilibrium-speed vector (the only place where the two link classes differ) *)
Definition link_raw_V (Veq : list A) (m : nat) : res (list A * list A) :=
  ud <- match nodes_of_link g m with Some ud => Ok ud | None => Err EKey end ;;
  let n_up := fst ud in let n_down := snd ud in
  let rho := s_rho st m in
  let v := s_v st m in
  let q := link_flow m in
  vq0 <- node_up_speed_flow n_up m ;;
  let v0 := fst vq0 in let q0 := snd vq0 in
  rhoN1 <- node_down_density n_down ;;
  let multi := (1 <? lN (linkd U m))%nat in
  let q_up := if multi then e_vcat E [[q0]; vinit q] else [q0] in
  let v_up := if multi then e_vcat E [[v0]; vinit v] else [v0] in
  let rho_down := if multi then e_vcat E [vtail rho; [rhoN1]] else [rhoN1] in
  q_ramp <- match gdelta P, origin_at g n_up, in_links g n_up with
            | Some _, Some o, _ :: _ =>
                if is_ramp (okind_of U o) then q_o <- origin_flow o ;; Ok (Some q_o) else Ok None
            | _, _, _ => Ok None
            end ;;
  let lanes_drop :=
    match gphi P with
    | Some _ =>
        match out_links g n_down with
        | [e] => let dl := (llanes (linkd U m) - llanes (linkd U (e_link e)))%Q in
                 if Qeq_bool dl 0 then None else Some (ofQ dl)
        | _ => None
        end
    | None => None
    end in
  let rho_next := e_step_rho E rho q q_up (lanes m) (lp P m PL) (gT P) in
  let v_next := e_step_v E v v_up rho rho_down Veq (lanes m) (lp P m PL) (gtau P) (geta P)
                  (gkappa P) (gT P) q_ramp (gdelta P) lanes_drop (gphi P)
                  (Some (lp P m Prhocrit)) in
  Ok (rho_next, v_next).

Definition link_raw (m : nat) : res (list A * list A) := link_raw_V (link_Veq m) m.

(* links.py:257-261 (positive_next_* clamps), base.py:108-124 (shape check) *)
Definition link_step (opts : options) (m : nat) : res (list A * list A) :=
  rv <- link_raw m ;;
  let rho := s_rho st m in
  let v := s_v st m in
  let rho_next := fst rv in let v_next := snd rv in
  let rho_next := if pn_rho opts then e_max E zero rho_next else rho_next in
  let v_next := if pn_v opts then e_max E zero v_next else v_next in
  if ((List.length rho_next =? List.length rho) && (List.length v_next =? List.length v))%nat
  then Ok (rho_next, v_next) else Err EShape.

(* origins.py:137-175, 303-341; state-less ideal origin: nothing to step *)
Definition origin_step (opts : options) (o : nat) : res (option A) :=
  if is_queued (okind_of U o) then
    q <- origin_flow o ;;
    let w_next := e_step_w E (s_w st o) (s_do st o) q (gT P) in
    Ok (Some (if pn_w opts then e_max_s E zero w_next else w_next))
  else Ok None.

End WithState.

(* init_vars with the positive_init_* options (links.py:123-126, origins.py:134-135,300-301) *)
Definition init_state (opts : options) (st : state A) : state A :=
  {| s_rho := fun m => if pi_rho opts then e_max E zero (s_rho st m) else s_rho st m;
     s_v := fun m => if pi_v opts then e_max E zero (s_v st m) else s_v st m;
     s_w := fun o => if pi_w opts then e_max_s E zero (s_w st o) else s_w st o;
     s_uo := s_uo st; s_do := s_do st; s_vc := s_vc st; s_dd := s_dd st |}.

Record step_out := { o_links : list (nat * (list A * list A)); o_queues : list (nat * option A) }.

(* network.py:509-574 *)
Definition network_step (opts : options) (st : state A) : res step_out :=
  let st' := init_state opts st in
  ws <- mapM (fun o => r <- origin_step st' opts o ;; Ok (o, r)) (map fst (origins_dict g)) ;;
  ls <- mapM (fun e => r <- link_step st' opts (e_link e) ;; Ok (e_link e, r)) (links g) ;;
  Ok {| o_links := ls; o_queues := ws |}.

End Blocks.
