(* PyCacheSupport.v — what the regenerated invalidate_cache (gen/CacheGen.v, translator/cachegen.py) is written over:
   an instance's __dict__ restricted to the names of its cached properties (name -> cached value, if populated), and the
   abstract arguments of the decorator.  No proofs here. *)
From Coq Require Import List Bool.
Import ListNotations.

Inductive callable (K : Type) := CProp (k : K) | CLru (n : nat) | COther.
Arguments CProp {K}. Arguments CLru {K}. Arguments COther {K}.

Definition pycache (K V : Type) := K -> option V.
(* name in self.__dict__ *)
Definition pc_mem {K V} (c : pycache K V) (k : K) : bool := match c k with Some _ => true | None => false end.
(* del self.__dict__[name] *)
Definition pc_del {K V} (keq : K -> K -> bool) (c : pycache K V) (k : K) : pycache K V :=
  fun k' => if keq k' k then None else c k'.
Definition isnil {T} (l : list T) : bool := match l with [] => true | _ => false end.
