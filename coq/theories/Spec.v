(* Spec.v — the declarative per-segment METANET specification (Hegyi 2004,
   eqs. 3.1-3.11, node rules of 3.2.2, mainstream origin of 3.3.3), stated
   directly on the graph.  Independent of the generated engine code and of
   Blocks.v: this is the oracle the dynamics are compared with and the
   right-hand side of theorem C01.  Interpretation choices S1-S4 of DESIGN §2 are
   marked. *)
From Coq Require Import QArith List Arith Bool.
From SM Require Import Num Graph Expr Types.
Import ListNotations.

Fixpoint index_of (i : nat) (l : list nat) : option nat :=
  match l with
  | [] => None
  | x :: l' => if Nat.eqb x i then Some O else option_map S (index_of i l')
  end.

Section Spec.
Context {A : Type} {NA : Num A}.
Variable U : universe.
Variable P : params A.
Variable g : graph.
Variable st : state A.

Definition sN (m : nat) : nat := lN (linkd U m).
Definition slam (m : nat) : A := ofQ (llanes (linkd U m)).
Definition srho (m i : nat) : A := nth i (s_rho st m) zero.
Definition svel (m i : nat) : A := nth i (s_v st m) zero.
Definition slastseg (m : nat) : nat := sN m - 1.

(* (3.1) q = rho v lambda *)
Definition sflow (m i : nat) : A := mul (mul (srho m i) (svel m i)) (slam m).

(* (3.4) V(rho) = v_free exp(-(1/a) (rho/rho_crit)^a) *)
Definition sVeq_at (m : nat) (rho : A) : A :=
  mul (lp P m Pvfree)
      (nexp (mul (neg (div one (lp P m Pa))) (npow (div rho (lp P m Prhocrit)) (lp P m Pa)))).
Definition sVeq (m i : nat) : A := sVeq_at m (srho m i).
(* V(rho_crit) = v_free exp(-1/a) *)
Definition sVcrit (m : nat) : A := mul (lp P m Pvfree) (nexp (neg (div one (lp P m Pa)))).

(* (3.11) speed-limited segments: min(V(rho), (1+alpha) v_ctrl) *)
Definition sV (m i : nat) : A :=
  match lvsl (linkd U m) with
  | Some vsl =>
      match index_of i vsl with
      | Some k => nmin (sVeq m i) (mul (add one (lp P m Palpha)) (nth k (s_vc st m) zero))
      | None => sVeq m i
      end
  | None => sVeq m i
  end.

(* ---- origins: m is the link leaving the origin's node ---- *)
Definition sdemand (o : nat) : A := add (s_do st o) (div (s_w st o) (gT P)).
Definition sspace (m : nat) : A :=
  div (sub (lp P m Prhomax) (srho m 0)) (sub (lp P m Prhomax) (lp P m Prhocrit)).

(* 3.3.3 with the log-ratio guard S1 *)
Definition smain_vlim (o m : nat) : A := nmin (s_uo st o) (svel m 0).
Definition smain_qcap (m : nat) : A := mul (mul (slam m) (sVcrit m)) (lp P m Prhocrit).
Definition smain_qspeed (o m : nat) : A :=
  let vlim := smain_vlim o m in
  let ratio := nmax (ofQ (1 # 20)) (nmin one (div vlim (lp P m Pvfree))) in
  mul (mul (mul (slam m) vlim) (lp P m Prhocrit))
      (npow (mul (neg (lp P m Pa)) (nlog ratio)) (div one (lp P m Pa))).
Definition smain_qlim (o m : nat) : A :=
  iflt (smain_vlim o m) (sVcrit m) (smain_qspeed o m) (smain_qcap m).

Definition sorigin_flow (o m : nat) : A :=
  match okind_of U o with
  | OIdeal => sflow m 0
  | OMain => nmin (sdemand o) (smain_qlim o m)
  | ORamp true => nmin (sdemand o) (mul (ocap P o) (nmin (s_uo st o) (sspace m)))        (* 3.5 *)
  | ORamp false => mul (s_uo st o) (nmin (sdemand o) (mul (ocap P o) (nmin one (sspace m)))) (* 3.6 *)
  | OSimp true => nmin (s_uo st o) (nmin (sdemand o) (mul (ocap P o) (nmin one (sspace m))))
  | OSimp false => s_uo st o
  end.

(* ---- nodes (3.2.2) ---- *)
Definition ssum {T : Type} (f : T -> A) (l : list T) : A :=
  fold_right (fun x acc => add (f x) acc) zero l.
Definition slast_q (e : edge) : A := sflow (e_link e) (slastseg (e_link e)).
Definition slast_v (e : edge) : A := svel (e_link e) (slastseg (e_link e)).
Definition sturn (e : edge) : A := lp P (e_link e) Pturn.

(* flow of the origin attached to node n (0 if none); its link is the link leaving n *)
Definition snode_origin_flow (n : nat) : A :=
  match origin_at g n, out_links g n with
  | Some o, e :: _ => sorigin_flow o (e_link e)
  | _, _ => zero
  end.
(* total flow entering node n *)
Definition snode_Q (n : nat) : A := add (ssum slast_q (in_links g n)) (snode_origin_flow n).
(* S3: share of leaving link e = beta_e / sum of beta over the leaving links *)
Definition sinflow (e : edge) : A :=
  mul (div (sturn e) (ssum sturn (out_links g (e_up e)))) (snode_Q (e_up e)).
(* (3.10) flow-weighted speed of the entering links; S2 for one entering link; first-segment
   speed at a source node *)
Definition supspeed (e : edge) : A :=
  match in_links g (e_up e) with
  | [] => svel (e_link e) 0
  | [e1] => slast_v e1
  | es => div (ssum (fun x => mul (slast_v x) (slast_q x)) es) (ssum slast_q es)
  end.
(* (3.9) virtual downstream density; S2 for one leaving link; destination laws *)
Definition sdowndens (e : edge) : A :=
  let n := e_down e in
  match dest_at g n with
  | Some d =>
      let base := nmin (srho (e_link e) (slastseg (e_link e))) (lp P (e_link e) Prhocrit) in
      match dkind_of U d with DFree => base | DCong => nmax base (s_dd st d) end
  | None =>
      match out_links g n with
      | [e1] => srho (e_link e1) 0
      | es => div (ssum (fun x => sq (srho (e_link x) 0)) es) (ssum (fun x => srho (e_link x) 0) es)
      end
  end.

(* ---- segments ---- *)
Definition sq_up (e : edge) (i : nat) : A :=
  if Nat.eqb i 0 then sinflow e else sflow (e_link e) (i - 1).
Definition sv_up (e : edge) (i : nat) : A :=
  if Nat.eqb i 0 then supspeed e else svel (e_link e) (i - 1).
Definition srho_down (e : edge) (i : nat) : A :=
  if Nat.eqb i (slastseg (e_link e)) then sdowndens e else srho (e_link e) (i + 1).

(* (3.2) *)
Definition spec_rho_next (e : edge) (i : nat) : A :=
  let m := e_link e in
  add (srho m i) (mul (div (gT P) (mul (lp P m PL) (slam m))) (sub (sq_up e i) (sflow m i))).

(* S4: merging term applies to the first segment when delta is given and the upstream node
   carries a metered ramp and has an entering link *)
Definition smerge (e : edge) : option (A * A) :=
  match gdelta P, origin_at g (e_up e), in_links g (e_up e) with
  | Some delta, Some o, _ :: _ =>
      if is_ramp (okind_of U o) then Some (delta, snode_origin_flow (e_up e)) else None
  | _, _, _ => None
  end.
(* S4: lane-drop term applies to the last segment when phi is given and the downstream node
   has exactly one leaving link with a different number of lanes *)
Definition sdrop (e : edge) : option (A * A) :=
  match gphi P, out_links g (e_down e) with
  | Some phi, [e1] =>
      let dl := (llanes (linkd U (e_link e)) - llanes (linkd U (e_link e1)))%Q in
      if Qeq_bool dl 0 then None else Some (phi, ofQ dl)
  | _, _ => None
  end.

(* (3.3) + (3.7) + (3.8) *)
Definition spec_v_next (e : edge) (i : nat) : A :=
  let m := e_link e in
  let T := gT P in let L := lp P m PL in
  let v := svel m i in let rho := srho m i in
  let relax := mul (div T (gtau P)) (sub (sV m i) v) in
  let conv := mul (mul (div T L) v) (sub (sv_up e i) v) in
  let antic := mul (div (mul (geta P) T) (mul (gtau P) L))
                   (div (sub (srho_down e i) rho) (add rho (gkappa P))) in
  let base := sub (add (add v relax) conv) antic in
  let base := if Nat.eqb i 0 then
                match smerge e with
                | Some (delta, qr) =>
                    sub base (div (mul (mul (mul delta T) qr) v)
                                  (mul (mul L (slam m)) (add rho (gkappa P))))
                | None => base
                end else base in
  if Nat.eqb i (slastseg m) then
    match sdrop e with
    | Some (phi, dl) =>
        sub base (div (mul (mul (mul (mul phi T) dl) rho) (sq v))
                      (mul (mul L (slam m)) (lp P m Prhocrit)))
    | None => base
    end else base.

(* queue: w' = w + T (d - q_o), m the link leaving the origin's node *)
Definition spec_w_next (o m : nat) : A :=
  add (s_w st o) (mul (gT P) (sub (s_do st o) (sorigin_flow o m))).

End Spec.
