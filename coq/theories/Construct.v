(* Construct.v — executable model of the construction API of Network (network.py:176-382) on
   the networkx.DiGraph it keeps.  Graph nodes are arbitrary objects (networkx accepts any
   hashable), so "no object that is not a node ever becomes a node" is a statement about the
   model, not a typing artefact.  No proofs here. *)
From Coq Require Import List Arith Bool.
From SM Require Import Graph.
Import ListNotations.

(* Python objects that can be handed to the construction calls *)
Inductive obj := ONode (n : nat) | OLink (l : nat) | OOther (x : nat).
Definition obj_eqb (a b : obj) : bool :=
  match a, b with
  | ONode x, ONode y | OLink x, OLink y | OOther x, OOther y => Nat.eqb x y
  | _, _ => false
  end.

Record cnode := { c_obj : obj; c_orig : option nat; c_dest : option nat }.
Record cedge := { c_up : obj; c_down : obj; c_link : obj }.   (* the edge attribute is any object *)
Record cgraph := { c_nodes : list cnode; c_edges : list cedge }.
Definition cempty : cgraph := {| c_nodes := []; c_edges := [] |}.

Definition has_node (g : cgraph) (x : obj) : bool := existsb (fun c => obj_eqb (c_obj c) x) (c_nodes g).

(* DiGraph.add_node(x) without attributes *)
Definition add_node (g : cgraph) (x : obj) : cgraph :=
  if has_node g x then g
  else {| c_nodes := c_nodes g ++ [{| c_obj := x; c_orig := None; c_dest := None |}];
          c_edges := c_edges g |}.

Definition upd_node (f : cnode -> cnode) (x : obj) (l : list cnode) : list cnode :=
  map (fun c => if obj_eqb (c_obj c) x then f c else c) l.

(* Network.add_origin / add_destination (network.py:233-302) *)
Definition add_origin (g : cgraph) (o : nat) (x : obj) : cgraph :=
  if has_node g x
  then {| c_nodes := upd_node (fun c => {| c_obj := c_obj c; c_orig := Some o; c_dest := c_dest c |}) x (c_nodes g);
          c_edges := c_edges g |}
  else {| c_nodes := c_nodes g ++ [{| c_obj := x; c_orig := Some o; c_dest := None |}];
          c_edges := c_edges g |}.
Definition add_destination (g : cgraph) (d : nat) (x : obj) : cgraph :=
  if has_node g x
  then {| c_nodes := upd_node (fun c => {| c_obj := c_obj c; c_orig := c_orig c; c_dest := Some d |}) x (c_nodes g);
          c_edges := c_edges g |}
  else {| c_nodes := c_nodes g ++ [{| c_obj := x; c_orig := None; c_dest := Some d |}];
          c_edges := c_edges g |}.

(* DiGraph.add_edge(u, v, link=l): missing end nodes are created (u first), an existing edge
   keeps its position and gets the new attribute *)
Definition has_edge (g : cgraph) (u d : obj) : bool :=
  existsb (fun e => obj_eqb (c_up e) u && obj_eqb (c_down e) d) (c_edges g).
Definition add_link (g : cgraph) (u l d : obj) : cgraph :=
  let g := add_node (add_node g u) d in
  if has_edge g u d
  then {| c_nodes := c_nodes g;
          c_edges := map (fun e => if obj_eqb (c_up e) u && obj_eqb (c_down e) d
                                   then {| c_up := u; c_down := d; c_link := l |} else e) (c_edges g) |}
  else {| c_nodes := c_nodes g; c_edges := c_edges g ++ [{| c_up := u; c_down := d; c_link := l |}] |}.

(* Network.add_path (network.py:304-382): errors leave the calls made so far in effect *)
Inductive cerr := CTypeErr | CValueErr | CStopIter
  | CUnbound.   (* UnboundLocalError: only in the regenerated text (gen/ConstructGen.v), proved unreachable *)
Definition is_node (x : obj) : bool := match x with ONode _ => true | _ => false end.
Definition is_link (x : obj) : bool := match x with OLink _ => true | _ => false end.

(* add_path only looks at the TYPES of the path items, so it is the sequence of decorated calls
   below (each with its own cache invalidation), possibly cut short by an error *)
Inductive prim :=
| PAddNode (x : obj) | PAddLink (u l d : obj) | PAddOrigin (o : nat) (x : obj)
| PAddDestination (d : nat) (x : obj).

(* the loop over the remaining points: cur is current_link (one or two objects) *)
Fixpoint path_loop (cur : list obj) (rest : list obj) (last : option obj)
  : list prim * option cerr * option obj :=
  match rest with
  | [] => ([], None, last)
  | p :: rest' =>
      match cur with
      | [a] => if is_link p then path_loop [a; p] rest' (Some p)
               else ([], Some CTypeErr, Some p)
      | [a; l] => if is_node p
                  then let '(ps, e, lst) := path_loop [p] rest' (Some p) in
                       (PAddNode p :: PAddLink a l p :: ps, e, lst)
                  else ([], Some CTypeErr, Some p)
      | _ => ([], Some CTypeErr, Some p)      (* unreachable *)
      end
  end.

Definition expand_path (path : list obj) (o d : option nat) : list prim * option cerr :=
  match path with
  | [] => ([], Some CStopIter)
  | first :: rest =>
      if negb (is_node first) then ([], Some CTypeErr)
      else
        let pre := PAddNode first :: match o with Some o => [PAddOrigin o first] | None => [] end in
        match path_loop [first] rest None with
        | (ps, Some e, _) => (pre ++ ps, Some e)
        | (ps, None, None) => (pre ++ ps, Some CValueErr)          (* a single node *)
        | (ps, None, Some lastp) =>
            if negb (is_node lastp) then (pre ++ ps, Some CTypeErr)
            else (pre ++ ps ++ match d with Some d => [PAddDestination d lastp] | None => [] end, None)
        end
  end.

Definition apply_prim (g : cgraph) (p : prim) : cgraph :=
  match p with
  | PAddNode x => add_node g x
  | PAddLink u l d => add_link g u l d
  | PAddOrigin o x => add_origin g o x
  | PAddDestination d x => add_destination g d x
  end.
Definition add_path (g : cgraph) (path : list obj) (o d : option nat) : cgraph * option cerr :=
  let '(ps, e) := expand_path path o d in (fold_left apply_prim ps g, e).

(* ---- the construction calls ---- *)
Inductive cop :=
| CAddNode (x : obj) | CAddNodes (xs : list obj)
| CAddLink (u l d : obj) | CAddLinks (ls : list (obj * obj * obj))
| CAddOrigin (o : nat) (x : obj) | CAddDestination (d : nat) (x : obj)
| CAddPath (path : list obj) (o d : option nat).

Definition apply_op (g : cgraph) (op : cop) : cgraph * option cerr :=
  match op with
  | CAddNode x => (add_node g x, None)
  | CAddNodes xs => (fold_left add_node xs g, None)
  | CAddLink u l d => (add_link g u l d, None)
  | CAddLinks ls => (fold_left (fun g t => add_link g (fst (fst t)) (snd (fst t)) (snd t)) ls g, None)
  | CAddOrigin o x => (add_origin g o x, None)
  | CAddDestination d x => (add_destination g d x, None)
  | CAddPath p o d => add_path g p o d
  end.
Definition run_ops (ops : list cop) : cgraph := fold_left (fun g op => fst (apply_op g op)) ops cempty.

(* ---- projection to the graph of Graph.v (defined when every node is a Node object and every
        edge attribute a Link object, which the API's typed entry points maintain) ---- *)
Definition node_id (x : obj) : nat := match x with ONode n => n | OLink n => n | OOther n => n end.
Definition to_graph (g : cgraph) : graph :=
  {| g_nodes := map (fun c => {| nid := node_id (c_obj c); n_orig := c_orig c; n_dest := c_dest c |}) (c_nodes g);
     g_edges := map (fun e => {| e_up := node_id (c_up e); e_down := node_id (c_down e);
                                 e_link := node_id (c_link e) |}) (c_edges g) |}.
