(* Graph.v — the model of the networkx.DiGraph a Network keeps, and its look-ups.
   Node iteration is g_nodes order; edges are kept in first-insertion order, so
   out_links / in_links (order-preserving filters) enumerate successors /
   predecessors in adjacency-dict insertion order, as networkx does.  Elements are
   identified by ids (Python identity); names are separate labels. *)
From Coq Require Import List Arith Bool.
Import ListNotations.

Record node_entry := { nid : nat; n_orig : option nat; n_dest : option nat }.
Record edge := { e_up : nat; e_down : nat; e_link : nat }.
Record graph := { g_nodes : list node_entry; g_edges : list edge }.

Definition empty_graph : graph := {| g_nodes := []; g_edges := [] |}.

Definition out_links (g : graph) (n : nat) : list edge :=
  filter (fun e => Nat.eqb (e_up e) n) (g_edges g).
Definition in_links (g : graph) (n : nat) : list edge :=
  filter (fun e => Nat.eqb (e_down e) n) (g_edges g).
(* net.links: for every node in node order, its out-edges *)
Definition links (g : graph) : list edge :=
  flat_map (fun ne => out_links g (nid ne)) (g_nodes g).

Definition find_node (g : graph) (n : nat) : option node_entry :=
  find (fun ne => Nat.eqb (nid ne) n) (g_nodes g).
Definition origin_at (g : graph) (n : nat) : option nat :=
  match find_node g n with Some ne => n_orig ne | None => None end.
Definition dest_at (g : graph) (n : nat) : option nat :=
  match find_node g n with Some ne => n_dest ne | None => None end.

(* net.origins : dict origin -> node, built in node order (key position = first
   occurrence, value = last occurrence) *)
Fixpoint dict_set (k v : nat) (d : list (nat * nat)) : list (nat * nat) :=
  match d with
  | [] => [(k, v)]
  | (k', v') :: d' => if Nat.eqb k' k then (k', v) :: d' else (k', v') :: dict_set k v d'
  end.
Definition origins_dict (g : graph) : list (nat * nat) :=
  fold_left (fun d ne => match n_orig ne with Some o => dict_set o (nid ne) d | None => d end)
            (g_nodes g) [].
Definition dests_dict (g : graph) : list (nat * nat) :=
  fold_left (fun d ne => match n_dest ne with Some o => dict_set o (nid ne) d | None => d end)
            (g_nodes g) [].
Fixpoint dict_get (k : nat) (d : list (nat * nat)) : option nat :=
  match d with
  | [] => None
  | (k', v) :: d' => if Nat.eqb k' k then Some v else dict_get k d'
  end.

(* nodes_by_link[link] = (up, down): dict over links, last occurrence wins *)
Definition nodes_of_link (g : graph) (l : nat) : option (nat * nat) :=
  match find (fun e => Nat.eqb (e_link e) l) (rev (links g)) with
  | Some e => Some (e_up e, e_down e)
  | None => None
  end.
