(* EngineSel.v — model of the module-level engine selection (engines/core.py:571-639,
   __init__.py:25-37) and of how an engine reaches the primitives during a step.  No proofs. *)
From Coq Require Import List String Bool.
Import ListNotations.
Local Open Scope string_scope.

(* an engine instance: its class and an identity *)
Record einst := { e_class : string; e_id : nat }.
Definition available : list string := ["casadi"; "numpy"].
Definition is_available (n : string) : bool := existsb (String.eqb n) available.

Inductive sel_op :=
| UseName (name : string)        (* use("name", ...): instantiate that class *)
| UseInstance (e : einst)        (* use(instance) *)
| UseOther                       (* use(<neither an engine nor an available name>) *)
| Step (explicit : option einst) (* Network.step(engine=explicit) *)
| Get.                           (* get_current_engine() *)

Inductive sel_res := RNone | REngine (e : einst) | RNotFound
                   | RStepped (by_engine : einst).    (* the engine every primitive was evaluated by *)

Record sel_state := { current : einst; fresh : nat }.   (* fresh: next instance identity *)

(* engine used by a call chain in which every call site forwards / some site drops the engine *)
Definition step_engine (all_forwarded : bool) (s : sel_state) (explicit : option einst) : einst :=
  match explicit with
  | Some e => if all_forwarded then e else current s
  | None => current s
  end.

Definition sel_step (all_forwarded : bool) (s : sel_state) (op : sel_op) : sel_state * sel_res :=
  match op with
  | UseName n =>
      if is_available n
      then let e := {| e_class := n; e_id := fresh s |} in
           ({| current := e; fresh := S (fresh s) |}, REngine e)
      else (s, RNotFound)
  | UseInstance e => ({| current := e; fresh := fresh s |}, REngine e)
  | UseOther => (s, RNotFound)
  | Step ex => (s, RStepped (step_engine all_forwarded s ex))
  | Get => (s, REngine (current s))
  end.

Fixpoint sel_run (all_forwarded : bool) (s : sel_state) (ops : list sel_op) : sel_state * list sel_res :=
  match ops with
  | [] => (s, [])
  | op :: ops' => let '(s', r) := sel_step all_forwarded s op in
                  let '(s'', rs) := sel_run all_forwarded s' ops' in (s'', r :: rs)
  end.

(* ---- the call graph of a step: (caller, callee method, forwards) ---- *)
Definition all_fwd (calls : list (string * string * bool)) : bool := forallb (fun c => snd c) calls.

(* engine seen by a callee reached through a chain of call sites, starting from Network.step
   with an explicit engine e: Some e while every site forwards, None (= the selection) after a drop *)
Fixpoint along {E} (e : option E) (path : list (string * string * bool)) : option E :=
  match path with
  | [] => e
  | c :: path' => along (if snd c then e else None) path'
  end.
