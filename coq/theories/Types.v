(* Types.v — element kinds, universe, parameters, state and options shared by the
   element-layer model (Blocks.v) and the specification (Spec.v). *)
From Coq Require Import QArith List.
From SM Require Import Num Expr.
Import ListNotations.

Inductive okind := OIdeal | OMain | ORamp (is_in : bool) | OSimp (limited : bool).
Inductive dkind := DFree | DCong.
Record linkinfo := { lN : nat; llanes : Q; lvsl : option (list nat) }.
Record universe := { linkd : nat -> linkinfo; okind_of : nat -> okind; dkind_of : nat -> dkind }.

Record params (A : Type) := {
  lp : nat -> lpar -> A;       (* link parameters L, rho_max, rho_crit, v_free, a, turnrate, alpha *)
  ocap : nat -> A;             (* ramp capacity *)
  gT : A; gtau : A; geta : A; gkappa : A;
  gdelta : option A; gphi : option A }.
Arguments lp {A}. Arguments ocap {A}. Arguments gT {A}. Arguments gtau {A}. Arguments geta {A}.
Arguments gkappa {A}. Arguments gdelta {A}. Arguments gphi {A}.

Record state (A : Type) := {
  s_rho : nat -> list A; s_v : nat -> list A;       (* link states *)
  s_w : nat -> A; s_uo : nat -> A; s_do : nat -> A;  (* origin queue, control, demand *)
  s_vc : nat -> list A;                              (* VSL link speed limits *)
  s_dd : nat -> A }.                                 (* congested-destination scenario *)
Arguments s_rho {A}. Arguments s_v {A}. Arguments s_w {A}. Arguments s_uo {A}.
Arguments s_do {A}. Arguments s_vc {A}. Arguments s_dd {A}.

Record options := { pi_v : bool; pi_rho : bool; pi_w : bool;
                    pn_v : bool; pn_rho : bool; pn_w : bool }.
Definition no_options := {| pi_v := false; pi_rho := false; pi_w := false;
                            pn_v := false; pn_rho := false; pn_w := false |}.

Definition is_ramp (k : okind) : bool :=
  match k with ORamp _ | OSimp _ => true | _ => false end.
Definition is_queued (k : okind) : bool :=
  match k with OIdeal => false | _ => true end.

