(* ToFunction.v — hand-written model of engines/casadi.py::Engine.to_function and its helpers
   _filter_vars / _gather_inputs / _gather_outputs / _add_parameters_to_inputs /
   _add_flows_to_outputs (casadi.py:237-504) for a network whose variables are the engine's own
   symbols (Network.step(engine=CasADi) without init_conditions).  No proofs here.

   An input / output is a name and a vector.  Inputs are vectors of symbols (ident); outputs
   are vectors of expression trees. *)
From Coq Require Import QArith List String Arith Bool.
From SM Require Import Num Graph Engine Expr Types Blocks Validity.
Import ListNotations.
Local Open Scope string_scope.

Record names := { lname : nat -> string; oname : nat -> string; dname : nat -> string }.

Inductive grp := GX | GU | GD.
Definition grp_eqb (a b : grp) : bool :=
  match a, b with GX, GX | GU, GU | GD, GD => true | _, _ => false end.

(* ---- the symbols of the network's own elements (engine.var) ---- *)
Definition link_ids (g : graph) : list nat := map e_link (links g).
Definition origin_ids (g : graph) : list nat := map fst (origins_dict g).
Definition dest_ids (g : graph) : list nat := map fst (dests_dict g).
Definition mem (n : nat) (l : list nat) : bool := existsb (Nat.eqb n) l.

Definition net_state (U : universe) (g : graph) : state expr := {|
  s_rho := fun m => if mem m (link_ids g)
                    then map (fun i => Var (Rho m i)) (seq 0 (lN (linkd U m))) else [];
  s_v := fun m => if mem m (link_ids g)
                  then map (fun i => Var (Vel m i)) (seq 0 (lN (linkd U m))) else [];
  (* a state-less ideal origin has no queue, control or demand symbol *)
  s_w := fun o => if mem o (origin_ids g) && is_queued (okind_of U o) then Var (Que o) else Cst 0;
  s_uo := fun o => if mem o (origin_ids g) && is_queued (okind_of U o) then Var (ActO o) else Cst 0;
  s_do := fun o => if mem o (origin_ids g) && is_queued (okind_of U o) then Var (DistO o) else Cst 0;
  s_vc := fun m => if mem m (link_ids g)
                   then match lvsl (linkd U m) with
                        | Some vsl => map (fun k => Var (ActL m k)) (seq 0 (List.length vsl))
                        | None => []
                        end
                   else [];
  s_dd := fun d => if mem d (dest_ids g) && (match dkind_of U d with DCong => true | DFree => false end)
                   then Var (DistD d) else Cst 0 |}.

(* ---- declared variables per element, in the key order of the element's dicts ---- *)
Definition var_entry := (grp * string * list ident)%type.

Definition link_vars (U : universe) (m : nat) : list var_entry :=
  ([ (GX, "rho", map (fun i => Rho m i) (seq 0 (lN (linkd U m))));
     (GX, "v", map (fun i => Vel m i) (seq 0 (lN (linkd U m)))) ]
   ++ match lvsl (linkd U m) with
      | Some vsl => [ (GU, "v_ctrl", map (fun k => ActL m k) (seq 0 (List.length vsl))) ]
      | None => []
      end)%list.
Definition origin_vars (U : universe) (o : nat) : list var_entry :=
  match okind_of U o with
  | OIdeal => []
  | OMain => [ (GX, "w", [Que o]); (GU, "v_ctrl", [ActO o]); (GD, "d", [DistO o]) ]
  | ORamp _ => [ (GX, "w", [Que o]); (GU, "r", [ActO o]); (GD, "d", [DistO o]) ]
  | OSimp _ => [ (GX, "w", [Que o]); (GU, "q", [ActO o]); (GD, "d", [DistO o]) ]
  end.
Definition dest_vars (U : universe) (d : nat) : list var_entry :=
  match dkind_of U d with DCong => [ (GD, "d", [DistD d]) ] | DFree => [] end.

(* Network.elements: links, origins, destinations *)
Definition elements (g : graph) : list elem :=
  (map EL (link_ids g) ++ map EO (origin_ids g) ++ map ED (dest_ids g))%list.
Definition elem_vars (U : universe) (el : elem) : list var_entry :=
  match el with EL m => link_vars U m | EO o => origin_vars U o | ED d => dest_vars U d end.
Definition elem_name (nm : names) (el : elem) : string :=
  match el with EL m => lname nm m | EO o => oname nm o | ED d => dname nm d end.

(* (element, variable name, symbols) of one group, in element order then key order *)
Definition group_entries (U : universe) (g : graph) (gr : grp) : list (elem * string * list ident) :=
  flat_map (fun el => map (fun ve => (el, snd (fst ve), snd ve))
                          (filter (fun ve => grp_eqb (fst (fst ve)) gr) (elem_vars U el)))
           (elements g).

(* stable regrouping by key: first-appearance order of the keys, concatenation of the values *)
Fixpoint regroup_add {T} (k : string) (v : list T) (acc : list (string * list T)) :=
  match acc with
  | [] => [(k, v)]
  | (k', v') :: acc' => if String.eqb k' k then (k', (v' ++ v)%list) :: acc'
                        else (k', v') :: regroup_add k v acc'
  end.
Definition regroup {T} (l : list (string * list T)) : list (string * list T) :=
  fold_left (fun acc kv => regroup_add (fst kv) (snd kv) acc) l [].

(* ---- inputs (casadi.py:365-409, 453-465) ---- *)
Definition inputs_level0 (nm : names) (U : universe) (g : graph) : list (string * list ident) :=
  flat_map (fun gr => map (fun x => (snd (fst x) ++ "_" ++ elem_name nm (fst (fst x)), snd x))
                          (group_entries U g gr)) [GX; GU; GD].
Definition inputs_level1 (U : universe) (g : graph) : list (string * list ident) :=
  flat_map (fun gr => regroup (map (fun x => (snd (fst x), snd x)) (group_entries U g gr)))
           [GX; GU; GD].
Definition inputs_level2 (U : universe) (g : graph) : list (string * list ident) :=
  map (fun gn => (snd gn, List.concat (map snd (regroup (map (fun x => (snd (fst x), snd x))
                                                        (group_entries U g (fst gn)))))))
      [(GX, "x"); (GU, "u"); (GD, "d")].
Definition param_inputs (compact : nat) (ps : list (string * ident)) : list (string * list ident) :=
  match ps with
  | [] => []
  | _ => match compact with
         | O => map (fun p => (fst p, [snd p])) ps
         | _ => [("p", map snd ps)]
         end
  end.
Definition tf_inputs (nm : names) (U : universe) (g : graph) (compact : nat)
           (ps : list (string * ident)) : list (string * list ident) :=
  ((match compact with
   | O => inputs_level0 nm U g
   | 1%nat => inputs_level1 U g
   | _ => inputs_level2 U g
   end) ++ param_inputs compact ps)%list.

(* ---- outputs (casadi.py:412-450, 468-504) ---- *)
Section StateOut.
Context {A : Type}.
Variable nm : names.
(* next states per element in element order: links (rho, v) then queued origins (w) *)
Definition next_entries (out : step_out (A:=A)) : list (elem * string * list A) :=
  (flat_map (fun x => [ (EL (fst x), "rho", fst (snd x)); (EL (fst x), "v", snd (snd x)) ]) (o_links out)
   ++ flat_map (fun x => match snd x with Some w => [ (EO (fst x), "w", [w]) ] | None => [] end)
               (o_queues out))%list.

Definition outputs_level0 (out : step_out (A:=A)) : list (string * list A) :=
  map (fun x => (snd (fst x) ++ "_" ++ elem_name nm (fst (fst x)) ++ "+", snd x)) (next_entries out).
Definition outputs_level1 (out : step_out (A:=A)) : list (string * list A) :=
  regroup (map (fun x => (snd (fst x) ++ "+", snd x)) (next_entries out)).
Definition outputs_level2 (out : step_out (A:=A)) : list (string * list A) :=
  [("x+", List.concat (map snd (outputs_level1 out)))].
Definition state_outputs (compact : nat) (out : step_out (A:=A)) : list (string * list A) :=
  match compact with
  | O => outputs_level0 out
  | 1%nat => outputs_level1 out
  | _ => outputs_level2 out
  end.
End StateOut.

Section Out.
Variable E : engine expr.
Variable nm : names.
Variable U : universe.
Variable P : params expr.
Variable g : graph.
Variable opts : options.

Definition st0 : state expr := net_state U g.
Definition st1 : state expr := init_state E opts st0.

(* flows recomputed by _add_flows_to_outputs from the (init-clamped) states *)
Definition link_flow_entries : list (string * list expr) :=
  map (fun m => ("q_" ++ lname nm m, link_flow E U st1 m)) (link_ids g).
Definition origin_flow_entries : res (list (string * list expr)) :=
  mapM (fun o => bind (origin_flow E U P g st1 o) (fun q => Ok ("q_o_" ++ oname nm o, [q])))
       (origin_ids g).
Definition flow_outputs (compact : nat) : res (list (string * list expr)) :=
  bind origin_flow_entries (fun qo =>
  let ql := link_flow_entries in
  Ok match compact with
     | O => (ql ++ qo)%list
     | 1%nat => [("q", List.concat (map snd ql)); ("q_o", List.concat (map snd qo))]
     | _ => [("q", (List.concat (map snd ql) ++ List.concat (map snd qo))%list)]
     end).

Definition tf_outputs (compact : nat) (more_out : bool) : res (list (string * list expr)) :=
  bind (network_step E U P g opts st0) (fun out =>
  let xs := state_outputs nm compact out in
  if more_out then bind (flow_outputs compact) (fun fl => Ok (xs ++ fl)%list) else Ok xs).
End Out.
