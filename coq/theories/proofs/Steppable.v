From Coq Require Import Reals Qreals List String Lia Lra Arith Bool.
From SM Require Import Num NumR NumPR Graph Engine Expr ExprEval Types Blocks Validity Sym ToFunction.
From SM.gen Require Import EnginesNp EnginesCs.
From SM.specs Require Import GraphWF C01_spec C11_spec C03_spec C07_spec.
From SM.proofs Require Import VecR PrimR ValidFacts StepSpec Clamps Homomorphism Compiled.
From Coq Require Import List.
Import ListNotations.
Local Open Scope R_scope.

(* ---- (i), (ii): success and shapes for every option set ---- *)
Lemma clamp_wf_link U (st : state R) o m : wf_link U st m -> wf_link U (clamp_state o st) m.
Proof.
  intros (H1 & H2 & H3 & H4). unfold wf_link, clamp_state, clamp. simpl.
  repeat split; try assumption; destruct (pi_rho o), (pi_v o); rewrite ?map_length; assumption.
Qed.

Lemma Forall2_map_fst {T V W} (Q : T -> (V * W) -> Prop) (f : T -> V) l l' :
  Forall2 Q l l' -> (forall x y, Q x y -> fst y = f x) -> map fst l' = map f l.
Proof.
  induction 1 as [|a b l l' Hab HF IH]; intros HQ; simpl; [reflexivity|].
  rewrite (HQ _ _ Hab), IH by exact HQ. reflexivity.
Qed.

Theorem np_steps_with_all_options : steps_with_all_options (@np_engine R NumR).
Proof.
  intros U P g st opts WFG V WF Ht Hrc.
  pose proof (@np_max_is_nmax R NumR) as HM.
  rewrite (init_clamps np_engine HM U P g opts st).
  rewrite (next_clamps np_engine HM U P g (no_init opts) (clamp_state opts st)).
  change (no_next (no_init opts)) with no_options.
  destruct (np_step_is_METANET U P g (clamp_state opts st) WFG V
              (fun e He => clamp_wf_link U st opts _ (WF e He)) Ht Hrc) as (out & Hs & FL & FQ).
  rewrite Hs. eexists. split; [reflexivity|]. unfold clamp_out. cbn [o_links o_queues]. split; [|split].
  - rewrite map_map. cbn [fst]. apply (Forall2_map_fst _ e_link _ _ FL). intros x y (H & _). exact H.
  - intros x Hx. apply in_map_iff in Hx. destruct Hx as (y & <- & Hy). cbn [fst snd].
    assert (Hy' : exists e, In e (links g) /\ link_result_ok U P g (clamp_state opts st) e y).
    { clear - FL Hy. induction FL as [|a b l l' Hab HF IH]; [destruct Hy|].
      destruct Hy as [->|Hy]; [exists a; split; [left; reflexivity|exact Hab]|].
      destruct (IH Hy) as (e & He & Hr). exists e. split; [right; exact He|exact Hr]. }
    destruct Hy' as (e & He & (Hf & L1 & L2 & _)).
    pose proof (validb_vfacts U g WFG V) as VF. apply (vf_links_edges _ _ VF) in He.
    destruct (WF e He) as (_ & Lr & Lv & _). rewrite Hf.
    unfold C11_spec.no_init. cbn [pn_rho pn_v].
    split; [destruct (pn_rho opts)|destruct (pn_v opts)]; unfold clamp; rewrite ?map_length; congruence.
  - rewrite map_map. cbn [fst]. apply (Forall2_map_fst _ (fun o => o) _ _) in FQ; [rewrite map_id in FQ; exact FQ|].
    intros x y (H & _). exact H.
Qed.

Theorem cs_steps_with_all_options : steps_with_all_options (@cs_engine R NumR).
Proof. rewrite cs_engine_eq_np. exact np_steps_with_all_options. Qed.

(* ---- (iii): compiling succeeds ---- *)
Lemma mem_link_ids (U : universe) g e : wf_graph g -> In e (g_edges g) -> mem (e_link e) (link_ids g) = true.
Proof.
  intros W He. unfold mem, link_ids. apply existsb_exists. exists (e_link e). split; [|apply Nat.eqb_refl].
  apply in_map. apply edges_links; assumption.
Qed.

Lemma origin_flow_succeeds {A} {NA : Num A} (E : engine A) U P g (st : state A) o :
  vfacts U g -> In o (origin_ids g) -> exists q, origin_flow E U P g st o = Ok q.
Proof.
  intros VF Ho. destruct (vf_orig_dict_inv _ _ VF o Ho) as (n & Hn).
  destruct (vf_orig_out _ _ VF _ _ Hn) as (e1 & Hout).
  unfold origin_flow, exiting_link. rewrite (vf_orig_dict _ _ VF _ _ Hn), Hout. cbn [bind]. eexists. reflexivity.
Qed.

Lemma mapM_succeeds {T V} (f : T -> res V) l : (forall x, In x l -> exists y, f x = Ok y) -> exists ys, mapM f l = Ok ys.
Proof.
  induction l as [|a l IH]; intros H; [exists []; reflexivity|].
  destruct (H a (or_introl eq_refl)) as (y & Hy). destruct IH as (ys & Hys); [intros x Hx; apply H; right; exact Hx|].
  exists (y :: ys). cbn [mapM]. rewrite Hy. cbn [bind]. rewrite Hys. reflexivity.
Qed.

Theorem compiles_at_every_level_proof : compiles_at_every_level.
Proof.
  intros nm U g opts hd hp c more WFG V LS.
  pose proof (validb_vfacts U g WFG V) as VF.
  set (env := fun _ : ident => 1).
  set (P := sym_params hd hp).
  (* the step succeeds on the reals (at the point where every symbol is 1), hence on the trees *)
  assert (Hstep : exists out, network_step cs_engine U P g opts (net_state U g) = Ok out).
  { pose proof (eval_step env cs_engine cs_engine (cs_engine_rho env) U P (eval_params env P) g opts
                  (net_state U g) (eval_state env (net_state U g)) (params_rel env P) (state_rel env _)) as H.
    destruct (cs_steps_with_all_options U (eval_params env P) g (eval_state env (net_state U g)) opts WFG V) as (out & Ho & _).
    - intros e He. destruct (LS e He) as (HN & Hv). unfold wf_link, eval_state, net_state. cbn [s_rho s_v s_vc].
      rewrite (mem_link_ids U g e WFG He), !map_length, !seq_length. repeat split; try reflexivity; try exact HN.
      destruct (lvsl (linkd U (e_link e))) as [vsl|]; [|exact I]. destruct Hv as [A B].
      repeat split; try assumption. rewrite !map_length, seq_length. reflexivity.
    - intros e He. unfold eval_params, P, sym_params. cbn [lp eval]. unfold env. lra.
    - intros e He. unfold eval_params, P, sym_params. cbn [lp eval]. unfold env. lra.
    - rewrite Ho in H. destruct (network_step cs_engine U P g opts (net_state U g)) as [o|e]; [exists o; reflexivity|discriminate]. }
  destruct Hstep as (out & Hout). unfold tf_outputs, st0. rewrite Hout. cbn [bind].
  destruct more; [|eexists; reflexivity].
  unfold flow_outputs, origin_flow_entries.
  destruct (mapM_succeeds (fun o => bind (origin_flow cs_engine U P g (st1 cs_engine U g opts) o)
                                         (fun q => Ok (("q_o_" ++ oname nm o)%string, [q]))) (origin_ids g)) as (qo & Hqo).
  { intros o Ho. destruct (origin_flow_succeeds cs_engine U P g (st1 cs_engine U g opts) o VF Ho) as (q & Hq).
    rewrite Hq. eexists. reflexivity. }
  rewrite Hqo. cbn [bind]. eexists. reflexivity.
Qed.

(* ---- (iv): definedness (no nan / inf born from finite inputs) of the origin laws ---- *)
Lemma pr_div_some x y : y <> 0 -> pr_div (Some x) (Some y) = Some (x / y).
Proof. intros H. unfold pr_div. destruct (Req_EM_T y 0); [contradiction|reflexivity]. Qed.
Lemma pr_log_some x : 0 < x -> pr_log (Some x) = Some (ln x).
Proof. intros H. unfold pr_log. destruct (Rlt_dec 0 x); [reflexivity|contradiction]. Qed.
Lemma pr_pow_defined x y : 0 <= x -> 0 < y -> defined (pr_pow (Some x) (Some y)).
Proof.
  intros Hx Hy. unfold pr_pow. destruct (Rlt_dec 0 x); [eexists; reflexivity|].
  destruct (Req_EM_T x 0); [|exfalso; lra]. destruct (Rlt_dec 0 y); [eexists; reflexivity|contradiction].
Qed.
Lemma pr_pow_pos x y : 0 < x -> pr_pow (Some x) (Some y) = Some (Rpower x y).
Proof. intros H. unfold pr_pow. destruct (Rlt_dec 0 x); [reflexivity|contradiction]. Qed.

Theorem np_mainstream_defined : mainstream_defined (@Np.origins_get_mainstream_flow PR NumPR).
Proof.
  intros d w vctrl v1 rc a vf lanes T HT Hvc Hv1 Hrc Ha Hvf.
  unfold Np.origins_get_mainstream_flow, Np.links_Veq_s. cbv zeta.
  cbn [ofQ add sub mul div neg sq nexp nlog npow nmin nmax iflt NumPR pr2 pr1].
  rewrite (pr_div_some rc rc) by lra. replace (rc / rc) with 1 by (field; lra).
  rewrite (pr_pow_pos 1 a) by lra.
  rewrite (pr_div_some (Q2R (-1 # 1)) a) by lra. cbn [pr2 pr1].
  rewrite (pr_div_some (Rmin vctrl v1) vf) by lra. cbn [pr2].
  set (ratio := Rmax (Q2R (1 # 20)) (Rmin (Q2R (1 # 1)) (Rmin vctrl v1 / vf))).
  assert (Hr0 : 0 < ratio).
  { unfold ratio. eapply Rlt_le_trans; [|apply Rmax_l]. rewrite Q2R_1_20. lra. }
  assert (Hr1 : ratio <= 1).
  { unfold ratio. apply Rmax_lub; [rewrite Q2R_1_20; lra|]. eapply Rle_trans; [apply Rmin_l|]. rewrite Q2R_1. lra. }
  rewrite (pr_log_some ratio Hr0). cbn [pr1 pr2].
  rewrite (pr_div_some (Q2R (1 # 1)) a) by lra.
  assert (Hb : 0 <= - a * ln ratio).
  { assert (ln ratio <= 0).
    { destruct (Req_dec ratio 1) as [->|Hne]; [rewrite ln_1; lra|]. left. rewrite <- ln_1. apply ln_increasing; lra. }
    replace (- a * ln ratio) with (a * - ln ratio) by ring. apply Rmult_le_pos; lra. }
  assert (Hexp : 0 < Q2R (1 # 1) / a).
  { rewrite Q2R_1. apply Rmult_lt_0_compat; [lra|apply Rinv_0_lt_compat; exact Ha]. }
  destruct (pr_pow_defined _ _ Hb Hexp) as (p & Hp). rewrite Hp. cbn [pr2].
  rewrite (pr_div_some w T) by lra. cbn [pr2]. unfold pr_iflt.
  destruct (Rlt_dec _ _); cbn [pr2]; eexists; reflexivity.
Qed.

Theorem np_ramp_defined : ramp_defined (@Np.origins_get_ramp_flow PR NumPR).
Proof.
  intros d w C r rmax r1 rc T ty HT Hrc. unfold Np.origins_get_ramp_flow. cbv zeta.
  cbn [ofQ add sub mul div neg nmin nmax NumPR pr2 pr1].
  rewrite (pr_div_some w T) by lra. rewrite (pr_div_some (rmax - r1) (rmax - rc)) by lra.
  destruct (String.eqb ty "in"); cbn [pr2]; eexists; reflexivity.
Qed.

Theorem cs_mainstream_defined : mainstream_defined (@Cs.origins_get_mainstream_flow PR NumPR).
Proof.
  intros d w vctrl v1 rc a vf lanes T. rewrite <- EnginesEq.eq_origins_get_mainstream_flow. apply np_mainstream_defined.
Qed.
Theorem cs_ramp_defined : ramp_defined (@Cs.origins_get_ramp_flow PR NumPR).
Proof.
  intros d w C r rmax r1 rc T ty. rewrite <- EnginesEq.eq_origins_get_ramp_flow. apply np_ramp_defined.
Qed.
