(* CacheGenTie.v — the wrapper built by the regenerated invalidate_cache is Cache.v's cache_drop followed by the call. *)
From Coq Require Import List Arith Bool.
From SM Require Import Graph Construct Cache PyCacheSupport.
From SM.gen Require Import CacheGen.
From SM.specs Require Import CacheGen_spec.
Import ListNotations.

Lemma classify_props (ks : list ckey) : forall acc,
  fold_left (fun st_ p => match st_ with None => None | Some (cached_properties, lru_caches) =>
    match p with
    | CProp k_ => Some (cached_properties ++ [k_], lru_caches)
    | CLru n_ => Some (cached_properties, lru_caches ++ [n_])
    | COther => None
    end end) (map CProp ks) (Some (acc, @nil nat)) = Some (acc ++ ks, []).
Proof.
  induction ks as [|k ks IH]; intros acc; cbn.
  - rewrite app_nil_r; reflexivity.
  - rewrite IH, <- app_assoc. reflexivity.
Qed.

Lemma ckey_eqb_true a b : ckey_eqb a b = true -> a = b.
Proof. destruct a, b; cbn; intros H; (reflexivity || discriminate H). Qed.

Definition drop1 (self : cache) (prop : ckey) : cache :=
  if pc_mem self prop then pc_del ckey_eqb self prop else self.

Lemma drop1_spec c p k : drop1 c p k = if ckey_eqb k p then None else c k.
Proof.
  unfold drop1, pc_mem, pc_del. destruct (c p) eqn:E; [reflexivity|].
  destruct (ckey_eqb k p) eqn:Ek; [|reflexivity]. apply ckey_eqb_true in Ek. subst. exact E.
Qed.

Lemma drop_all_spec ks : forall c k, fold_left drop1 ks c k = cache_drop ks c k.
Proof.
  induction ks as [|p ks IH]; intros c k; cbn [fold_left].
  - reflexivity.
  - rewrite IH. unfold cache_drop. cbn [existsb]. rewrite drop1_spec.
    destruct (ckey_eqb k p); cbn [orb]; [destruct (existsb (ckey_eqb k) ks); reflexivity|reflexivity].
Qed.

Theorem decorated_call_drops_exactly_the_named_properties_proof : decorated_call_drops_exactly_the_named_properties.
Proof.
  intros ks Hne. unfold gen_invalidate_cache, gen_classify.
  rewrite (classify_props ks []). cbn [app].
  destruct ks as [|k1 [|k2 ks]]; [contradiction| |].
  - (* one property *)
    cbn. eexists. split; [reflexivity|]. intros R func c log. eexists. split; [reflexivity|].
    intros k. change (drop1 c k1 k = cache_drop [k1] c k). rewrite <- (drop_all_spec [k1]). reflexivity.
  - (* several *)
    cbn. eexists. split; [reflexivity|]. intros R func c log. eexists. split; [reflexivity|].
    intros k. rewrite <- (drop_all_spec (k1 :: k2 :: ks)). reflexivity.
Qed.

Lemma classify_none (l : list (callable ckey)) :
  fold_left (fun st_ p => match st_ with None => None | Some (cached_properties, lru_caches) =>
    match p with
    | CProp k_ => Some (cached_properties ++ [k_], lru_caches)
    | CLru n_ => Some (cached_properties, lru_caches ++ [n_])
    | COther => None
    end end) l (@None (list ckey * list nat)) = None.
Proof. induction l as [|p l IH]; cbn; [reflexivity|exact IH]. Qed.

Theorem decorator_refuses_what_it_cannot_invalidate_proof : decorator_refuses_what_it_cannot_invalidate.
Proof.
  split; [reflexivity|]. intros a b. unfold gen_invalidate_cache, gen_classify.
  destruct (isnil (a ++ COther :: b)); [reflexivity|].
  rewrite fold_left_app. cbn [fold_left].
  destruct (fold_left _ a (Some ([], []))) as [[ps ls]|]; rewrite classify_none; reflexivity.
Qed.
