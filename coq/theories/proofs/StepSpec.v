(* StepSpec.v — the element-layer model (Blocks.v, NumPy-derived engine, real instance)
   computes, for every link segment and every origin queue of a valid network, the value
   the METANET specification (Spec.v) prescribes.  Proof of theorem C01. *)
From Coq Require Import Reals Qreals List Lia Lra String Bool Arith.
From SM Require Import Num NumR Graph Engine Expr Types Blocks Spec.
From SM.gen Require Import EnginesNp.
From SM Require Import Validity.
From SM.specs Require Import GraphWF C01_spec.
From SM.proofs Require Import ValidFacts EnginesEq.
From SM.gen Require Import EnginesCs.
From Coq Require Import FunctionalExtensionality.
From SM.proofs Require Import VecR PrimR.
From Coq Require Import List.
Import ListNotations.
Local Open Scope R_scope.

Section StepSpec.
Variable U : universe.
Variable P : params R.
Variable g : graph.
Variable st : state R.
Hypothesis VF : vfacts U g.
Hypothesis WF : forall e, In e (g_edges g) -> wf_link U st (e_link e).
(* the only numeric side conditions the equalities need *)
Hypothesis Hturn : forall e, In e (g_edges g) -> lp P (e_link e) Pturn <> 0.
Hypothesis Hrc : forall e, In e (g_edges g) -> lp P (e_link e) Prhocrit <> 0.

Notation E := (@np_engine R NumR).

Lemma in_out_links e : In e (g_edges g) -> In e (out_links g (e_up e)).
Proof. intros H. unfold out_links. apply filter_In. split; [exact H|]. apply Nat.eqb_refl. Qed.
Lemma in_in_links e : In e (g_edges g) -> In e (in_links g (e_down e)).
Proof. intros H. unfold in_links. apply filter_In. split; [exact H|]. apply Nat.eqb_refl. Qed.
Lemma out_links_edge n e : In e (out_links g n) -> In e (g_edges g) /\ e_up e = n.
Proof. unfold out_links. intros H. apply filter_In in H. destruct H as [H1 H2].
  apply Nat.eqb_eq in H2. auto. Qed.
Lemma in_links_edge n e : In e (in_links g n) -> In e (g_edges g) /\ e_down e = n.
Proof. unfold in_links. intros H. apply filter_In in H. destruct H as [H1 H2].
  apply Nat.eqb_eq in H2. auto. Qed.

Lemma srho_first m : (1 <= length (s_rho st m))%nat -> vfirst (s_rho st m) = srho st m 0.
Proof. reflexivity. Qed.

Lemma link_flow_nth m i :
  wf_link U st m -> (i < lN (linkd U m))%nat ->
  nth i (link_flow E U st m) 0 = sflow U st m i.
Proof.
  intros (HN & Hr & Hv & _) Hi. unfold link_flow, sflow. cbn [e_flow np_engine].
  rewrite np_get_flow_nth by lia. unfold srho, svel, slam, lanes. rewrite zeroR. reflexivity.
Qed.
Lemma link_flow_length m : wf_link U st m -> length (link_flow E U st m) = lN (linkd U m).
Proof.
  intros (HN & Hr & Hv & _). unfold link_flow. cbn [e_flow np_engine].
  rewrite np_get_flow_length. lia.
Qed.
Lemma link_flow_first m : wf_link U st m -> vfirst (link_flow E U st m) = sflow U st m 0.
Proof.
  intros W. unfold vfirst. rewrite zeroR. apply link_flow_nth; [exact W|]. destruct W as (HN & _); lia.
Qed.
Lemma link_flow_last m : wf_link U st m -> vlast (link_flow E U st m) = sflow U st m (slastseg U m).
Proof.
  intros W. rewrite vlast_nth, zeroR, link_flow_length by exact W.
  unfold slastseg, sN. apply link_flow_nth; [exact W|]. destruct W as (HN & _); lia.
Qed.
Lemma v_last m : wf_link U st m -> vlast (s_v st m) = svel st m (slastseg U m).
Proof. intros (HN & Hr & Hv & _). rewrite vlast_nth, Hv. reflexivity. Qed.
Lemma rho_last m : wf_link U st m -> vlast (s_rho st m) = srho st m (slastseg U m).
Proof. intros (HN & Hr & Hv & _). rewrite vlast_nth, Hr. reflexivity. Qed.

Lemma Rpow_1 a : Rpow 1 a = 1.
Proof.
  unfold Rpow. destruct (Req_EM_T 1 0) as [H|H]; [lra|].
  unfold Rpower. rewrite ln_1, Rmult_0_r. apply exp_0.
Qed.

(* the origin laws: generated primitives = Spec.sorigin_flow *)
Lemma origin_flow_spec n o e1 :
  origin_at g n = Some o -> out_links g n = [e1] ->
  origin_flow E U P g st o = Ok (sorigin_flow U P st o (e_link e1)).
Proof.
  intros Ho Hout. unfold origin_flow, exiting_link.
  rewrite (vf_orig_dict _ _ VF _ _ Ho), Hout. cbn [bind].
  assert (He1 : In e1 (g_edges g)).
  { apply (out_links_edge n). rewrite Hout. left. reflexivity. }
  pose proof (WF _ He1) as W. f_equal.
  unfold sorigin_flow. destruct (okind_of U o) as [| |is_in|lim].
  - apply link_flow_first. exact W.
  - cbn [e_main np_engine]. unfold Np.origins_get_mainstream_flow. cbv zeta.
    rewrite np_Veq_s_eq.
    unfold sdemand, smain_qlim, smain_vlim, smain_qspeed, smain_qcap, sVcrit, svel, slam, lanes, vfirst.
    numR. rewrite ?zeroR, ?oneR, ?Q2R_1.
    replace (lp P (e_link e1) Prhocrit / lp P (e_link e1) Prhocrit) with 1
      by (field; apply Hrc; exact He1).
    rewrite Rpow_1.
    replace (-1 / lp P (e_link e1) Pa * 1) with (- (1 / lp P (e_link e1) Pa)) by (unfold Rdiv; ring).
    unfold smain_vlim, svel. numR. rewrite ?zeroR. reflexivity.
  - cbn [e_ramp np_engine]. unfold Np.origins_get_ramp_flow, sdemand, sspace, srho, vfirst. cbv zeta.
    destruct is_in; cbn [String.eqb Ascii.eqb Bool.eqb]; numR; rewrite ?oneR, ?Q2R_1; reflexivity.
  - cbn [e_simp np_engine]. unfold Np.origins_get_simplifiedramp_flow, sdemand, sspace, srho, vfirst.
    cbv zeta.
    destruct lim; cbn [String.eqb Ascii.eqb Bool.eqb]; numR; rewrite ?oneR, ?Q2R_1; reflexivity.
Qed.

Lemma ssum_Rsum {T} (f : T -> R) (l : list T) : ssum f l = Rsum (map f l).
Proof.
  unfold ssum. induction l as [|x l IH]; cbn [fold_right map Rsum]; [apply zeroR|]. rewrite IH. reflexivity.
Qed.
Lemma vcat_singletons {T} (f : T -> R) (l : list T) :
  e_vcat E (map (fun x => [f x]) l) = map f l.
Proof. cbn [e_vcat np_engine]. unfold Np.engine_vcat. apply concat_singletons. Qed.
Lemma vv_mul_maps {T} (f h : T -> R) (l : list T) :
  vv mul (map f l) (map h l) = map (fun x => f x * h x) l.
Proof. unfold vv. induction l as [|x l IH]; cbn [map combine fst snd]; [reflexivity|]. rewrite IH. reflexivity. Qed.

Lemma out_single e e1 : In e (g_edges g) -> out_links g (e_up e) = [e1] -> e1 = e.
Proof.
  intros He Hout. pose proof (in_out_links e He) as H. rewrite Hout in H.
  destruct H as [H|[]]. exact H.
Qed.
Lemma in_single e e1 : In e (g_edges g) -> in_links g (e_down e) = [e1] -> e1 = e.
Proof.
  intros He Hin. pose proof (in_in_links e He) as H. rewrite Hin in H.
  destruct H as [H|[]]. exact H.
Qed.

Lemma origin_speed_spec n o e1 :
  origin_at g n = Some o -> out_links g n = [e1] ->
  origin_speed g st o = Ok (svel st (e_link e1) 0).
Proof.
  intros Ho Hout. unfold origin_speed, exiting_link.
  rewrite (vf_orig_dict _ _ VF _ _ Ho), Hout. reflexivity.
Qed.

Lemma snode_origin_flow_some n o e1 l :
  origin_at g n = Some o -> out_links g n = e1 :: l ->
  snode_origin_flow U P g st n = sorigin_flow U P st o (e_link e1).
Proof. intros Ho Hout. unfold snode_origin_flow. rewrite Ho, Hout. reflexivity. Qed.
Lemma snode_origin_flow_none n :
  origin_at g n = None -> snode_origin_flow U P g st n = 0.
Proof. intros Ho. unfold snode_origin_flow. rewrite Ho. apply zeroR. Qed.

Lemma slast_q_eq e' : In e' (g_edges g) ->
  vlast (link_flow E U st (e_link e')) = slast_q U st e'.
Proof. intros H. apply link_flow_last. apply WF. exact H. Qed.
Lemma slast_v_eq e' : In e' (g_edges g) -> vlast (s_v st (e_link e')) = slast_v U st e'.
Proof. intros H. apply v_last. apply WF. exact H. Qed.

Lemma map_ext_in' {T V} (f h : T -> V) l : (forall x, In x l -> f x = h x) -> map f l = map h l.
Proof. apply map_ext_in. Qed.

(* upstream speed and inflow of the first segment of e (nodes.py:64-140) *)
Lemma node_up_spec e :
  In e (g_edges g) ->
  node_up_speed_flow E U P g st (e_up e) (e_link e) =
  Ok (supspeed U g st e, sinflow U P g st e).
Proof.
  intros He. set (n := e_up e).
  pose proof (Hturn _ He) as Hb.
  unfold node_up_speed_flow, supspeed, sinflow, snode_Q. fold n.
  rewrite !ssum_Rsum.
  destruct (origin_at g n) as [o|] eqn:Ho.
  - destruct (vf_orig_out _ _ VF _ _ Ho) as [e1 Hout].
    assert (e1 = e) by (apply out_single; assumption). subst e1.
    rewrite (origin_speed_spec _ _ _ Ho Hout), (origin_flow_spec _ _ _ Ho Hout). cbn [bind].
    rewrite (snode_origin_flow_some _ _ _ _ Ho Hout). rewrite Hout.
    destruct (in_links g n) as [|e1 [|e2 l]] eqn:Hin.
    + f_equal. f_equal. unfold Rsum; cbn [map fold_right]; numR. unfold sturn. field. lra.
    + assert (In e1 (g_edges g)) by (apply (in_links_edge n); rewrite Hin; left; reflexivity).
      cbn [length Nat.ltb Nat.leb]. f_equal. f_equal; [apply slast_v_eq; assumption|].
      rewrite slast_q_eq by assumption. numR. unfold Rsum; cbn [map fold_right]; numR. unfold sturn. field. lra.
    + set (es := e1 :: e2 :: l) in *.
      assert (Hes : forall x, In x es -> In x (g_edges g)).
      { intros x Hx. apply (in_links_edge n). rewrite Hin. exact Hx. }
      rewrite !vcat_singletons. cbn [option_map snd e_up_speed e_up_flow np_engine].
      unfold Np.nodes_get_upstream_speed, Np.nodes_get_upstream_flow.
      rewrite (map_ext_in' (fun e0 => vlast (s_v st (e_link e0))) (slast_v U st) es)
        by (intros; apply slast_v_eq; auto).
      rewrite (map_ext_in' (fun e0 => vlast (link_flow E U st (e_link e0))) (slast_q U st) es)
        by (intros; apply slast_q_eq; auto).
      rewrite vv_mul_maps, !vsum_Rsum. numR. rewrite ?ssum_Rsum. unfold sturn. reflexivity.
  - rewrite (snode_origin_flow_none _ Ho).
    destruct (in_links g n) as [|e1 [|e2 l]] eqn:Hin.
    + exfalso. apply (vf_src _ _ VF e He); assumption.
    + assert (In e1 (g_edges g)) by (apply (in_links_edge n); rewrite Hin; left; reflexivity).
      cbn [bind]. f_equal. f_equal; [apply slast_v_eq; assumption|].
      rewrite slast_q_eq by assumption.
      destruct (1 <? length (out_links g n))%nat eqn:Hlen.
      * rewrite vcat_singletons. cbn [e_vcat e_up_flow np_engine].
        unfold Np.nodes_get_upstream_flow, Np.engine_vcat. cbn [concat app].
        rewrite !vsum_Rsum. numR. unfold Rsum; cbn [map fold_right]; numR. unfold sturn. unfold Rdiv. ring.
      * apply Nat.ltb_ge in Hlen. pose proof (in_out_links e He) as Hine. fold n in Hine.
        destruct (out_links g n) as [|x [|y l']] eqn:Hout; [destruct Hine| |simpl in Hlen; lia].
        destruct Hine as [->|[]]. unfold Rsum; cbn [map fold_right]; numR. unfold sturn. field. lra.
    + set (es := e1 :: e2 :: l) in *.
      assert (Hes : forall x, In x es -> In x (g_edges g)).
      { intros x Hx. apply (in_links_edge n). rewrite Hin. exact Hx. }
      cbn [bind]. rewrite !vcat_singletons. cbn [option_map snd e_up_speed e_up_flow np_engine].
      unfold Np.nodes_get_upstream_speed, Np.nodes_get_upstream_flow.
      rewrite (map_ext_in' (fun e0 => vlast (s_v st (e_link e0))) (slast_v U st) es)
        by (intros; apply slast_v_eq; auto).
      rewrite (map_ext_in' (fun e0 => vlast (link_flow E U st (e_link e0))) (slast_q U st) es)
        by (intros; apply slast_q_eq; auto).
      rewrite vv_mul_maps, !vsum_Rsum. numR. rewrite ?ssum_Rsum. unfold sturn.
      f_equal. f_equal. ring.
Qed.

(* virtual downstream density of the last segment of e (nodes.py:26-62, destinations.py) *)
Lemma node_down_spec e :
  In e (g_edges g) ->
  node_down_density E U P g st (e_down e) = Ok (sdowndens U P g st e).
Proof.
  intros He. set (n := e_down e). unfold node_down_density, sdowndens. fold n.
  destruct (dest_at g n) as [d|] eqn:Hd.
  - destruct (vf_dest_in _ _ VF _ _ Hd) as [e1 Hin].
    assert (e1 = e) by (apply in_single; assumption). subst e1.
    unfold dest_density, entering_link. rewrite (vf_dest_dict _ _ VF _ _ Hd), Hin. cbn [bind].
    rewrite (rho_last _ (WF _ He)). reflexivity.
  - destruct (out_links g n) as [|e1 [|e2 l]] eqn:Hout.
    + exfalso. apply (vf_sink _ _ VF e He); assumption.
    + reflexivity.
    + f_equal. rewrite vcat_singletons. cbn [e_down_dens np_engine].
      unfold Np.nodes_get_downstream_density. rewrite map_map, !vsum_Rsum, !ssum_Rsum.
      reflexivity.
Qed.

(* ---- vector shifts of Link.step_dynamics (links.py:198-208) ---- *)
Lemma shift_up (x0 : R) (x : list R) N :
  (1 <= N)%nat -> length x = N ->
  (if (1 <? N)%nat then e_vcat E [[x0]; vinit x] else [x0]) = x0 :: vinit x.
Proof.
  intros HN Hx. destruct (1 <? N)%nat eqn:Hm.
  - cbn [e_vcat np_engine]. unfold Np.engine_vcat. cbn [concat app]. rewrite app_nil_r. reflexivity.
  - apply Nat.ltb_ge in Hm. destruct x as [|a [|b x]]; cbn [length] in Hx; try lia. reflexivity.
Qed.
Lemma shift_down (xN : R) (x : list R) N :
  (1 <= N)%nat -> length x = N ->
  (if (1 <? N)%nat then e_vcat E [vtail x; [xN]] else [xN]) = vtail x ++ [xN].
Proof.
  intros HN Hx. destruct (1 <? N)%nat eqn:Hm.
  - cbn [e_vcat np_engine]. unfold Np.engine_vcat. cbn [concat]. rewrite app_nil_r. reflexivity.
  - apply Nat.ltb_ge in Hm. destruct x as [|a [|b x]]; cbn [length] in Hx; try lia. reflexivity.
Qed.
Lemma nth_shift_up (x0 : R) (x : list R) i :
  (i < length x)%nat -> nth i (x0 :: vinit x) 0 = if Nat.eqb i 0 then x0 else nth (i - 1) x 0.
Proof.
  intros Hi. destruct i; [reflexivity|]. cbn [nth Nat.eqb]. rewrite Nat.sub_succ, Nat.sub_0_r.
  apply nth_vinit. lia.
Qed.
Lemma nth_shift_down (xN : R) (x : list R) i :
  (i < length x)%nat ->
  nth i (vtail x ++ [xN]) 0 = if Nat.eqb i (length x - 1) then xN else nth (i + 1) x 0.
Proof.
  intros Hi. destruct (Nat.eqb_spec i (length x - 1)) as [->|Hne].
  - rewrite app_nth2 by (rewrite vtail_length; lia). rewrite vtail_length, Nat.sub_diag. reflexivity.
  - rewrite app_nth1 by (rewrite vtail_length; lia). rewrite nth_vtail. f_equal. lia.
Qed.

(* ---- equilibrium speed: plain or speed-limited link (links.py:263-264, 344-353) ---- *)
Lemma Veq_spec m i :
  wf_link U st m -> (i < lN (linkd U m))%nat ->
  nth i (match lvsl (linkd U m) with
         | None => e_Veq E (s_rho st m) (lp P m Pvfree) (lp P m Prhocrit) (lp P m Pa)
         | Some vsl => e_cVeq E (s_rho st m) (s_vc st m) vsl (lp P m Palpha)
                         (lp P m Pvfree) (lp P m Prhocrit) (lp P m Pa)
         end) 0 = sV U P st m i.
Proof.
  intros (HN & Hr & Hv & Hvsl) Hi. unfold sV, sVeq, sVeq_at, srho.
  destruct (lvsl (linkd U m)) as [vsl|].
  - destruct Hvsl as (Hnd & Hlt & Hlen). cbn [e_cVeq np_engine].
    rewrite np_cVeq_nth; try assumption; try lia.
    2:{ rewrite Hr. exact Hlt. }
    destruct (index_of i vsl); numR; rewrite ?oneR, ?zeroR;
      replace (-1 / lp P m Pa) with (- (1 / lp P m Pa)) by (unfold Rdiv; ring); reflexivity.
  - cbn [e_Veq np_engine]. rewrite np_Veq_nth by lia. numR. rewrite ?oneR, ?zeroR.
    replace (-1 / lp P m Pa) with (- (1 / lp P m Pa)) by (unfold Rdiv; ring). reflexivity.
Qed.
Lemma Veq_length m :
  wf_link U st m ->
  length (match lvsl (linkd U m) with
         | None => e_Veq E (s_rho st m) (lp P m Pvfree) (lp P m Prhocrit) (lp P m Pa)
         | Some vsl => e_cVeq E (s_rho st m) (s_vc st m) vsl (lp P m Palpha)
                         (lp P m Pvfree) (lp P m Prhocrit) (lp P m Pa)
         end) = lN (linkd U m).
Proof.
  intros (HN & Hr & Hv & Hvsl). destruct (lvsl (linkd U m)).
  - cbn [e_cVeq np_engine]. rewrite np_cVeq_length. exact Hr.
  - cbn [e_Veq np_engine]. rewrite np_Veq_length. exact Hr.
Qed.

(* merging ramp flow and lane drop seen by the speed update = Spec.smerge / Spec.sdrop *)
Lemma q_ramp_spec e :
  In e (g_edges g) ->
  match gdelta P, origin_at g (e_up e), in_links g (e_up e) with
  | Some _, Some o, _ :: _ =>
      if is_ramp (okind_of U o) then bind (origin_flow E U P g st o) (fun q_o => Ok (Some q_o))
      else Ok None
  | _, _, _ => Ok None
  end = Ok (option_map snd (smerge U P g st e)).
Proof.
  intros He. unfold smerge.
  destruct (gdelta P) as [de|]; [|reflexivity].
  destruct (origin_at g (e_up e)) as [o|] eqn:Ho; [|reflexivity].
  destruct (in_links g (e_up e)) as [|e1 l]; [reflexivity|].
  destruct (is_ramp (okind_of U o)); [|reflexivity].
  destruct (vf_orig_out _ _ VF _ _ Ho) as [e1' Hout].
  rewrite (origin_flow_spec _ _ _ Ho Hout). cbn [bind option_map snd].
  rewrite (snode_origin_flow_some _ _ _ _ Ho Hout). reflexivity.
Qed.

Definition model_drop (m : nat) (n_down : nat) : option R :=
  match gphi P with
  | Some _ =>
      match out_links g n_down with
      | [e] => let dl := (llanes (linkd U m) - llanes (linkd U (e_link e)))%Q in
               if Qeq_bool dl 0 then None else Some (ofQ dl)
      | _ => None
      end
  | None => None
  end.
Lemma drop_spec e : model_drop (e_link e) (e_down e) = option_map snd (sdrop U P g e).
Proof.
  unfold model_drop, sdrop. destruct (gphi P); [|reflexivity].
  destruct (out_links g (e_down e)) as [|e1 [|e2 l]]; try reflexivity.
  destruct (Qeq_bool _ _); reflexivity.
Qed.

Theorem link_step_spec e :
  In e (g_edges g) ->
  exists rho' v',
    link_step E U P g st no_options (e_link e) = Ok (rho', v') /\
    length rho' = lN (linkd U (e_link e)) /\ length v' = lN (linkd U (e_link e)) /\
    forall i, (i < lN (linkd U (e_link e)))%nat ->
      nth i rho' 0 = spec_rho_next U P g st e i /\ nth i v' 0 = spec_v_next U P g st e i.
Proof.
  intros He. pose proof (WF _ He) as W. set (m := e_link e) in W.
  destruct W as (HN & Hr & Hv & Hvsl).
  assert (W : wf_link U st m) by (repeat split; assumption).
  unfold link_step, link_raw, link_raw_V, link_Veq. rewrite (vf_link _ _ VF _ He). cbn [bind fst snd].
  rewrite (node_up_spec e He). cbn [bind fst snd].
  rewrite (node_down_spec e He). cbn [bind].
  rewrite (q_ramp_spec e He). cbn [bind].
  fold (model_drop (e_link e) (e_down e)). rewrite (drop_spec e). fold m.
  rewrite (shift_up _ _ _ HN (link_flow_length m W)).
  rewrite (shift_up _ _ _ HN Hv).
  rewrite (shift_down _ _ _ HN Hr).
  cbn [pn_rho pn_v no_options].
  set (Veq := match lvsl (linkd U m) with None => _ | Some vsl => _ end).
  assert (LV : length Veq = lN (linkd U m)) by (apply Veq_length; exact W).
  set (q := link_flow E U st m).
  assert (Lq : length q = lN (linkd U m)) by (apply link_flow_length; exact W).
  set (q_up := sinflow U P g st e :: vinit q).
  set (v_up := supspeed U g st e :: vinit (s_v st m)).
  set (rho_down := vtail (s_rho st m) ++ [sdowndens U P g st e]).
  assert (Lqu : length q_up = lN (linkd U m))
    by (unfold q_up; cbn [length]; rewrite vinit_length; lia).
  assert (Lvu : length v_up = lN (linkd U m))
    by (unfold v_up; cbn [length]; rewrite vinit_length; lia).
  assert (Lrd : length rho_down = lN (linkd U m))
    by (unfold rho_down; rewrite app_length, vtail_length; cbn [length]; lia).
  cbn [e_step_rho e_step_v np_engine].
  set (rho' := Np.links_step_density _ _ _ _ _ _).
  set (v' := Np.links_step_speed _ _ _ _ _ _ _ _ _ _ _ _ _ _ _ _).
  assert (Lr' : length rho' = lN (linkd U m)).
  { unfold rho'. rewrite np_step_density_length; lia. }
  assert (Lv' : length v' = lN (linkd U m)).
  { unfold v'. rewrite np_step_speed_length; lia. }
  exists rho', v'. cbn [bind fst snd pn_rho pn_v no_options].
  rewrite Lr', Lv', Hr, Hv, !Nat.eqb_refl. cbn [andb].
  split; [reflexivity|]. split; [reflexivity|]. split; [reflexivity|].
  intros i Hi. split.
  - unfold rho', spec_rho_next. fold m.
    rewrite np_step_density_nth by lia.
    unfold q_up. rewrite nth_shift_up by lia. unfold q.
    rewrite (link_flow_nth m i W Hi). unfold sq_up. fold m.
    unfold srho, slam, lanes. rewrite zeroR. numR.
    destruct (Nat.eqb_spec i 0) as [->|Hi0].
    + unfold Rdiv. rewrite Rinv_mult. ring.
    + rewrite (link_flow_nth m (i - 1) W) by lia. unfold Rdiv. rewrite Rinv_mult. ring.
  - unfold v'. rewrite np_step_speed_nth by lia.
    unfold spec_v_next. fold m. cbv zeta.
    unfold ss_base, ss_merge, ss_drop. rewrite Hv.
    unfold v_up at 1. rewrite nth_shift_up by lia.
    unfold rho_down at 1. rewrite nth_shift_down by lia. rewrite Hr.
    unfold Veq. rewrite (Veq_spec m i W Hi).
    unfold sv_up, srho_down, slastseg, sN, svel, srho, slam, lanes. fold m. rewrite zeroR. numR.
    assert (Hm : forall de qr, smerge U P g st e = Some (de, qr) -> gdelta P = Some de).
    { unfold smerge. intros de qr. destruct (gdelta P); [|discriminate].
      destruct (origin_at g (e_up e)); [|discriminate].
      destruct (in_links g (e_up e)); [discriminate|].
      destruct (is_ramp _); [|discriminate]. intros H; inversion H; reflexivity. }
    assert (Hd : forall ph dl, sdrop U P g e = Some (ph, dl) -> gphi P = Some ph).
    { unfold sdrop. intros ph dl. destruct (gphi P); [|discriminate].
      destruct (out_links g (e_down e)) as [|e1 [|e2 l]]; try discriminate.
      destruct (Qeq_bool _ _); [discriminate|]. intros H; inversion H; reflexivity. }
    destruct (smerge U P g st e) as [[de qr]|] eqn:Em; [rewrite (Hm _ _ eq_refl)|];
      (destruct (sdrop U P g e) as [[ph dl]|] eqn:Ed; [rewrite (Hd _ _ eq_refl)|]);
      cbn [option_map snd];
      destruct (Nat.eqb_spec i 0) as [->|Hi0];
      match goal with |- context [Nat.eqb ?a (lN (linkd U m) - 1)] =>
        destruct (Nat.eqb_spec a (lN (linkd U m) - 1)) as [Hl|Hl] end; rewrite <- ?Hl;
      unfold Rdiv; rewrite ?Rinv_mult; ring.
Qed.

(* origin queues (origins.py:137-175, 303-341) *)
Theorem origin_step_spec n o e1 :
  origin_at g n = Some o -> out_links g n = [e1] ->
  origin_step E U P g st no_options o =
  Ok (if is_queued (okind_of U o) then Some (spec_w_next U P st o (e_link e1)) else None).
Proof.
  intros Ho Hout. unfold origin_step. destruct (is_queued (okind_of U o)); [|reflexivity].
  rewrite (origin_flow_spec _ _ _ Ho Hout). cbn [bind pn_w no_options e_step_w np_engine].
  unfold Np.origins_step_queue, spec_w_next. reflexivity.
Qed.
End StepSpec.

(* ---- the whole network step ---- *)
Lemma init_state_noopt (E : engine R) (st : state R) : init_state E no_options st = st.
Proof. destruct st. reflexivity. Qed.

Lemma mapM_Forall2 {T V} (f : T -> res V) (Q : T -> V -> Prop) l :
  (forall x, In x l -> exists y, f x = Ok y /\ Q x y) ->
  exists ys, mapM f l = Ok ys /\ Forall2 Q l ys.
Proof.
  induction l as [|x l IH]; intros H.
  - exists []. split; [reflexivity|constructor].
  - destruct (H x (or_introl eq_refl)) as (y & Hy & Qy).
    destruct IH as (ys & Hys & Fys); [intros z Hz; apply H; right; exact Hz|].
    exists (y :: ys). split; [|constructor; assumption].
    cbn [mapM]. rewrite Hy. cbn [bind]. rewrite Hys. reflexivity.
Qed.

Theorem np_step_is_METANET : step_is_METANET (@np_engine R NumR).
Proof.
  intros U P g st WFG V WF Hturn Hrc.
  pose proof (validb_vfacts U g WFG V) as VF.
  unfold network_step. rewrite init_state_noopt.
  destruct (mapM_Forall2
              (fun o => bind (origin_step np_engine U P g st no_options o) (fun r => Ok (o, r)))
              (origin_result_ok U P g st) (map fst (origins_dict g))) as (ws & Hws & Fws).
  { intros o Ho. destruct (vf_orig_dict_inv _ _ VF o Ho) as (n & Hn).
    destruct (vf_orig_out _ _ VF _ _ Hn) as (e1 & Hout).
    rewrite (origin_step_spec U P g st VF WF Hrc n o e1 Hn Hout). cbn [bind].
    eexists. split; [reflexivity|]. split; [reflexivity|]. exists n, e1. auto. }
  destruct (mapM_Forall2
              (fun e => bind (link_step np_engine U P g st no_options (e_link e))
                             (fun r => Ok (e_link e, r)))
              (link_result_ok U P g st) (links g)) as (ls & Hls & Fls).
  { intros e He. apply (vf_links_edges _ _ VF) in He.
    destruct (link_step_spec U P g st VF WF Hturn Hrc e He) as (rho' & v' & Hs & L1 & L2 & Hn).
    rewrite Hs. cbn [bind]. eexists. split; [reflexivity|].
    unfold link_result_ok. cbn [fst snd]. auto. }
  rewrite Hws. cbn [bind]. rewrite Hls. cbn [bind].
  eexists. split; [reflexivity|]. cbn [o_links o_queues]. auto.
Qed.

(* the CasADi-derived engine record is the NumPy-derived one (C15 lemmas, pointwise) *)
Ltac funext_by L := repeat (apply functional_extensionality; intro); symmetry; apply L.
Lemma cs_engine_eq_np {A} {NA : Num A} : @cs_engine A NA = @np_engine A NA.
Proof.
  assert (H1 : @Cs.nodes_get_upstream_flow A NA = Np.nodes_get_upstream_flow)
    by funext_by @eq_nodes_get_upstream_flow.
  assert (H2 : @Cs.nodes_get_upstream_speed A NA = Np.nodes_get_upstream_speed)
    by funext_by @eq_nodes_get_upstream_speed.
  assert (H3 : @Cs.nodes_get_downstream_density A NA = Np.nodes_get_downstream_density)
    by funext_by @eq_nodes_get_downstream_density.
  assert (H4 : @Cs.links_get_flow A NA = Np.links_get_flow) by funext_by @eq_links_get_flow.
  assert (H5 : @Cs.links_step_density A NA = Np.links_step_density)
    by funext_by @eq_links_step_density.
  assert (H6 : @Cs.links_step_speed A NA = Np.links_step_speed) by funext_by @eq_links_step_speed.
  assert (H7 : @Cs.links_Veq A NA = Np.links_Veq) by funext_by @eq_links_Veq.
  assert (H8 : @Cs.links_controlled_Veq A NA = Np.links_controlled_Veq)
    by funext_by @eq_links_controlled_Veq.
  assert (H9 : @Cs.origins_step_queue A NA = Np.origins_step_queue)
    by funext_by @eq_origins_step_queue.
  assert (H10 : @Cs.origins_get_mainstream_flow A NA = Np.origins_get_mainstream_flow)
    by funext_by @eq_origins_get_mainstream_flow.
  assert (H11 : @Cs.origins_get_ramp_flow A NA = Np.origins_get_ramp_flow)
    by funext_by @eq_origins_get_ramp_flow.
  assert (H12 : @Cs.origins_get_simplifiedramp_flow A NA = Np.origins_get_simplifiedramp_flow)
    by funext_by @eq_origins_get_simplifiedramp_flow.
  assert (H13 : @Cs.destinations_get_congestion_free_downstream_density A NA =
                Np.destinations_get_congestion_free_downstream_density) by funext_by @eq_dest_free.
  assert (H14 : @Cs.destinations_get_congested_downstream_density A NA =
                Np.destinations_get_congested_downstream_density) by funext_by @eq_dest_cong.
  assert (H15 : @Cs.engine_vcat A = Np.engine_vcat) by funext_by @eq_engine_vcat.
  assert (H16 : @Cs.engine_max A NA = Np.engine_max) by funext_by @eq_engine_max.
  assert (H17 : @Cs.engine_max_s A NA = Np.engine_max_s) by funext_by @eq_engine_max_s.
  unfold cs_engine, np_engine.
  rewrite H1, H2, H3, H4, H5, H6, H7, H8, H9, H10, H11, H12, H13, H14, H15, H16, H17.
  reflexivity.
Qed.

Theorem cs_step_is_METANET : step_is_METANET (@cs_engine R NumR).
Proof. rewrite cs_engine_eq_np. exact np_step_is_METANET. Qed.
