From Coq Require Import List Arith Bool Lia.
From SM Require Import Graph Construct.
From SM.specs Require Import C09_spec.
Import ListNotations.

Lemma obj_eqb_eq a b : obj_eqb a b = true <-> a = b.
Proof.
  destruct a, b; simpl; try (split; [discriminate|intros H; discriminate]);
    rewrite Nat.eqb_eq; split; intros H; try congruence; inversion H; reflexivity.
Qed.
Lemma obj_eqb_refl a : obj_eqb a a = true.
Proof. apply obj_eqb_eq. reflexivity. Qed.
Lemma obj_eqb_neq a b : obj_eqb a b = false <-> a <> b.
Proof.
  split.
  - intros H E. apply obj_eqb_eq in E. congruence.
  - intros H. destruct (obj_eqb a b) eqn:E; [apply obj_eqb_eq in E; contradiction|reflexivity].
Qed.
Lemma obj_eqb_sym a b : obj_eqb a b = obj_eqb b a.
Proof.
  destruct (obj_eqb a b) eqn:E.
  - apply obj_eqb_eq in E. subst. symmetry. apply obj_eqb_refl.
  - symmetry. apply obj_eqb_neq. apply obj_eqb_neq in E. congruence.
Qed.

Lemma has_node_In g x : has_node g x = true <-> a_node g x.
Proof.
  unfold has_node, a_node. rewrite existsb_exists. split.
  - intros (c & Hc & E). apply obj_eqb_eq in E. subst. apply in_map. exact Hc.
  - intros H. apply in_map_iff in H. destruct H as (c & E & Hc). exists c. split; [exact Hc|].
    apply obj_eqb_eq. exact E.
Qed.
Lemma has_node_false g x : has_node g x = false <-> ~ a_node g x.
Proof.
  split.
  - intros H Hn. apply has_node_In in Hn. congruence.
  - intros H. destruct (has_node g x) eqn:E; [apply has_node_In in E; contradiction|reflexivity].
Qed.

(* ---- find on node lists ---- *)
Definition nfind (l : list cnode) (x : obj) := find (fun c => obj_eqb (c_obj c) x) l.
Lemma nfind_app l l' x :
  nfind (l ++ l') x = match nfind l x with Some c => Some c | None => nfind l' x end.
Proof. unfold nfind. induction l as [|a l IH]; simpl; [reflexivity|]. destruct (obj_eqb (c_obj a) x); auto. Qed.
Lemma nfind_none l x : ~ In x (map c_obj l) -> nfind l x = None.
Proof.
  unfold nfind. induction l as [|a l IH]; simpl; intros H; [reflexivity|].
  destruct (obj_eqb (c_obj a) x) eqn:E; [apply obj_eqb_eq in E; exfalso; apply H; auto|].
  apply IH. intros Hin. apply H. auto.
Qed.
Lemma nfind_upd f x l y :
  (forall c, c_obj (f c) = c_obj c) ->
  nfind (upd_node f x l) y = match nfind l y with
                              | Some c => Some (if obj_eqb (c_obj c) x then f c else c)
                              | None => None end.
Proof.
  intros Hf. unfold nfind, upd_node. induction l as [|a l IH]; simpl; [reflexivity|].
  destruct (obj_eqb (c_obj a) x) eqn:E; simpl; rewrite ?Hf; destruct (obj_eqb (c_obj a) y) eqn:E2; auto;
    rewrite ?E; reflexivity.
Qed.
Lemma map_obj_upd f x l : (forall c, c_obj (f c) = c_obj c) -> map c_obj (upd_node f x l) = map c_obj l.
Proof.
  intros Hf. unfold upd_node. induction l as [|a l IH]; simpl; [reflexivity|].
  rewrite IH. destruct (obj_eqb (c_obj a) x); rewrite ?Hf; reflexivity.
Qed.

(* ---- add_node ---- *)
Lemma add_node_spec g x :
  (forall y, a_node (add_node g x) y <-> y = x \/ a_node g y) /\
  (forall y, a_orig (add_node g x) y = a_orig g y) /\
  (forall y, a_dest (add_node g x) y = a_dest g y) /\
  (forall u d, a_edge (add_node g x) u d = a_edge g u d).
Proof.
  unfold add_node. destruct (has_node g x) eqn:H.
  - apply has_node_In in H. repeat split; try reflexivity.
    + intros Hy. right. exact Hy.
    + intros [->|Hy]; assumption.
  - apply has_node_false in H. repeat split; try reflexivity.
    + unfold a_node. simpl. rewrite map_app, in_app_iff. simpl. intros [Hy|[<-|[]]]; auto.
    + unfold a_node. simpl. rewrite map_app, in_app_iff. simpl. intros [->|Hy]; auto.
    + intros y. unfold a_orig. simpl. fold (nfind (c_nodes g ++ [{| c_obj := x; c_orig := None; c_dest := None |}]) y).
      fold (nfind (c_nodes g) y). rewrite nfind_app. destruct (nfind (c_nodes g) y); [reflexivity|].
      unfold nfind. simpl. destruct (obj_eqb x y); reflexivity.
    + intros y. unfold a_dest. simpl. fold (nfind (c_nodes g ++ [{| c_obj := x; c_orig := None; c_dest := None |}]) y).
      fold (nfind (c_nodes g) y). rewrite nfind_app. destruct (nfind (c_nodes g) y); [reflexivity|].
      unfold nfind. simpl. destruct (obj_eqb x y); reflexivity.
Qed.

Lemma add_origin_spec g o x :
  (forall y, a_node (add_origin g o x) y <-> y = x \/ a_node g y) /\
  (forall y, a_orig (add_origin g o x) y = if obj_eqb y x then Some o else a_orig g y) /\
  (forall y, a_dest (add_origin g o x) y = a_dest g y) /\
  (forall u d, a_edge (add_origin g o x) u d = a_edge g u d).
Proof.
  unfold add_origin. destruct (has_node g x) eqn:H.
  - apply has_node_In in H.
    set (f := fun c => {| c_obj := c_obj c; c_orig := Some o; c_dest := c_dest c |}).
    assert (Hf : forall c, c_obj (f c) = c_obj c) by reflexivity.
    repeat split; try reflexivity.
    + unfold a_node. simpl. rewrite (map_obj_upd f x _ Hf). auto.
    + unfold a_node. simpl. rewrite (map_obj_upd f x _ Hf). intros [->|Hy]; assumption.
    + intros y. unfold a_orig. simpl. fold (nfind (upd_node f x (c_nodes g)) y). fold (nfind (c_nodes g) y).
      rewrite (nfind_upd f x _ y Hf). destruct (nfind (c_nodes g) y) as [c|] eqn:F.
      * assert (Hc : c_obj c = y).
        { unfold nfind in F. apply find_some in F. destruct F as [_ E]. apply obj_eqb_eq in E. exact E. }
        rewrite Hc. destruct (obj_eqb y x); reflexivity.
      * destruct (obj_eqb y x) eqn:E; [|reflexivity]. apply obj_eqb_eq in E. subst y. exfalso.
        unfold a_node in H. apply in_map_iff in H. destruct H as (c & Ec & Hc).
        unfold nfind in F. pose proof (find_none _ _ F c Hc) as Hn. simpl in Hn. rewrite Ec, obj_eqb_refl in Hn.
        discriminate.
    + intros y. unfold a_dest. simpl. fold (nfind (upd_node f x (c_nodes g)) y). fold (nfind (c_nodes g) y).
      rewrite (nfind_upd f x _ y Hf). destruct (nfind (c_nodes g) y) as [c|]; [|reflexivity].
      destruct (obj_eqb (c_obj c) x); reflexivity.
  - apply has_node_false in H. repeat split; try reflexivity.
    + unfold a_node. simpl. rewrite map_app, in_app_iff. simpl. intros [Hy|[<-|[]]]; auto.
    + unfold a_node. simpl. rewrite map_app, in_app_iff. simpl. intros [->|Hy]; auto.
    + intros y. unfold a_orig. simpl. fold (nfind (c_nodes g ++ [{| c_obj := x; c_orig := Some o; c_dest := None |}]) y).
      fold (nfind (c_nodes g) y). rewrite nfind_app. destruct (nfind (c_nodes g) y) as [c|] eqn:F.
      * destruct (obj_eqb y x) eqn:E; [|reflexivity]. apply obj_eqb_eq in E. subst y. exfalso. apply H.
        unfold nfind in F. apply find_some in F. destruct F as [Hin E]. apply obj_eqb_eq in E. rewrite <- E.
        apply in_map. exact Hin.
      * unfold nfind. simpl. rewrite (obj_eqb_sym x y). destruct (obj_eqb y x); reflexivity.
    + intros y. unfold a_dest. simpl. fold (nfind (c_nodes g ++ [{| c_obj := x; c_orig := Some o; c_dest := None |}]) y).
      fold (nfind (c_nodes g) y). rewrite nfind_app. destruct (nfind (c_nodes g) y); [reflexivity|].
      unfold nfind. simpl. destruct (obj_eqb x y); reflexivity.
Qed.

Lemma add_destination_spec g o x :
  (forall y, a_node (add_destination g o x) y <-> y = x \/ a_node g y) /\
  (forall y, a_dest (add_destination g o x) y = if obj_eqb y x then Some o else a_dest g y) /\
  (forall y, a_orig (add_destination g o x) y = a_orig g y) /\
  (forall u d, a_edge (add_destination g o x) u d = a_edge g u d).
Proof.
  unfold add_destination. destruct (has_node g x) eqn:H.
  - apply has_node_In in H.
    set (f := fun c => {| c_obj := c_obj c; c_orig := c_orig c; c_dest := Some o |}).
    assert (Hf : forall c, c_obj (f c) = c_obj c) by reflexivity.
    repeat split; try reflexivity.
    + unfold a_node. simpl. rewrite (map_obj_upd f x _ Hf). auto.
    + unfold a_node. simpl. rewrite (map_obj_upd f x _ Hf). intros [->|Hy]; assumption.
    + intros y. unfold a_dest. simpl. fold (nfind (upd_node f x (c_nodes g)) y). fold (nfind (c_nodes g) y).
      rewrite (nfind_upd f x _ y Hf). destruct (nfind (c_nodes g) y) as [c|] eqn:F.
      * assert (Hc : c_obj c = y).
        { unfold nfind in F. apply find_some in F. destruct F as [_ E]. apply obj_eqb_eq in E. exact E. }
        rewrite Hc. destruct (obj_eqb y x); reflexivity.
      * destruct (obj_eqb y x) eqn:E; [|reflexivity]. apply obj_eqb_eq in E. subst y. exfalso.
        unfold a_node in H. apply in_map_iff in H. destruct H as (c & Ec & Hc).
        unfold nfind in F. pose proof (find_none _ _ F c Hc) as Hn. simpl in Hn. rewrite Ec, obj_eqb_refl in Hn.
        discriminate.
    + intros y. unfold a_orig. simpl. fold (nfind (upd_node f x (c_nodes g)) y). fold (nfind (c_nodes g) y).
      rewrite (nfind_upd f x _ y Hf). destruct (nfind (c_nodes g) y) as [c|]; [|reflexivity].
      destruct (obj_eqb (c_obj c) x); reflexivity.
  - apply has_node_false in H. repeat split; try reflexivity.
    + unfold a_node. simpl. rewrite map_app, in_app_iff. simpl. intros [Hy|[<-|[]]]; auto.
    + unfold a_node. simpl. rewrite map_app, in_app_iff. simpl. intros [->|Hy]; auto.
    + intros y. unfold a_dest. simpl. fold (nfind (c_nodes g ++ [{| c_obj := x; c_orig := None; c_dest := Some o |}]) y).
      fold (nfind (c_nodes g) y). rewrite nfind_app. destruct (nfind (c_nodes g) y) as [c|] eqn:F.
      * destruct (obj_eqb y x) eqn:E; [|reflexivity]. apply obj_eqb_eq in E. subst y. exfalso. apply H.
        unfold nfind in F. apply find_some in F. destruct F as [Hin E]. apply obj_eqb_eq in E. rewrite <- E.
        apply in_map. exact Hin.
      * unfold nfind. simpl. rewrite (obj_eqb_sym x y). destruct (obj_eqb y x); reflexivity.
    + intros y. unfold a_orig. simpl. fold (nfind (c_nodes g ++ [{| c_obj := x; c_orig := None; c_dest := Some o |}]) y).
      fold (nfind (c_nodes g) y). rewrite nfind_app. destruct (nfind (c_nodes g) y); [reflexivity|].
      unfold nfind. simpl. destruct (obj_eqb x y); reflexivity.
Qed.

(* ---- add_link ---- *)
Definition efind (l : list cedge) (u d : obj) := find (fun e => obj_eqb (c_up e) u && obj_eqb (c_down e) d) l.
Lemma has_edge_find g u d : has_edge g u d = true <-> efind (c_edges g) u d <> None.
Proof.
  unfold has_edge, efind. split.
  - intros H. apply existsb_exists in H. destruct H as (e & He & Ee).
    destruct (find _ (c_edges g)) eqn:F; [discriminate|]. pose proof (find_none _ _ F e He) as Hn.
    simpl in Hn. congruence.
  - intros H. destruct (find _ (c_edges g)) as [e|] eqn:F; [|congruence]. apply find_some in F.
    apply existsb_exists. exists e. exact F.
Qed.

Lemma efind_map_replace l u d lk u' d' :
  efind (map (fun e => if obj_eqb (c_up e) u && obj_eqb (c_down e) d
                       then {| c_up := u; c_down := d; c_link := lk |} else e) l) u' d' =
  match efind l u' d' with
  | Some e => Some (if obj_eqb (c_up e) u && obj_eqb (c_down e) d
                    then {| c_up := u; c_down := d; c_link := lk |} else e)
  | None => None
  end.
Proof.
  unfold efind. induction l as [|a l IH]; simpl; [reflexivity|].
  set (fa := if obj_eqb (c_up a) u && obj_eqb (c_down a) d
             then {| c_up := u; c_down := d; c_link := lk |} else a).
  assert (HP : obj_eqb (c_up fa) u' && obj_eqb (c_down fa) d' = obj_eqb (c_up a) u' && obj_eqb (c_down a) d').
  { unfold fa. destruct (obj_eqb (c_up a) u && obj_eqb (c_down a) d) eqn:E; [|reflexivity].
    apply andb_true_iff in E. destruct E as [E1 E2]. apply obj_eqb_eq in E1, E2. simpl. rewrite E1, E2. reflexivity. }
  rewrite HP. destruct (obj_eqb (c_up a) u' && obj_eqb (c_down a) d'); [reflexivity|exact IH].
Qed.
Lemma efind_app l l' u d :
  efind (l ++ l') u d = match efind l u d with Some e => Some e | None => efind l' u d end.
Proof. unfold efind. induction l as [|a l IH]; simpl; [reflexivity|]. destruct (_ && _); auto. Qed.

Lemma add_link_spec g u l d :
  (forall y, a_node (add_link g u l d) y <-> y = u \/ y = d \/ a_node g y) /\
  (forall u' d', a_edge (add_link g u l d) u' d' =
                 if obj_eqb u' u && obj_eqb d' d then Some l else a_edge g u' d') /\
  (forall y, a_orig (add_link g u l d) y = a_orig g y) /\
  (forall y, a_dest (add_link g u l d) y = a_dest g y).
Proof.
  unfold add_link. set (g1 := add_node g u). set (g2 := add_node g1 d).
  destruct (add_node_spec g u) as (N1 & O1 & D1 & E1).
  destruct (add_node_spec g1 d) as (N2 & O2 & D2 & E2). fold g1 in N1, O1, D1, E1. fold g2 in N2, O2, D2, E2.
  assert (HN : forall y, a_node g2 y <-> y = u \/ y = d \/ a_node g y).
  { intros y. rewrite N2, N1. tauto. }
  assert (HE : forall u' d', a_edge g2 u' d' = a_edge g u' d') by (intros; rewrite E2, E1; reflexivity).
  assert (HO : forall y, a_orig g2 y = a_orig g y) by (intros; rewrite O2, O1; reflexivity).
  assert (HD : forall y, a_dest g2 y = a_dest g y) by (intros; rewrite D2, D1; reflexivity).
  destruct (has_edge g2 u d) eqn:H.
  - split; [intros y; exact (HN y)|]. split; [|split; intros y; [exact (HO y)|exact (HD y)]].
    intros u' d'. unfold a_edge. simpl. fold (efind (map (fun e => if obj_eqb (c_up e) u && obj_eqb (c_down e) d
                       then {| c_up := u; c_down := d; c_link := l |} else e) (c_edges g2)) u' d').
    rewrite efind_map_replace. specialize (HE u' d'). unfold a_edge in HE. fold (efind (c_edges g2) u' d') in *.
    fold (efind (c_edges g) u' d') in *.
    destruct (efind (c_edges g2) u' d') as [e|] eqn:F.
    + assert (He : obj_eqb (c_up e) u' && obj_eqb (c_down e) d' = true)
        by (unfold efind in F; apply find_some in F; tauto).
      apply andb_true_iff in He. destruct He as [A B]. apply obj_eqb_eq in A, B. rewrite A, B.
      destruct (obj_eqb u' u && obj_eqb d' d); [reflexivity|exact HE].
    + destruct (obj_eqb u' u && obj_eqb d' d) eqn:E; [|exact HE]. exfalso.
      apply andb_true_iff in E. destruct E as [A B]. apply obj_eqb_eq in A, B. subst.
      apply has_edge_find in H. congruence.
  - split; [intros y; exact (HN y)|]. split; [|split; intros y; [exact (HO y)|exact (HD y)]].
    intros u' d'. unfold a_edge. simpl. fold (efind (c_edges g2 ++ [{| c_up := u; c_down := d; c_link := l |}]) u' d').
    rewrite efind_app. specialize (HE u' d'). unfold a_edge in HE. fold (efind (c_edges g2) u' d') in *.
    fold (efind (c_edges g) u' d') in *.
    destruct (efind (c_edges g2) u' d') as [e|] eqn:F.
    + destruct (obj_eqb u' u && obj_eqb d' d) eqn:E; [|exact HE]. exfalso.
      apply andb_true_iff in E. destruct E as [A B]. apply obj_eqb_eq in A, B. subst.
      assert (has_edge g2 u d = true) by (apply has_edge_find; congruence). congruence.
    + unfold efind. simpl. rewrite (obj_eqb_sym u u'), (obj_eqb_sym d d').
      destruct (obj_eqb u' u && obj_eqb d' d); [reflexivity|exact HE].
Qed.

Theorem prim_spec_proof : prim_spec.
Proof.
  intros g. split; [intros x; apply add_node_spec|]. split; [intros o x; apply add_origin_spec|].
  split; [intros o x; apply add_destination_spec|]. intros u l d. apply add_link_spec.
Qed.

(* ---- the path grammar ---- *)
Definition lastnode (last : option obj) : bool := match last with Some x => is_node x | None => false end.
Definition ok (cur rest : list obj) (last : option obj) : bool :=
  match path_loop cur rest last with
  | (_, None, lst) => lastnode lst
  | _ => false
  end.

Lemma link_not_node p : is_link p = true -> is_node p = false.
Proof. destruct p; simpl; congruence. Qed.

Lemma ok_spec rest :
  (forall a last, ok [a] rest last = match rest with [] => lastnode last | _ => alternates false rest end) /\
  (forall a l last, ok [a; l] rest last = match rest with [] => lastnode last | _ => alternates true rest end).
Proof.
  induction rest as [|p r [IH1 IH2]]; split; intros; try reflexivity.
  - unfold ok. cbn [path_loop alternates]. destruct (is_link p) eqn:Lp; cbn [andb]; [|reflexivity].
    fold (ok [a; p] r (Some p)). rewrite IH2. destruct r as [|q r].
    + cbn [lastnode alternates negb]. apply link_not_node. exact Lp.
    + reflexivity.
  - unfold ok. cbn [path_loop alternates]. destruct (is_node p) eqn:Np; cbn [andb]; [|reflexivity].
    destruct (path_loop [p] r (Some p)) as [[ps e] lst] eqn:PL.
    assert (Hok : ok [p] r (Some p) = match e with None => lastnode lst | Some _ => false end)
      by (unfold ok; rewrite PL; reflexivity).
    rewrite IH1 in Hok. destruct r as [|q r].
    + cbn [lastnode alternates negb] in *. rewrite Np in Hok. destruct e; [discriminate|]. symmetry. exact Hok.
    + destruct e; symmetry; exact Hok.
Qed.

Theorem path_spec_proof : path_spec.
Proof.
  intros p o d. unfold expand_path, well_formed_path. destruct p as [|first rest]; [simpl; split; discriminate|].
  destruct (is_node first) eqn:Nf; cbn [negb andb];
    [|simpl; split; [discriminate|destruct rest; simpl; discriminate]].
  destruct (path_loop [first] rest None) as [[ps e] lst] eqn:PL.
  pose proof (proj1 (ok_spec rest) first None) as Hok. unfold ok in Hok. rewrite PL in Hok.
  destruct e as [e|].
  - cbn [snd]. destruct rest as [|q r]; [split; discriminate|]. rewrite <- Hok. split; discriminate.
  - destruct lst as [lastp|].
    + cbn [lastnode] in Hok. destruct (is_node lastp) eqn:Nl; cbn [negb snd].
      * destruct rest as [|q r]; [cbn [lastnode] in Hok; discriminate|]. rewrite <- Hok. tauto.
      * destruct rest as [|q r]; [split; discriminate|]. rewrite <- Hok. split; discriminate.
    + cbn [snd]. destruct rest as [|q r]; [split; discriminate|]. rewrite <- Hok. split; discriminate.
Qed.

(* ---- invariants of the construction API ---- *)
Definition typed_prim (p : prim) : Prop :=
  match p with
  | PAddNode x => is_node x = true
  | PAddLink u l d => is_node u = true /\ is_link l = true /\ is_node d = true
  | PAddOrigin _ x | PAddDestination _ x => is_node x = true
  end.

Lemma a_node_mono_add_node g x y : a_node g y -> a_node (add_node g x) y.
Proof. intros H. apply (proj1 (add_node_spec g x)). right. exact H. Qed.

Lemma NoDup_snoc {T} (l : list T) x : NoDup l -> ~ In x l -> NoDup (l ++ [x]).
Proof.
  induction l as [|a l IH]; intros Hnd Hx; simpl; [repeat constructor; intros []|].
  inversion Hnd as [|? ? Hnin Hnd']; subst. constructor.
  - rewrite in_app_iff. intros [H|[<-|[]]]; [contradiction|]. apply Hx. left. reflexivity.
  - apply IH; [exact Hnd'|]. intros H. apply Hx. right. exact H.
Qed.

Lemma cwf_add_node g x : cwf g -> cwf (add_node g x).
Proof.
  intros (H1 & H2 & H3). unfold add_node. destruct (has_node g x) eqn:H; [repeat split; try assumption; apply H3; assumption|].
  apply has_node_false in H. split; [|split].
  - simpl. rewrite map_app. simpl. apply NoDup_snoc; assumption.
  - exact H2.
  - intros e He. simpl in He. unfold a_node. simpl. rewrite map_app, !in_app_iff.
    destruct (H3 e He). split; left; assumption.
Qed.

Lemma cwf_upd g f x :
  (forall c, c_obj (f c) = c_obj c) -> cwf g ->
  cwf {| c_nodes := upd_node f x (c_nodes g); c_edges := c_edges g |}.
Proof.
  intros Hf (H1 & H2 & H3). unfold cwf, a_node. simpl. rewrite (map_obj_upd f x _ Hf). auto.
Qed.
Lemma cwf_append g c : cwf g -> ~ a_node g (c_obj c) ->
  cwf {| c_nodes := c_nodes g ++ [c]; c_edges := c_edges g |}.
Proof.
  intros (H1 & H2 & H3) Hn. split; [|split].
  - simpl. rewrite map_app. simpl. apply NoDup_snoc; assumption.
  - exact H2.
  - intros e He. simpl in He. unfold a_node. simpl. rewrite map_app, !in_app_iff.
    destruct (H3 e He). split; left; assumption.
Qed.
Lemma cwf_add_origin g o x : cwf g -> cwf (add_origin g o x).
Proof.
  intros H. unfold add_origin. destruct (has_node g x) eqn:E.
  - apply cwf_upd; [reflexivity|exact H].
  - apply cwf_append; [exact H|]. apply has_node_false. exact E.
Qed.
Lemma cwf_add_destination g o x : cwf g -> cwf (add_destination g o x).
Proof.
  intros H. unfold add_destination. destruct (has_node g x) eqn:E.
  - apply cwf_upd; [reflexivity|exact H].
  - apply cwf_append; [exact H|]. apply has_node_false. exact E.
Qed.

Lemma cwf_add_link g u l d : cwf g -> cwf (add_link g u l d).
Proof.
  intros H. unfold add_link. set (g2 := add_node (add_node g u) d).
  assert (W : cwf g2) by (apply cwf_add_node, cwf_add_node; exact H).
  assert (Nu : a_node g2 u).
  { apply (proj1 (add_node_spec (add_node g u) d)). right. apply (proj1 (add_node_spec g u)). left. reflexivity. }
  assert (Nd : a_node g2 d) by (apply (proj1 (add_node_spec (add_node g u) d)); left; reflexivity).
  destruct W as (W1 & W2 & W3). destruct (has_edge g2 u d) eqn:E.
  - split; [exact W1|]. split.
    + simpl. rewrite map_map.
      assert (Hm : map (fun x => (c_up (if obj_eqb (c_up x) u && obj_eqb (c_down x) d
                                         then {| c_up := u; c_down := d; c_link := l |} else x),
                                  c_down (if obj_eqb (c_up x) u && obj_eqb (c_down x) d
                                          then {| c_up := u; c_down := d; c_link := l |} else x))) (c_edges g2)
                  = map (fun e => (c_up e, c_down e)) (c_edges g2)).
      { apply map_ext. intros a. destruct (obj_eqb (c_up a) u && obj_eqb (c_down a) d) eqn:Ea; [|reflexivity].
        apply andb_true_iff in Ea. destruct Ea as [A B]. apply obj_eqb_eq in A, B. simpl. congruence. }
      rewrite Hm. exact W2.
    + intros e He. simpl in He. apply in_map_iff in He. destruct He as (e0 & Ee & He0).
      unfold a_node in *. simpl. destruct (obj_eqb (c_up e0) u && obj_eqb (c_down e0) d); subst e; simpl; auto.
  - split; [exact W1|]. split.
    + simpl. rewrite map_app. simpl. apply NoDup_snoc; [exact W2|].
      intros Hin. apply in_map_iff in Hin. destruct Hin as (e0 & Ee & He0). inversion Ee.
      assert (has_edge g2 u d = true).
      { unfold has_edge. apply existsb_exists. exists e0. split; [exact He0|].
        rewrite H1, H2, !obj_eqb_refl. reflexivity. }
      congruence.
    + intros e He. simpl in He. apply in_app_or in He. unfold a_node in *. simpl.
      destruct He as [He|[<-|[]]]; [apply W3; exact He|simpl; auto].
Qed.

Lemma cwf_prim g p : cwf g -> cwf (apply_prim g p).
Proof.
  destruct p; simpl; [apply cwf_add_node|apply cwf_add_link|apply cwf_add_origin|apply cwf_add_destination].
Qed.

(* only Node objects are nodes, only Link objects label edges *)
Lemma onl_add_node g x : is_node x = true -> only_nodes_and_links g -> only_nodes_and_links (add_node g x).
Proof.
  intros Hx [H1 H2]. unfold add_node. destruct (has_node g x); [split; assumption|]. split; simpl.
  - intros c Hc. apply in_app_or in Hc. destruct Hc as [Hc|[<-|[]]]; [apply H1; exact Hc|exact Hx].
  - exact H2.
Qed.
Lemma onl_upd g f x : (forall c, c_obj (f c) = c_obj c) -> only_nodes_and_links g ->
  only_nodes_and_links {| c_nodes := upd_node f x (c_nodes g); c_edges := c_edges g |}.
Proof.
  intros Hf [H1 H2]. split; simpl; [|exact H2]. intros c Hc. unfold upd_node in Hc.
  apply in_map_iff in Hc. destruct Hc as (c0 & E & Hc0).
  destruct (obj_eqb (c_obj c0) x); subst c; rewrite ?Hf; apply H1; exact Hc0.
Qed.
Lemma onl_add_origin g o x : is_node x = true -> only_nodes_and_links g -> only_nodes_and_links (add_origin g o x).
Proof.
  intros Hx H. unfold add_origin. destruct (has_node g x); [apply onl_upd; [reflexivity|exact H]|].
  destruct H as [H1 H2]. split; simpl; [|exact H2].
  intros c Hc. apply in_app_or in Hc. destruct Hc as [Hc|[<-|[]]]; [apply H1; exact Hc|exact Hx].
Qed.
Lemma onl_add_destination g o x : is_node x = true -> only_nodes_and_links g -> only_nodes_and_links (add_destination g o x).
Proof.
  intros Hx H. unfold add_destination. destruct (has_node g x); [apply onl_upd; [reflexivity|exact H]|].
  destruct H as [H1 H2]. split; simpl; [|exact H2].
  intros c Hc. apply in_app_or in Hc. destruct Hc as [Hc|[<-|[]]]; [apply H1; exact Hc|exact Hx].
Qed.
Lemma onl_add_link g u l d : is_node u = true -> is_link l = true -> is_node d = true ->
  only_nodes_and_links g -> only_nodes_and_links (add_link g u l d).
Proof.
  intros Hu Hl Hd H. unfold add_link. set (g2 := add_node (add_node g u) d).
  assert (W : only_nodes_and_links g2) by (apply onl_add_node; [exact Hd|apply onl_add_node; assumption]).
  destruct W as [W1 W2]. destruct (has_edge g2 u d); split; simpl; try exact W1.
  - intros e He. apply in_map_iff in He. destruct He as (e0 & E & He0).
    destruct (obj_eqb (c_up e0) u && obj_eqb (c_down e0) d); subst e; [exact Hl|apply W2; exact He0].
  - intros e He. apply in_app_or in He. destruct He as [He|[<-|[]]]; [apply W2; exact He|exact Hl].
Qed.
Lemma onl_prim g p : typed_prim p -> only_nodes_and_links g -> only_nodes_and_links (apply_prim g p).
Proof.
  destruct p; simpl; intros T H.
  - apply onl_add_node; assumption.
  - destruct T as (A & B & C). apply onl_add_link; assumption.
  - apply onl_add_origin; assumption.
  - apply onl_add_destination; assumption.
Qed.

(* the calls add_path makes are typed, whatever the path items are *)
Lemma path_loop_typed rest : forall cur last,
  (forall a, cur = [a] -> is_node a = true -> Forall typed_prim (fst (fst (path_loop cur rest last)))) /\
  (forall a l, cur = [a; l] -> is_node a = true -> is_link l = true ->
     Forall typed_prim (fst (fst (path_loop cur rest last)))).
Proof.
  induction rest as [|p r IH]; intros cur last; split; intros; subst; cbn [path_loop]; try (constructor; fail).
  - destruct (is_link p) eqn:Lp; [|constructor]. apply (proj2 (IH [a; p] (Some p)) a p eq_refl); assumption.
  - destruct (is_node p) eqn:Np; [|constructor].
    pose proof (proj1 (IH [p] (Some p)) p eq_refl Np) as H.
    destruct (path_loop [p] r (Some p)) as [[ps e] lst]. cbn [fst] in *.
    constructor; [exact Np|]. constructor; [simpl; auto|exact H].
Qed.

Lemma expand_typed p o d : Forall typed_prim (fst (expand_path p o d)).
Proof.
  unfold expand_path. destruct p as [|first rest]; [constructor|].
  destruct (is_node first) eqn:Nf; cbn [negb]; [|constructor].
  pose proof (proj1 (path_loop_typed rest [first] None) first eq_refl Nf) as H.
  destruct (path_loop [first] rest None) as [[ps e] lst]. cbn [fst] in H.
  assert (Hpre : Forall typed_prim (PAddNode first :: match o with Some o0 => [PAddOrigin o0 first] | None => [] end)).
  { constructor; [exact Nf|]. destruct o; [constructor; [exact Nf|constructor]|constructor]. }
  destruct e as [e|]; cbn [fst].
  - apply Forall_app. split; assumption.
  - destruct lst as [lastp|]; [|apply Forall_app; split; assumption].
    destruct (is_node lastp) eqn:Nl; cbn [negb fst].
    + change (PAddNode first :: match o with Some o0 => [PAddOrigin o0 first] | None => [] end ++ ps ++ _)
        with ((PAddNode first :: match o with Some o0 => [PAddOrigin o0 first] | None => [] end) ++ ps ++
              match d with Some d0 => [PAddDestination d0 lastp] | None => [] end).
      apply Forall_app. split; [exact Hpre|]. apply Forall_app. split; [exact H|].
      destruct d; [constructor; [exact Nl|constructor]|constructor].
    + apply Forall_app. split; assumption.
Qed.

Lemma fold_prims_inv g ps : Forall typed_prim ps -> cwf g -> only_nodes_and_links g ->
  cwf (fold_left apply_prim ps g) /\ only_nodes_and_links (fold_left apply_prim ps g).
Proof.
  revert g. induction ps as [|p ps IH]; intros g Ht W O; [split; assumption|].
  inversion Ht; subst. simpl. apply IH; [assumption|apply cwf_prim; exact W|apply onl_prim; assumption].
Qed.

Lemma apply_op_inv g op : typed_op op -> cwf g -> only_nodes_and_links g ->
  cwf (fst (apply_op g op)) /\ only_nodes_and_links (fst (apply_op g op)).
Proof.
  intros T W O. destruct op; simpl in *.
  - split; [apply cwf_add_node; exact W|apply onl_add_node; assumption].
  - revert g W O. induction xs as [|x xs IH]; intros g W O; [split; assumption|]. inversion T; subst. simpl.
    apply IH; [assumption|apply cwf_add_node; exact W|apply onl_add_node; assumption].
  - destruct T as (A & B & C). split; [apply cwf_add_link; exact W|apply onl_add_link; assumption].
  - revert g W O. induction ls as [|t ls IH]; intros g W O; [split; assumption|]. inversion T as [|? ? (A & B & C) T']; subst.
    simpl. apply IH; [assumption|apply cwf_add_link; exact W|apply onl_add_link; assumption].
  - split; [apply cwf_add_origin; exact W|apply onl_add_origin; assumption].
  - split; [apply cwf_add_destination; exact W|apply onl_add_destination; assumption].
  - unfold add_path. pose proof (expand_typed path o d) as H. destruct (expand_path path o d) as [ps e].
    cbn [fst] in *. apply fold_prims_inv; assumption.
Qed.

Theorem construction_invariant_proof : construction_invariant.
Proof.
  intros ops Ht. unfold run_ops.
  assert (H : forall g, cwf g -> only_nodes_and_links g ->
                        cwf (fold_left (fun g op => fst (apply_op g op)) ops g) /\
                        only_nodes_and_links (fold_left (fun g op => fst (apply_op g op)) ops g)).
  { induction ops as [|op ops IH]; intros g W O; [split; assumption|]. inversion Ht; subst. simpl.
    destruct (apply_op_inv g op H1 W O). apply IH; assumption. }
  apply H.
  - split; [constructor|]. split; [constructor|]. intros e [].
  - split; intros ? [].
Qed.

(* ---- the graph of Graph.v that a typed construction history denotes is well formed ---- *)
From SM.specs Require Import GraphWF.

Lemma node_id_inj x y : is_node x = true -> is_node y = true -> node_id x = node_id y -> x = y.
Proof. destruct x, y; simpl; try discriminate. intros _ _ ->. reflexivity. Qed.

Theorem reachable_wf_graph ops : Forall typed_op ops -> wf_graph (to_graph (run_ops ops)).
Proof.
  intros Ht. destruct (construction_invariant_proof ops Ht) as [(W1 & W2 & W3) [O1 O2]].
  set (g := run_ops ops) in *. split.
  - unfold to_graph. simpl. rewrite map_map. simpl.
    assert (H : forall l, (forall c, In c l -> is_node (c_obj c) = true) -> NoDup (map c_obj l) ->
                          NoDup (map (fun c => node_id (c_obj c)) l)).
    { induction l as [|a l IH]; intros Hn Hd; simpl; [constructor|]. inversion Hd as [|? ? Hnin Hd']; subst.
      constructor; [|apply IH; [intros; apply Hn; right; assumption|exact Hd']].
      intros Hin. apply in_map_iff in Hin. destruct Hin as (b & E & Hb). apply Hnin.
      assert (c_obj b = c_obj a) by (apply node_id_inj; [apply Hn; right; exact Hb|apply Hn; left; reflexivity|exact E]).
      rewrite <- H. apply in_map. exact Hb. }
    apply H; assumption.
  - intros e He. unfold to_graph in He. simpl in He. apply in_map_iff in He. destruct He as (ce & E & Hce). subst e.
    simpl. destruct (W3 ce Hce) as [A B]. unfold to_graph. simpl. rewrite map_map. simpl.
    unfold a_node in A, B. split.
    + apply in_map_iff in A. destruct A as (c & Ec & Hc). apply in_map_iff. exists c. split; [rewrite Ec; reflexivity|exact Hc].
    + apply in_map_iff in B. destruct B as (c & Ec & Hc). apply in_map_iff. exists c. split; [rewrite Ec; reflexivity|exact Hc].
Qed.
