From Coq Require Import List Arith Bool Lia.
From SM Require Import Graph Types Validity.
From SM.specs Require Import GraphWF C06_spec.
From SM.proofs Require Import ValidFacts.
Import ListNotations.

Lemma NoDup_app_intro {T} (a b : list T) :
  NoDup a -> NoDup b -> (forall x, In x a -> ~ In x b) -> NoDup (a ++ b).
Proof.
  induction a as [|x a IH]; intros Ha Hb Hd; [exact Hb|]. simpl. inversion Ha; subst. constructor.
  - rewrite in_app_iff. intros [H|H]; [contradiction|]. apply (Hd x); [left; reflexivity|exact H].
  - apply IH; [assumption|assumption|]. intros y Hy. apply Hd. right. exact Hy.
Qed.
Lemma NoDup_app_disj {T} (a b : list T) x : NoDup (a ++ b) -> In x a -> ~ In x b.
Proof.
  induction a as [|y a IH]; intros H Ha; [destruct Ha|]. simpl in H. inversion H; subst.
  destruct Ha as [->|Ha]; [intros Hb; apply H2; apply in_or_app; right; exact Hb|apply IH; assumption].
Qed.

Lemma dup_msgs_nil_conv seen l :
  NoDup l -> (forall y, In y l -> ~ In y seen) -> dup_msgs seen l = [].
Proof.
  revert seen; induction l as [|x l IH]; intros seen Hnd Hd; [reflexivity|]. simpl.
  inversion Hnd; subst.
  destruct (existsb (elem_eqb x) seen) eqn:E.
  - apply existsb_elem in E. exfalso. apply (Hd x); [left; reflexivity|exact E].
  - simpl. apply IH; [assumption|]. intros y Hy [<-|Hs]; [contradiction|]. apply (Hd y); [right; exact Hy|exact Hs].
Qed.

(* the attachment list of pass (1) is duplicate-free iff origins and destinations are *)
Definition oparts (nodes : list node_entry) := flat_map (fun ne => opt_list id (n_orig ne)) nodes.
Definition dparts (nodes : list node_entry) := flat_map (fun ne => opt_list id (n_dest ne)) nodes.
Definition attach (nodes : list node_entry) :=
  flat_map (fun ne => opt_list EO (n_orig ne) ++ opt_list ED (n_dest ne)) nodes.

Lemma attach_In_EO nodes o : In (EO o) (attach nodes) <-> In o (oparts nodes).
Proof.
  unfold attach, oparts. induction nodes as [|ne l IH]; simpl; [tauto|].
  rewrite !in_app_iff, IH. unfold opt_list, id. destruct (n_orig ne), (n_dest ne); simpl; intuition congruence.
Qed.
Lemma attach_In_ED nodes d : In (ED d) (attach nodes) <-> In d (dparts nodes).
Proof.
  unfold attach, dparts. induction nodes as [|ne l IH]; simpl; [tauto|].
  rewrite !in_app_iff, IH. unfold opt_list, id. destruct (n_orig ne), (n_dest ne); simpl; intuition congruence.
Qed.
Lemma attach_no_EL nodes l : ~ In (EL l) (attach nodes).
Proof.
  unfold attach. induction nodes as [|ne r IH]; simpl; [tauto|].
  rewrite !in_app_iff. unfold opt_list. destruct (n_orig ne), (n_dest ne); simpl; intuition congruence.
Qed.

Lemma attach_nodup_iff nodes : NoDup (attach nodes) <-> NoDup (oparts nodes) /\ NoDup (dparts nodes).
Proof.
  induction nodes as [|ne l IH].
  - simpl. split; [intros _; split; constructor|intros _; constructor].
  - unfold attach, oparts, dparts in *. simpl. fold (attach l) (oparts l) (dparts l) in *.
    destruct (n_orig ne) as [o|], (n_dest ne) as [d|]; simpl.
    + split.
      * intros H. inversion H as [|? ? H1 H2]; subst. inversion H2 as [|? ? H3 H4]; subst.
        apply IH in H4. destruct H4. split; constructor; auto.
        -- intros Hin. apply H1. right. apply attach_In_EO. exact Hin.
        -- intros Hin. apply H3. apply attach_In_ED. exact Hin.
      * intros [H1 H2]. inversion H1; subst. inversion H2; subst. constructor.
        -- intros [E|Hin]; [discriminate|]. apply attach_In_EO in Hin. contradiction.
        -- constructor; [intros Hin; apply attach_In_ED in Hin; contradiction|]. apply IH. auto.
    + split.
      * intros H. inversion H as [|? ? H1 H2]; subst. apply IH in H2. destruct H2. split; [constructor|]; auto.
        intros Hin. apply H1. apply attach_In_EO. exact Hin.
      * intros [H1 H2]. inversion H1; subst. constructor; [intros Hin; apply attach_In_EO in Hin; contradiction|].
        apply IH. auto.
    + split.
      * intros H. inversion H as [|? ? H1 H2]; subst. apply IH in H2. destruct H2. split; [|constructor]; auto.
        intros Hin. apply H1. apply attach_In_ED. exact Hin.
      * intros [H1 H2]. inversion H2; subst. constructor; [intros Hin; apply attach_In_ED in Hin; contradiction|].
        apply IH. auto.
    + exact IH.
Qed.

Lemma NoDup_map_inj_intro {T V} (f : T -> V) l :
  (forall a b, f a = f b -> a = b) -> NoDup l -> NoDup (map f l).
Proof.
  intros Hf. induction 1 as [|x l Hx Hl IH]; simpl; constructor; [|exact IH].
  intros Hin. apply in_map_iff in Hin. destruct Hin as (y & E & Hy). apply Hf in E. subst. contradiction.
Qed.

Lemma counted_nodup_iff g :
  NoDup (counted g) <-> NoDup (map e_link (links g)) /\ NoDup (oparts (g_nodes g)) /\ NoDup (dparts (g_nodes g)).
Proof.
  unfold counted. fold (attach (g_nodes g)). split.
  - intros H. split.
    + apply NoDup_app_l in H. rewrite <- (map_map e_link EL) in H. apply NoDup_map_inv in H. exact H.
    + apply NoDup_app_r in H. apply attach_nodup_iff. exact H.
  - intros (H1 & H2 & H3). apply NoDup_app_intro.
    + rewrite <- (map_map e_link EL). apply NoDup_map_inj_intro; [intros a b E; inversion E; reflexivity|exact H1].
    + apply attach_nodup_iff. auto.
    + intros x Hx Ha. apply in_map_iff in Hx. destruct Hx as (e & <- & _). apply (attach_no_EL _ _ Ha).
Qed.

(* ---- dictionary membership ---- *)
Lemma dict_set_In k v d k' v' : In (k', v') (dict_set k v d) -> (k' = k /\ v' = v) \/ In (k', v') d.
Proof.
  induction d as [|[a b] d IH]; simpl.
  - intros [H|[]]. inversion H. auto.
  - destruct (Nat.eqb_spec a k) as [->|Hne]; simpl; intros [H|H].
    + inversion H. auto.
    + auto.
    + auto.
    + destruct (IH H); auto.
Qed.
Lemma fold_vals (sel : node_entry -> option nat) nodes d o n :
  In (o, n) (fold_left (dstep sel) nodes d) ->
  In (o, n) d \/ exists ne, In ne nodes /\ sel ne = Some o /\ nid ne = n.
Proof.
  revert d; induction nodes as [|ne l IH]; intros d H; [left; exact H|]. simpl in H.
  destruct (IH _ H) as [H1|(x & Hx & Sx & Nx)].
  - unfold dstep in H1. destruct (sel ne) as [o'|] eqn:S; [|left; exact H1].
    destruct (dict_set_In _ _ _ _ _ H1) as [[-> ->]|H2]; [|left; exact H2].
    right. exists ne. split; [left; reflexivity|]. auto.
  - right. exists x. split; [right; exact Hx|]. auto.
Qed.

Lemma flat_map_all_nil {T V} (f : T -> list V) l : (forall x, In x l -> f x = []) -> flat_map f l = [].
Proof.
  induction l as [|a l IH]; intros H; [reflexivity|]. simpl. rewrite (H a (or_introl eq_refl)), IH; [reflexivity|].
  intros x Hx. apply H. right. exact Hx.
Qed.

Section Equiv.
Variable U : universe.
Variable g : graph.
Hypothesis WFG : wf_graph g.

Lemma orig_in_dict ne o :
  NoDup (oparts (g_nodes g)) -> In ne (g_nodes g) -> n_orig ne = Some o -> In (o, nid ne) (origins_dict g).
Proof.
  intros Hnd Hin Ho. apply dict_get_In. unfold origins_dict.
  change (fun d ne0 => match n_orig ne0 with Some o0 => dict_set o0 (nid ne0) d | None => d end) with (dstep n_orig).
  rewrite dict_get_fold.
  destruct (find (has n_orig o) (rev (g_nodes g))) as [ne'|] eqn:F.
  - apply find_some in F. destruct F as [F1 F2]. apply in_rev in F1. unfold has in F2.
    destruct (n_orig ne') as [o'|] eqn:O'; [|discriminate]. apply Nat.eqb_eq in F2. subst o'.
    assert (ne' = ne).
    { eapply (NoDup_flat_map_inj (fun ne => opt_list id (n_orig ne)) (g_nodes g) ne' ne o Hnd); eauto.
      - rewrite O'. left. reflexivity.
      - rewrite Ho. left. reflexivity. }
    subst. reflexivity.
  - exfalso. pose proof (find_none _ _ F ne ltac:(apply in_rev; rewrite rev_involutive; exact Hin)) as H.
    unfold has in H. rewrite Ho, Nat.eqb_refl in H. discriminate.
Qed.
Lemma dest_in_dict ne d :
  NoDup (dparts (g_nodes g)) -> In ne (g_nodes g) -> n_dest ne = Some d -> In (d, nid ne) (dests_dict g).
Proof.
  intros Hnd Hin Ho. apply dict_get_In. unfold dests_dict.
  change (fun d0 ne0 => match n_dest ne0 with Some o0 => dict_set o0 (nid ne0) d0 | None => d0 end) with (dstep n_dest).
  rewrite dict_get_fold.
  destruct (find (has n_dest d) (rev (g_nodes g))) as [ne'|] eqn:F.
  - apply find_some in F. destruct F as [F1 F2]. apply in_rev in F1. unfold has in F2.
    destruct (n_dest ne') as [o'|] eqn:O'; [|discriminate]. apply Nat.eqb_eq in F2. subst o'.
    assert (ne' = ne).
    { eapply (NoDup_flat_map_inj (fun ne => opt_list id (n_dest ne)) (g_nodes g) ne' ne d Hnd); eauto.
      - rewrite O'. left. reflexivity.
      - rewrite Ho. left. reflexivity. }
    subst. reflexivity.
  - exfalso. pose proof (find_none _ _ F ne ltac:(apply in_rev; rewrite rev_involutive; exact Hin)) as H.
    unfold has in H. rewrite Ho, Nat.eqb_refl in H. discriminate.
Qed.
Lemma dict_orig_entry o n : In (o, n) (origins_dict g) -> exists ne, In ne (g_nodes g) /\ n_orig ne = Some o /\ nid ne = n.
Proof.
  unfold origins_dict.
  change (fun d ne0 => match n_orig ne0 with Some o0 => dict_set o0 (nid ne0) d | None => d end) with (dstep n_orig).
  intros H. apply fold_vals in H. destruct H as [[]|H]. exact H.
Qed.
Lemma dict_dest_entry d n : In (d, n) (dests_dict g) -> exists ne, In ne (g_nodes g) /\ n_dest ne = Some d /\ nid ne = n.
Proof.
  unfold dests_dict.
  change (fun d0 ne0 => match n_dest ne0 with Some o0 => dict_set o0 (nid ne0) d0 | None => d0 end) with (dstep n_dest).
  intros H. apply fold_vals in H. destruct H as [[]|H]. exact H.
Qed.

Lemma length_le1 {T} (l : list T) : (1 <? length l) = false <-> length l <= 1.
Proof. rewrite Nat.ltb_ge. tauto. Qed.

Theorem valid_iff_nine : validb U g = true <-> nine_conditions U g.
Proof.
  unfold validb, is_valid_msgs, nine_conditions. split.
  - intros V. destruct (dup_msgs [] (counted g) ++ _) eqn:E; [|discriminate].
    apply app_eq_nil in E. destruct E as [E1 E]. apply app_eq_nil in E. destruct E as [E2 E].
    apply app_eq_nil in E. destruct E as [E3 E4].
    apply dup_msgs_nil in E1. destruct E1 as [Hc _]. apply counted_nodup_iff in Hc. destruct Hc as (L1 & L2 & L3).
    assert (HN : forall ne, In ne (g_nodes g) -> node_msgs g ne = []) by (intros; eapply flat_map_nil; eauto).
    split; [exact (conj L1 (conj L2 L3))|].
    assert (Hnode : forall ne, In ne (g_nodes g) ->
              ~ (n_orig ne <> None /\ n_dest ne <> None) /\
              ~ (in_links g (nid ne) = [] /\ out_links g (nid ne) = []) /\
              (in_links g (nid ne) = [] -> n_orig ne <> None) /\
              (out_links g (nid ne) = [] -> n_dest ne <> None)).
    { intros ne Hin. pose proof (HN ne Hin) as H. unfold node_msgs in H.
      apply app_eq_nil in H. destruct H as [Ha H]. apply app_eq_nil in H. destruct H as [Hb H].
      apply app_eq_nil in H. destruct H as [Hc Hd]. repeat split.
      - intros [A B]. destruct (n_orig ne), (n_dest ne); try discriminate; congruence.
      - intros [A B]. rewrite A, B in Hb. simpl in Hb. discriminate.
      - intros A B. rewrite A, B in Hc. simpl in Hc. discriminate.
      - intros A B. rewrite A, B in Hd. simpl in Hd. discriminate. }
    split; [intros ne Hin; apply (Hnode ne Hin)|]. split; [intros ne Hin; apply (Hnode ne Hin)|].
    split; [intros ne Hin; apply (Hnode ne Hin)|]. split; [intros ne Hin; apply (Hnode ne Hin)|].
    assert (HO : forall ne o, In ne (g_nodes g) -> n_orig ne = Some o -> origin_msgs U g (o, nid ne) = []).
    { intros ne o Hin Ho. eapply flat_map_nil; [exact E3|]. apply orig_in_dict; assumption. }
    assert (HD : forall ne d, In ne (g_nodes g) -> n_dest ne = Some d -> dest_msgs g (d, nid ne) = []).
    { intros ne d Hin Hd. eapply flat_map_nil; [exact E4|]. apply dest_in_dict; assumption. }
    split; [|split; [|split]].
    + intros ne Hin o Ho Hr. pose proof (HO ne o Hin Ho) as H. unfold origin_msgs in H.
      apply app_eq_nil in H. destruct H as [H _]. rewrite Hr in H. simpl in H.
      destruct (in_links g (nid ne)); [reflexivity|simpl in H; discriminate].
    + intros ne Hin o Ho. pose proof (HO ne o Hin Ho) as H. unfold origin_msgs in H.
      apply app_eq_nil in H. destruct H as [_ H]. apply length_le1.
      destruct (1 <? length (out_links g (nid ne))); [discriminate|reflexivity].
    + intros ne Hin d Hd. pose proof (HD ne d Hin Hd) as H. unfold dest_msgs in H.
      apply app_eq_nil in H. destruct H as [H _]. apply length_le1.
      destruct (1 <? length (in_links g (nid ne))); [discriminate|reflexivity].
    + intros ne Hin d Hd. pose proof (HD ne d Hin Hd) as H. unfold dest_msgs in H.
      apply app_eq_nil in H. destruct H as [_ H].
      destruct (out_links g (nid ne)); [reflexivity|simpl in H; discriminate].
  - intros ((L1 & L2 & L3) & C2 & C3 & C4 & C5 & C6 & C7 & C8 & C9).
    assert (P1 : dup_msgs [] (counted g) = []).
    { apply dup_msgs_nil_conv; [apply counted_nodup_iff; auto|intros y _ []]. }
    assert (P2 : flat_map (node_msgs g) (g_nodes g) = []).
    { apply flat_map_all_nil. intros ne Hin. unfold node_msgs.
      specialize (C2 ne Hin). specialize (C3 ne Hin). specialize (C4 ne Hin). specialize (C5 ne Hin).
      simpl in *.
      assert (A : match n_orig ne, n_dest ne with Some _, Some _ => [MBoth (nid ne)] | _, _ => [] end = []).
      { destruct (n_orig ne), (n_dest ne); try reflexivity. exfalso. apply C2. split; discriminate. }
      rewrite A. simpl.
      destruct (in_links g (nid ne)) as [|a la] eqn:Ein; destruct (out_links g (nid ne)) as [|b lb] eqn:Eout; simpl.
      + exfalso. apply C3. auto.
      + destruct (n_orig ne); [reflexivity|exfalso; apply C4; reflexivity].
      + destruct (n_dest ne); [reflexivity|exfalso; apply C5; reflexivity].
      + reflexivity. }
    assert (P3 : flat_map (origin_msgs U g) (origins_dict g) = []).
    { apply flat_map_all_nil. intros [o n] Hin. destruct (dict_orig_entry o n Hin) as (ne & Hne & Ho & Hid).
      subst n. unfold origin_msgs. specialize (C6 ne Hne o Ho). specialize (C7 ne Hne o Ho). simpl in *.
      apply length_le1 in C7. rewrite C7. rewrite app_nil_r.
      destruct (is_ramp (okind_of U o)); [reflexivity|]. rewrite (C6 eq_refl). reflexivity. }
    assert (P4 : flat_map (dest_msgs g) (dests_dict g) = []).
    { apply flat_map_all_nil. intros [d n] Hin. destruct (dict_dest_entry d n Hin) as (ne & Hne & Hd & Hid).
      subst n. unfold dest_msgs. specialize (C8 ne Hne d Hd). specialize (C9 ne Hne d Hd). simpl in *.
      apply length_le1 in C8. rewrite C8, C9. reflexivity. }
    rewrite P1, P2, P3, P4. reflexivity.
Qed.
End Equiv.

Theorem validation_is_nine_conditions_proof : validation_is_nine_conditions.
Proof. intros U g W. apply valid_iff_nine. Qed.

Theorem verdict_consistent_proof : verdict_consistent.
Proof.
  intros U g. unfold is_valid, validb. destruct (is_valid_msgs U g) as [|m ms]; simpl.
  - split; [reflexivity|]. split; [split; [intros H; exfalso; apply H; reflexivity|discriminate]|].
    split; [discriminate|]. split; [reflexivity|]. intros m H. discriminate.
  - split; [reflexivity|]. split; [split; [reflexivity|discriminate]|].
    split; [discriminate|]. split; [discriminate|]. intros m' H. inversion H; subst. exists ms. reflexivity.
Qed.
