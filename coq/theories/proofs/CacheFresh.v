From Coq Require Import List Arith Bool Lia.
From SM Require Import Graph Construct Cache.
From SM.specs Require Import C09_spec C08_spec.
From SM.proofs Require Import Construction.
Import ListNotations.

(* ---- what each look-up depends on ---- *)
Definition node_objs (g : cgraph) : list obj := map c_obj (c_nodes g).
Definition orig_list (g : cgraph) : list (nat * obj) :=
  flat_map (fun c => match c_orig c with Some o => [(o, c_obj c)] | None => [] end) (c_nodes g).
Definition dest_list (g : cgraph) : list (nat * obj) :=
  flat_map (fun c => match c_dest c with Some o => [(o, c_obj c)] | None => [] end) (c_nodes g).

Lemma recompute_dep nm key g g' :
  match key with
  | KNodesByName => node_objs g = node_objs g'
  | KLinksByName | KNodesByLink => clinks g = clinks g'
  | KOrigins | KOriginsByName | KOriginsByNode => orig_list g = orig_list g'
  | KDests | KDestsByName | KDestsByNode => dest_list g = dest_list g'
  end -> recompute nm key g = recompute nm key g'.
Proof.
  destruct key; simpl; intros H; unfold origins_d, dests_d; fold (orig_list g) (orig_list g') (dest_list g) (dest_list g');
    try (rewrite H; reflexivity).
  unfold node_objs in H. f_equal. f_equal.
  rewrite <- (map_map c_obj (fun x => (obj_name nm x, x))), <- (map_map c_obj (fun x => (obj_name nm x, x)) (c_nodes g')).
  rewrite H. reflexivity.
Qed.

Lemma no_out_edges g x : cwf g -> ~ a_node g x -> filter (fun e => obj_eqb (c_up e) x) (c_edges g) = [].
Proof.
  intros (_ & _ & H3) Hn. induction (c_edges g) as [|e l IH]; simpl; [reflexivity|].
  destruct (obj_eqb (c_up e) x) eqn:E.
  - apply obj_eqb_eq in E. exfalso. apply Hn. rewrite <- E. apply (H3 e). left. reflexivity.
  - apply IH. intros e' He'. apply H3. right. exact He'.
Qed.

Lemma clinks_append g c : cwf g -> ~ a_node g (c_obj c) ->
  clinks {| c_nodes := c_nodes g ++ [c]; c_edges := c_edges g |} = clinks g.
Proof.
  intros W Hn. unfold clinks. simpl. rewrite flat_map_app. simpl.
  rewrite (no_out_edges g (c_obj c) W Hn), !app_nil_r. reflexivity.
Qed.
Lemma clinks_upd g f x : (forall c, c_obj (f c) = c_obj c) ->
  clinks {| c_nodes := upd_node f x (c_nodes g); c_edges := c_edges g |} = clinks g.
Proof.
  intros Hf. unfold clinks, upd_node. simpl. induction (c_nodes g) as [|a l IH]; simpl; [reflexivity|].
  rewrite IH. destruct (obj_eqb (c_obj a) x); rewrite ?Hf; reflexivity.
Qed.

Lemma add_node_keeps g x : cwf g ->
  clinks (add_node g x) = clinks g /\ orig_list (add_node g x) = orig_list g /\
  dest_list (add_node g x) = dest_list g.
Proof.
  intros W. unfold add_node. destruct (has_node g x) eqn:H; [auto|]. apply has_node_false in H.
  split; [apply clinks_append; assumption|].
  unfold orig_list, dest_list. simpl. rewrite !flat_map_app. simpl. rewrite !app_nil_r. auto.
Qed.

Lemma add_origin_keeps g o x : cwf g ->
  clinks (add_origin g o x) = clinks g /\ dest_list (add_origin g o x) = dest_list g.
Proof.
  intros W. unfold add_origin. destruct (has_node g x) eqn:H.
  - split; [apply clinks_upd; reflexivity|]. unfold dest_list, upd_node. simpl.
    induction (c_nodes g) as [|a l IH]; simpl; [reflexivity|]. rewrite IH.
    destruct (obj_eqb (c_obj a) x); reflexivity.
  - apply has_node_false in H. split; [apply clinks_append; assumption|].
    unfold dest_list. simpl. rewrite flat_map_app. simpl. rewrite app_nil_r. reflexivity.
Qed.
Lemma add_destination_keeps g o x : cwf g ->
  clinks (add_destination g o x) = clinks g /\ orig_list (add_destination g o x) = orig_list g.
Proof.
  intros W. unfold add_destination. destruct (has_node g x) eqn:H.
  - split; [apply clinks_upd; reflexivity|]. unfold orig_list, upd_node. simpl.
    induction (c_nodes g) as [|a l IH]; simpl; [reflexivity|]. rewrite IH.
    destruct (obj_eqb (c_obj a) x); reflexivity.
  - apply has_node_false in H. split; [apply clinks_append; assumption|].
    unfold orig_list. simpl. rewrite flat_map_app. simpl. rewrite app_nil_r. reflexivity.
Qed.
Lemma add_link_keeps g u l d : cwf g ->
  orig_list (add_link g u l d) = orig_list g /\ dest_list (add_link g u l d) = dest_list g.
Proof.
  intros W. unfold add_link. set (g2 := add_node (add_node g u) d).
  assert (H : orig_list g2 = orig_list g /\ dest_list g2 = dest_list g).
  { destruct (add_node_keeps g u W) as (_ & A & B).
    destruct (add_node_keeps (add_node g u) d (cwf_add_node g u W)) as (_ & C & D).
    unfold g2. rewrite C, D. auto. }
  destruct (has_edge g2 u d); exact H.
Qed.

(* soundness of `affects` *)
Lemma affects_sound_prim nm g p key :
  cwf g -> affects (kind_of_prim p) key = false ->
  recompute nm key (apply_prim g p) = recompute nm key g.
Proof.
  intros W Ha. apply recompute_dep. destruct p; simpl in *.
  - destruct (add_node_keeps g x W) as (A & B & C). destruct key; try discriminate; assumption.
  - destruct (add_link_keeps g u l d W) as (A & B). destruct key; try discriminate; assumption.
  - destruct (add_origin_keeps g o x W) as (A & B). destruct key; try discriminate; assumption.
  - destruct (add_destination_keeps g d x W) as (A & B). destruct key; try discriminate; assumption.
Qed.
Lemma affects_sound_nodes nm g xs key :
  cwf g -> affects KAddNodes key = false ->
  recompute nm key (fold_left add_node xs g) = recompute nm key g /\ cwf (fold_left add_node xs g).
Proof.
  revert g. induction xs as [|x xs IH]; intros g W Ha; [auto|]. simpl.
  destruct (IH (add_node g x) (cwf_add_node g x W) Ha) as [A B]. split; [|exact B]. rewrite A.
  apply (affects_sound_prim nm g (PAddNode x) key W). destruct key; simpl in *; congruence.
Qed.
Lemma affects_sound_links nm g ls key :
  cwf g -> affects KAddLinks key = false ->
  let g' := fold_left (fun g t => add_link g (fst (fst t)) (snd (fst t)) (snd t)) ls g in
  recompute nm key g' = recompute nm key g /\ cwf g'.
Proof.
  revert g. induction ls as [|t ls IH]; intros g W Ha; [simpl; auto|]. simpl.
  destruct (IH _ (cwf_add_link g (fst (fst t)) (snd (fst t)) (snd t) W) Ha) as [A B]. split; [|exact B]. rewrite A.
  apply (affects_sound_prim nm g (PAddLink (fst (fst t)) (snd (fst t)) (snd t)) key W).
  destruct key; simpl in *; congruence.
Qed.

(* ---- the invariant ---- *)
Definition inv_state (s : cstate) : Prop :=
  cwf (fst s) /\ forall key g0, snd s key = Some g0 -> forall nm, recompute nm key g0 = recompute nm key (fst s).

Lemma table_ok_use inv k key :
  table_ok inv = true -> In k all_kinds -> existsb (ckey_eqb key) (inv k) = false -> affects k key = false.
Proof.
  intros H Hk He. unfold table_ok in H. rewrite forallb_forall in H. specialize (H k Hk).
  rewrite forallb_forall in H.
  assert (Hkey : In key all_keys) by (destruct key; simpl; tauto).
  specialize (H key Hkey). rewrite He in H. destruct (affects k key); [discriminate|reflexivity].
Qed.
Lemma kinds_all k : In k all_kinds.
Proof. destruct k; simpl; tauto. Qed.

Section Inv.
Variable inv : pkind -> list ckey.
Hypothesis TOK : table_ok inv = true.

Lemma inv_step_prim s p : inv_state s -> inv_state (step_prim inv s p).
Proof.
  intros [W F]. split; [apply cwf_prim; exact W|]. intros key g0 Hc nm. simpl in *.
  unfold cache_drop in Hc. destruct (existsb (ckey_eqb key) (inv (kind_of_prim p))) eqn:E; [discriminate|].
  rewrite (F key g0 Hc nm). symmetry. apply affects_sound_prim; [exact W|].
  apply (table_ok_use inv _ key TOK (kinds_all _) E).
Qed.

Lemma ckey_eqb_eq a b : ckey_eqb a b = true <-> a = b.
Proof. destruct a, b; simpl; split; intros H; try discriminate; reflexivity. Qed.

Lemma inv_step s op : inv_state s -> inv_state (hstep inv s op).
Proof.
  intros [W F]. destruct op as [p|xs|ls|path o d|k]; simpl.
  - apply inv_step_prim. split; assumption.
  - split; [|intros key g0 Hc nm; simpl in *].
    + simpl. destruct (affects_sound_nodes {| obj_name := fun _ => O; orig_name := fun _ => O; dest_name := fun _ => O |}
                         (fst s) xs KOrigins W eq_refl) as [_ B]. exact B.
    + unfold cache_drop in Hc. destruct (existsb (ckey_eqb key) (inv KAddNodes)) eqn:E; [discriminate|].
      rewrite (F key g0 Hc nm). symmetry.
      apply (affects_sound_nodes nm (fst s) xs key W (table_ok_use inv _ key TOK (kinds_all _) E)).
  - split; [|intros key g0 Hc nm; simpl in *].
    + simpl. destruct (affects_sound_links {| obj_name := fun _ => O; orig_name := fun _ => O; dest_name := fun _ => O |}
                         (fst s) ls KOrigins W eq_refl) as [_ B]. exact B.
    + unfold cache_drop in Hc. destruct (existsb (ckey_eqb key) (inv KAddLinks)) eqn:E; [discriminate|].
      rewrite (F key g0 Hc nm). symmetry.
      apply (affects_sound_links nm (fst s) ls key W (table_ok_use inv _ key TOK (kinds_all _) E)).
  - generalize (fst (expand_path path o d)). intros ps. revert s W F.
    induction ps as [|p ps IH]; intros s W F; [split; assumption|]. simpl.
    destruct (inv_step_prim s p (conj W F)) as [W' F']. apply IH; assumption.
  - split; [exact W|]. simpl. intros key g0 Hc nm.
    set (c1 := cache_fill (reads_through k) (fst s) (snd s)) in *.
    assert (F1 : forall key g0, c1 key = Some g0 -> forall nm, recompute nm key g0 = recompute nm key (fst s)).
    { intros key' g' Hc' nm'. unfold c1, cache_fill in Hc'. destruct (snd s key') eqn:E.
      - inversion Hc'; subst. apply (F key' g' E).
      - destruct (existsb (ckey_eqb key') (reads_through k)); inversion Hc'; subst. reflexivity. }
    unfold cache_fill in Hc. destruct (c1 key) eqn:E1.
    + inversion Hc; subst. apply (F1 key g0 E1).
    + destruct (existsb (ckey_eqb key) [k]) eqn:Ek; [|discriminate]. inversion Hc; subst g0. clear Hc.
      simpl in Ek. rewrite orb_false_r in Ek. apply ckey_eqb_eq in Ek. subst key.
      destruct (reads_through k) as [|k' r] eqn:R; [reflexivity|].
      destruct (c1 k') as [gs|] eqn:Ec; [|reflexivity].
      (* a derived look-up computed from an (equal) older snapshot of the look-up it reads *)
      pose proof (F1 k' gs Ec nm) as Hs.
      destruct k; simpl in R; try discriminate; inversion R; subst k' r; simpl in Hs; inversion Hs as [Hd];
        simpl; rewrite Hd; reflexivity.
Qed.

Theorem never_stale_inv h : inv_state (hrun inv h).
Proof.
  unfold hrun.
  assert (H : forall s, inv_state s -> inv_state (fold_left (hstep inv) h s)).
  { induction h as [|op h IH]; intros s Hs; [exact Hs|]. simpl. apply IH. apply inv_step. exact Hs. }
  apply H. split.
  - split; [constructor|]. split; [constructor|]. intros e [].
  - intros key g0 Hc. discriminate.
Qed.
End Inv.

Theorem never_stale_proof : never_stale.
Proof.
  intros inv TOK h nm key. destruct (never_stale_inv inv TOK h) as [W F]. unfold lookup.
  destruct (snd (hrun inv h) key) as [g0|] eqn:E; [apply (F key g0 E)|reflexivity].
Qed.
