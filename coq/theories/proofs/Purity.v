From Coq Require Import List Arith Bool Lia.
From SM Require Import Lifecycle.
From SM.gen Require Import Tables.
From SM.specs Require Import C12_spec.
Import ListNotations.

Section P.
Variable n : lnet.

Lemma existsb_In e l : In e l -> existsb (Nat.eqb e) l = true.
Proof. intros H. apply existsb_exists. exists e. split; [exact H|apply Nat.eqb_refl]. Qed.

(* initialising a list of elements *)
Lemma fold_init_slots l k : forall s e,
  ~ In e l -> slots (fold_left (fun s e => init_one s e k) l s) e = slots s e.
Proof.
  induction l as [|a l IH]; intros s e H; [reflexivity|]. simpl. rewrite IH by (intros Hin; apply H; right; exact Hin).
  destruct k; simpl; unfold upd; destruct (Nat.eqb_spec e a) as [->|]; try reflexivity; exfalso; apply H; left; reflexivity.
Qed.
Lemma fold_init_members l k : forall s, members (fold_left (fun s e => init_one s e k) l s) = members s.
Proof. induction l as [|a l IH]; intros s; [reflexivity|]. simpl. rewrite IH. destruct k; reflexivity. Qed.
Lemma fold_init_shape l k : forall s e, In e l ->
  slot_shape (slots (fold_left (fun s e => init_one s e k) l s) e) = (true, false).
Proof.
  induction l as [|a l IH]; intros s e H; [destruct H|]. cbn [fold_left].
  destruct (in_dec Nat.eq_dec e l) as [Hin|Hnin]; [apply IH; exact Hin|].
  rewrite fold_init_slots by exact Hnin. destruct H as [->|H]; [|contradiction].
  destruct k; simpl; unfold upd; rewrite Nat.eqb_refl; reflexivity.
Qed.
Lemma fold_init_numbers l : forall s e, In e l ->
  slots (fold_left (fun s e => init_one s e Numbers) l s) e = {| vars := Some None; next := None |}.
Proof.
  induction l as [|a l IH]; intros s e H; [destruct H|]. cbn [fold_left].
  destruct (in_dec Nat.eq_dec e l) as [Hin|Hnin]; [apply IH; exact Hin|].
  rewrite fold_init_slots by exact Hnin. destruct H as [->|H]; [|contradiction].
  simpl. unfold upd. rewrite Nat.eqb_refl. reflexivity.
Qed.

(* stepping a list of elements *)
Definition stepf (s : lstate) (e : nat) : lstate := if declares_states n e then step_one n s e else s.
Lemma stepf_members s e : members (stepf s e) = members s.
Proof. unfold stepf. destruct (declares_states n e); reflexivity. Qed.
Lemma stepf_vars s e x : vars (slots (stepf s e) x) = vars (slots s x).
Proof.
  unfold stepf. destruct (declares_states n e); [|reflexivity]. simpl. unfold upd.
  destruct (Nat.eqb_spec x e) as [->|]; reflexivity.
Qed.
Lemma fold_step_members l : forall s, members (fold_left stepf l s) = members s.
Proof. induction l as [|a l IH]; intros s; [reflexivity|]. simpl. rewrite IH. apply stepf_members. Qed.
Lemma fold_step_vars l : forall s x, vars (slots (fold_left stepf l s) x) = vars (slots s x).
Proof. induction l as [|a l IH]; intros s x; [reflexivity|]. simpl. rewrite IH. apply stepf_vars. Qed.
Lemma fold_step_next_shape l : forall s e, In e l ->
  (match next (slots (fold_left stepf l s) e) with Some _ => true | None => false end) =
  (declares_states n e || match next (slots s e) with Some _ => true | None => false end).
Proof.
  induction l as [|a l IH]; intros s e H; [destruct H|]. simpl.
  destruct (in_dec Nat.eq_dec e l) as [Hin|Hnin].
  - rewrite IH by exact Hin. unfold stepf. destruct (declares_states n a) eqn:Da; [|reflexivity].
    simpl. unfold upd. destruct (Nat.eqb_spec e a) as [->|]; [|reflexivity]. rewrite Da. reflexivity.
  - destruct H as [->|H]; [|contradiction].
    assert (Hk : forall l s, ~ In e l -> next (slots (fold_left stepf l s) e) = next (slots s e)).
    { clear. induction l as [|b l IH]; intros s H; [reflexivity|]. simpl. rewrite IH by (intros Hin; apply H; right; exact Hin).
      unfold stepf. destruct (declares_states n b); [|reflexivity]. simpl. unfold upd.
      destruct (Nat.eqb_spec e b) as [->|]; [exfalso; apply H; left; reflexivity|reflexivity]. }
    rewrite Hk by exact Hnin. unfold stepf. destruct (declares_states n e) eqn:De; [|reflexivity].
    simpl. unfold upd. rewrite Nat.eqb_refl. reflexivity.
Qed.

Theorem step_shape_forgets_history_proof : step_shape_forgets_history n.
Proof.
  intros s1 s2 k Hm e He. unfold lstep. cbn [fst].
  set (a1 := fold_left (fun s e => init_one s e k) (members s1) s1).
  set (a2 := fold_left (fun s e => init_one s e k) (members s2) s2).
  change (fun s e => if declares_states n e then step_one n s e else s) with stepf.
  assert (M1 : members a1 = members s1) by apply fold_init_members.
  assert (M2 : members a2 = members s2) by apply fold_init_members.
  pose proof (fold_init_shape (members s1) k s1 e He) as S1.
  pose proof (fold_init_shape (members s2) k s2 e ltac:(rewrite <- Hm; exact He)) as S2.
  fold a1 in S1. fold a2 in S2. unfold slot_shape in S1, S2.
  pose proof (f_equal fst S1) as A. pose proof (f_equal snd S1) as B.
  pose proof (f_equal fst S2) as C. pose proof (f_equal snd S2) as D. cbn [fst snd] in A, B, C, D.
  unfold slot_shape. f_equal.
  - rewrite !fold_step_vars. rewrite A, C. reflexivity.
  - rewrite (fold_step_next_shape (members a1) a1 e) by (rewrite M1; exact He).
    rewrite (fold_step_next_shape (members a2) a2 e) by (rewrite M2, <- Hm; exact He).
    rewrite B, D. reflexivity.
Qed.

(* with numbers every generation list is empty, so the slots themselves coincide *)
Lemma gens_of_nil s els : (forall e, In e els -> vars (slots s e) = Some None) -> gens_of s els = [].
Proof.
  intros H. unfold gens_of. induction els as [|a l IH]; [reflexivity|]. simpl.
  rewrite (H a (or_introl eq_refl)). simpl. apply IH. intros e He. apply H. right. exact He.
Qed.

Lemma fold_step_numbers l : forall s,
  (forall e, In e (members s) -> vars (slots s e) = Some None) ->
  (forall e, In e l -> In e (members s)) ->
  forall e, In e l ->
    slots (fold_left stepf l s) e =
    {| vars := Some None; next := if declares_states n e then Some [] else next (slots s e) |}.
Proof.
  induction l as [|a l IH]; intros s Hnum Hsub e He; [destruct He|]. simpl.
  assert (Hnum' : forall x, In x (members (stepf s a)) -> vars (slots (stepf s a) x) = Some None).
  { intros x Hx. rewrite stepf_vars. apply Hnum. rewrite stepf_members in Hx. exact Hx. }
  assert (Hsub' : forall x, In x l -> In x (members (stepf s a))).
  { intros x Hx. rewrite stepf_members. apply Hsub. right. exact Hx. }
  assert (Hstep : slots (stepf s a) a = {| vars := Some None; next := if declares_states n a then Some [] else next (slots s a) |}).
  { unfold stepf. destruct (declares_states n a) eqn:Da.
    - unfold step_one. cbn [slots]. unfold upd. rewrite Nat.eqb_refl. rewrite (Hnum a (Hsub a (or_introl eq_refl))). f_equal. f_equal.
      apply gens_of_nil. intros x [<-|Hx]; [apply Hnum, Hsub; left; reflexivity|].
      unfold reads in Hx. apply filter_In in Hx. destruct Hx as [_ Hx]. apply andb_true_iff in Hx. destruct Hx as [Hx _].
      apply existsb_exists in Hx. destruct Hx as (y & Hy & E). apply Nat.eqb_eq in E. subst y. apply Hnum. exact Hy.
    - destruct (slots s a) as [v nx] eqn:E. simpl. pose proof (Hnum a (Hsub a (or_introl eq_refl))) as Hv.
      rewrite E in Hv. simpl in Hv. subst v. reflexivity. }
  destruct (in_dec Nat.eq_dec e l) as [Hin|Hnin].
  - rewrite (IH (stepf s a) Hnum' Hsub' e Hin). f_equal. destruct (declares_states n e) eqn:De; [reflexivity|].
    unfold stepf. destruct (declares_states n a) eqn:Da; [|reflexivity]. simpl. unfold upd.
    destruct (Nat.eqb_spec e a) as [->|]; [congruence|reflexivity].
  - destruct He as [->|He]; [|contradiction].
    assert (Hk : forall l s, ~ In e l -> slots (fold_left stepf l s) e = slots s e).
    { clear. induction l as [|b l IH]; intros s H; [reflexivity|]. simpl. rewrite IH by (intros Hin; apply H; right; exact Hin).
      unfold stepf. destruct (declares_states n b); [|reflexivity]. simpl. unfold upd.
      destruct (Nat.eqb_spec e b) as [->|]; [exfalso; apply H; left; reflexivity|reflexivity]. }
    rewrite Hk by exact Hnin. exact Hstep.
Qed.

Theorem step_forgets_history_proof : step_forgets_history n.
Proof.
  intros s1 s2 Hm e He. unfold lstep. cbn [fst].
  change (fun s e => if declares_states n e then step_one n s e else s) with stepf.
  set (a1 := fold_left (fun s e => init_one s e Numbers) (members s1) s1).
  set (a2 := fold_left (fun s e => init_one s e Numbers) (members s2) s2).
  assert (M1 : members a1 = members s1) by apply fold_init_members.
  assert (M2 : members a2 = members s2) by apply fold_init_members.
  assert (N1 : forall x, In x (members a1) -> slots a1 x = {| vars := Some None; next := None |}).
  { intros x Hx. apply fold_init_numbers. rewrite <- M1. exact Hx. }
  assert (N2 : forall x, In x (members a2) -> slots a2 x = {| vars := Some None; next := None |}).
  { intros x Hx. apply fold_init_numbers. rewrite <- M2. exact Hx. }
  rewrite (fold_step_numbers (members a1) a1) ; [| intros x Hx; rewrite (N1 x Hx); reflexivity | auto | rewrite M1; exact He].
  rewrite (fold_step_numbers (members a2) a2) ; [| intros x Hx; rewrite (N2 x Hx); reflexivity | auto | rewrite M2, <- Hm; exact He].
  rewrite (N1 e ltac:(rewrite M1; exact He)), (N2 e ltac:(rewrite M2, <- Hm; exact He)). reflexivity.
Qed.
End P.

Theorem no_inplace_write_on_caller_data_proof : no_inplace_write_on_caller_data.
Proof. vm_compute. reflexivity. Qed.
