From Coq Require Import Reals List String.
From SM Require Import Num NumR Graph Engine Expr ExprEval Types Blocks Validity ToFunction.
From SM.specs Require Import C03_spec C04_spec.
From SM.proofs Require Import Closed Compiled.
Import ListNotations.

Theorem results_closed_proof : results_closed.
Proof.
  intros nm U P g opts c more ps outs HP Ht n v e Hin He.
  exact (tf_outputs_closed nm U P g opts c more ps outs HP Ht n v e Hin He).
Qed.

Lemma net_idents_elem U g x :
  In x (net_idents U g) -> exists el ve, In el (elements g) /\ In ve (elem_vars U el) /\ In x (snd ve).
Proof.
  unfold net_idents, group_idents. rewrite !in_app_iff.
  assert (H : forall gr, In x (List.concat (map snd (group_entries U g gr))) ->
                         exists el ve, In el (elements g) /\ In ve (elem_vars U el) /\ In x (snd ve)).
  { intros gr Hx. apply In_concat in Hx. destruct Hx as (l & Hl & Hx).
    apply in_map_iff in Hl. destruct Hl as ([[el k] ids] & E & Hin). simpl in E.
    unfold group_entries in Hin. apply in_flat_map in Hin. destruct Hin as (el' & Hel & Hin).
    apply in_map_iff in Hin. destruct Hin as (ve & E2 & Hve). inversion E2 as [[E3 E4 E5]].
    apply filter_In in Hve. exists el', ve. rewrite E5, E. tauto. }
  intros [Hx|[Hx|Hx]]; eapply H; eauto.
Qed.

Theorem arguments_exact_proof : arguments_exact.
Proof.
  intros nm U g c ps x. unfold symbols. split.
  - unfold tf_inputs. rewrite map_app, concat_app, in_app_iff. intros [H|H].
    + left. apply net_idents_elem.
      destruct c as [|[|c]]; [apply level0_idents in H|apply level1_idents in H|apply level2_idents in H]; exact H.
    + right. destruct ps as [|p ps]; [destruct H|]. unfold param_inputs in H. destruct c.
      * rewrite concat_singletons_ids in H. exact H.
      * cbn [map snd List.concat] in H. rewrite app_nil_r in H. exact H.
  - intros [(el & ve & Hel & Hve & Hx)|H].
    + apply tf_inputs_idents. eapply elem_entry_idents; eauto.
    + apply tf_inputs_params. exact H.
Qed.

Theorem levels_are_regroupings_proof : levels_are_regroupings.
Proof.
  intros env nm U P g opts. eexists. intros c. apply compiled_is_numpy_step_proof.
Qed.
