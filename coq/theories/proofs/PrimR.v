(* PrimR.v — characterising lemmas of the GENERATED NumPy-engine primitives at the real
   instance.  Higher layers never unfold a generated definition: a semantics-preserving
   rewrite of an engine formula re-proves here, a changed formula does not. *)
From Coq Require Import Reals Qreals List Lia Lra String.
From SM Require Import Num NumR.
From SM.gen Require Import EnginesNp.
From SM.proofs Require Import VecR.
From Coq Require Import List.
Import ListNotations.
Local Open Scope R_scope.

Ltac numR := change (@add R NumR) with Rplus in *; change (@sub R NumR) with Rminus in *;
             change (@mul R NumR) with Rmult in *; change (@div R NumR) with Rdiv in *;
             change (@neg R NumR) with Ropp in *; change (@nexp R NumR) with exp in *;
             change (@nlog R NumR) with ln in *; change (@npow R NumR) with Rpow in *;
             change (@nmin R NumR) with Rmin in *; change (@nmax R NumR) with Rmax in *;
             change (@sq R NumR) with (fun x : R => x * x) in *;
             change (@ofQ R NumR) with Q2R in *.

Lemma np_get_flow_length rho v lam :
  length (Np.links_get_flow rho v lam) = Nat.min (length rho) (length v).
Proof. unfold Np.links_get_flow. rewrite vs_length, vv_length. reflexivity. Qed.

Lemma np_get_flow_nth rho v lam i d :
  (i < length rho)%nat -> (i < length v)%nat ->
  nth i (Np.links_get_flow rho v lam) d = nth i rho d * nth i v d * lam.
Proof.
  intros Hr Hv. unfold Np.links_get_flow.
  rewrite nth_vs by (rewrite vv_length; lia). rewrite nth_vv by assumption. reflexivity.
Qed.

Lemma np_step_density_length rho q qu lam L T :
  length q = length rho -> length qu = length rho ->
  length (Np.links_step_density rho q qu lam L T) = length rho.
Proof.
  intros Hq Hu. unfold Np.links_step_density.
  rewrite vv_length, sv_length, vv_length. lia.
Qed.

Lemma np_step_density_nth rho q qu lam L T i d :
  (i < length rho)%nat -> length q = length rho -> length qu = length rho ->
  nth i (Np.links_step_density rho q qu lam L T) d =
  nth i rho d + (T / lam / L) * (nth i qu d - nth i q d).
Proof.
  intros Hi Hq Hu. unfold Np.links_step_density.
  rewrite nth_vv; [| lia | rewrite sv_length, vv_length; lia].
  rewrite nth_sv by (rewrite vv_length; lia).
  rewrite nth_vv by lia. reflexivity.
Qed.

Lemma np_Veq_length rho vf rc a : length (Np.links_Veq rho vf rc a) = length rho.
Proof.
  unfold Np.links_Veq. rewrite sv_length, map_length, sv_length, vs_length, vs_length. reflexivity.
Qed.

Lemma np_Veq_nth rho vf rc a i d :
  (i < length rho)%nat ->
  nth i (Np.links_Veq rho vf rc a) d = vf * exp ((-1 / a) * Rpow (nth i rho d / rc) a).
Proof.
  intros Hi. unfold Np.links_Veq.
  rewrite nth_sv by (rewrite map_length, sv_length, vs_length, vs_length; lia).
  rewrite nth_map1 by (rewrite sv_length, vs_length, vs_length; lia).
  rewrite nth_sv by (rewrite vs_length, vs_length; lia).
  rewrite nth_vs by (rewrite vs_length; lia).
  rewrite nth_vs by lia. numR. rewrite Q2R_m1. reflexivity.
Qed.

Lemma np_Veq_s_eq rho vf rc a :
  Np.links_Veq_s rho vf rc a = vf * exp ((-1 / a) * Rpow (rho / rc) a).
Proof. unfold Np.links_Veq_s. numR. rewrite Q2R_m1. reflexivity. Qed.

(* ---- gather / scatter (any Num) ---- *)
From SM Require Import Spec.
Section Scatter.
Context {A : Type} {NA : Num A}.

Lemma index_of_None i l : index_of i l = None <-> ~ In i l.
Proof.
  induction l as [|x l IH]; simpl; [tauto|].
  destruct (Nat.eqb_spec x i) as [->|Hne].
  - split; [discriminate | intros H; exfalso; apply H; auto].
  - destruct (index_of i l) eqn:E; simpl.
    + split; [discriminate|]. intros H. exfalso. apply H. right.
      destruct (in_dec Nat.eq_dec i l) as [Hin|Hnin]; [exact Hin|].
      apply IH in Hnin. discriminate.
    + split; [|reflexivity]. intros _ [H|H]; [congruence|]. apply IH in H; auto.
Qed.

Lemma index_of_Some_lt i l k : index_of i l = Some k -> (k < length l)%nat /\ nth k l O = i.
Proof.
  revert k; induction l as [|x l IH]; simpl; intros k H; [discriminate|].
  destruct (Nat.eqb_spec x i) as [->|Hne].
  - inversion H; subst. split; [lia|reflexivity].
  - destruct (index_of i l) eqn:E; simpl in H; [|discriminate].
    inversion H; subst. destruct (IH _ eq_refl). split; [lia|assumption].
Qed.

Lemma nth_scatter idx : forall (vals x : list A) i d,
  NoDup idx -> Forall (fun j => (j < length x)%nat) idx -> length vals = length idx ->
  nth i (scatter idx vals x) d =
  match index_of i idx with Some k => nth k vals d | None => nth i x d end.
Proof.
  induction idx as [|j idx IH]; intros vals x i d Hnd Hlt Hlen.
  - destruct vals; reflexivity.
  - destruct vals as [|y vals]; [discriminate|]. simpl scatter.
    inversion Hnd as [|? ? Hnin Hnd']; subst. inversion Hlt as [|? ? Hj Hlt']; subst.
    rewrite IH; [| assumption | | simpl in Hlen; lia].
    2:{ eapply Forall_impl; [|exact Hlt']. intros a Ha. rewrite set_nth_length. exact Ha. }
    simpl index_of. destruct (Nat.eqb_spec j i) as [->|Hne].
    + apply index_of_None in Hnin. rewrite Hnin. rewrite nth_set_nth.
      rewrite Nat.eqb_refl. apply Nat.ltb_lt in Hj. rewrite Hj. reflexivity.
    + destruct (index_of i idx); simpl; [reflexivity|].
      rewrite nth_set_nth. apply Nat.eqb_neq in Hne. rewrite Hne. reflexivity.
Qed.

Lemma nth_gather idx (x : list A) k d :
  (k < length idx)%nat -> nth k (gather idx x) d = nth (nth k idx O) x zero.
Proof.
  unfold gather. revert k; induction idx as [|j idx IH]; intros [|k] Hk; simpl in *; try lia.
  - reflexivity.
  - apply IH. lia.
Qed.
Lemma gather_length idx (x : list A) : length (gather idx x) = length idx.
Proof. unfold gather. apply map_length. Qed.
End Scatter.

Lemma np_cVeq_length (rho vc : list R) vsl (al vf rc a : R) :
  length (Np.links_controlled_Veq rho vc vsl al vf rc a) = length rho.
Proof. unfold Np.links_controlled_Veq. rewrite scatter_length. apply np_Veq_length. Qed.

Lemma np_cVeq_nth (rho vc : list R) vsl (al vf rc a : R) i :
  (i < length rho)%nat -> NoDup vsl -> Forall (fun j => (j < length rho)%nat) vsl ->
  length vc = length vsl ->
  nth i (Np.links_controlled_Veq rho vc vsl al vf rc a) 0 =
  match index_of i vsl with
  | Some k => Rmin (vf * exp ((-1 / a) * Rpow (nth i rho 0 / rc) a)) ((1 + al) * nth k vc 0)
  | None => vf * exp ((-1 / a) * Rpow (nth i rho 0 / rc) a)
  end.
Proof.
  intros Hi Hnd Hlt Hlen. unfold Np.links_controlled_Veq.
  rewrite nth_scatter; try assumption.
  - destruct (index_of i vsl) as [k|] eqn:E.
    + destruct (index_of_Some_lt _ _ _ E) as [Hk Hik].
      rewrite nth_vv; [| rewrite gather_length; lia | rewrite sv_length; lia].
      rewrite nth_gather by lia. rewrite Hik.
      rewrite nth_sv by lia. numR. rewrite Q2R_1.
      change (@zero R NumR) with (Q2R 0). rewrite Q2R_0.
      rewrite np_Veq_nth by lia. reflexivity.
    + apply np_Veq_nth. exact Hi.
  - eapply Forall_impl; [|exact Hlt]. intros j Hj. rewrite np_Veq_length. exact Hj.
  - rewrite vv_length, gather_length, sv_length. lia.
Qed.

(* ---- step_speed ---- *)
Definition ss_base (v vu r rd V : list R) (L tau eta kappa T : R) (i : nat) : R :=
  nth i v 0 + (T / tau) * (nth i V 0 - nth i v 0)
  + (T * nth i v 0 / L) * (nth i vu 0 - nth i v 0)
  - ((eta * T / tau) * (nth i rd 0 - nth i r 0)) / (L * (nth i r 0 + kappa)).
Definition ss_merge (v r : list R) (lanes L kappa T : R) (qr de : option R) (i : nat) : R :=
  match qr, de with
  | Some qr, Some de =>
      if Nat.eqb i 0 then (de * T * qr * nth 0 v 0) / (L * lanes * (nth 0 r 0 + kappa)) else 0
  | _, _ => 0
  end.
Definition ss_drop (v r : list R) (lanes L T : R) (ld ph rc : option R) (i : nat) : R :=
  match ld, ph, rc with
  | Some ld, Some ph, Some rc =>
      if Nat.eqb i (length v - 1)
      then (ph * T * ld * nth (length v - 1) r 0 * (nth (length v - 1) v 0 * nth (length v - 1) v 0))
           / (L * lanes * rc)
      else 0
  | _, _, _ => 0
  end.

Lemma np_step_speed_length (v vu r rd V : list R) (lanes L tau eta kappa T : R) qr de ld ph rc :
  length vu = length v -> length r = length v -> length rd = length v -> length V = length v ->
  length (Np.links_step_speed v vu r rd V lanes L tau eta kappa T qr de ld ph rc) = length v.
Proof.
  intros H1 H2 H3 H4. unfold Np.links_step_speed.
  assert (Hb : forall relax conv ant : list R, length relax = length v -> length conv = length v ->
            length ant = length v ->
            length (vv sub (vv add (vv add v relax) conv) ant) = length v).
  { intros. rewrite !vv_length. lia. }
  cbv zeta.
  destruct qr, de, ld, ph, rc; rewrite ?upd_last_length, ?upd_first_length;
    apply Hb; repeat (rewrite sv_length || rewrite vv_length || rewrite vs_length); lia.
Qed.

Lemma np_step_speed_nth (v vu r rd V : list R) (lanes L tau eta kappa T : R) qr de ld ph rc i :
  (i < length v)%nat ->
  length vu = length v -> length r = length v -> length rd = length v -> length V = length v ->
  nth i (Np.links_step_speed v vu r rd V lanes L tau eta kappa T qr de ld ph rc) 0 =
  ss_base v vu r rd V L tau eta kappa T i - ss_merge v r lanes L kappa T qr de i
  - ss_drop v r lanes L T ld ph rc i.
Proof.
  intros Hi H1 H2 H3 H4. unfold Np.links_step_speed. cbv zeta.
  set (relax := sv mul (div T tau) (vv sub V v)).
  set (conv := vv mul (vs div (sv mul T v) L) (vv sub vu v)).
  set (ant := vv div (sv mul (div (mul eta T) tau) (vv sub rd r)) (sv mul L (vs add r kappa))).
  set (b := vv sub (vv add (vv add v relax) conv) ant).
  assert (Lr : length relax = length v) by (unfold relax; rewrite sv_length, vv_length; lia).
  assert (Lc : length conv = length v)
    by (unfold conv; rewrite vv_length, vs_length, sv_length, vv_length; lia).
  assert (La : length ant = length v)
    by (unfold ant; rewrite vv_length, !sv_length, vv_length, vs_length; lia).
  assert (Lb : length b = length v) by (unfold b; rewrite !vv_length; lia).
  assert (Hb : forall j, (j < length v)%nat -> nth j b 0 = ss_base v vu r rd V L tau eta kappa T j).
  { intros j Hj. unfold b, ss_base.
    rewrite nth_vv by (rewrite ?vv_length; lia).
    rewrite nth_vv by (rewrite ?vv_length; lia).
    rewrite nth_vv by lia.
    unfold relax. rewrite nth_sv by (rewrite vv_length; lia). rewrite nth_vv by lia.
    unfold conv. rewrite nth_vv by (rewrite ?vs_length, ?sv_length, ?vv_length; lia).
    rewrite nth_vs by (rewrite sv_length; lia). rewrite nth_sv by lia. rewrite nth_vv by lia.
    unfold ant. rewrite nth_vv by (rewrite ?sv_length, ?vv_length, ?vs_length; lia).
    rewrite nth_sv by (rewrite vv_length; lia). rewrite nth_vv by lia.
    rewrite nth_sv by (rewrite vs_length; lia). rewrite nth_vs by lia.
    numR. reflexivity. }
  assert (Hv0 : vfirst v = nth 0 v 0) by (unfold vfirst; rewrite zeroR; reflexivity).
  assert (Hr0 : vfirst r = nth 0 r 0) by (unfold vfirst; rewrite zeroR; reflexivity).
  assert (Hvl : vlast v = nth (length v - 1) v 0) by (rewrite vlast_nth, zeroR; reflexivity).
  assert (Hrl : vlast r = nth (length v - 1) r 0) by (rewrite vlast_nth, zeroR, H2; reflexivity).
  unfold ss_merge, ss_drop.
  assert (Hf : forall f, nth i (upd_first f b) 0 = if Nat.eqb i 0 then f (nth i b 0) else nth i b 0).
  { intros f. rewrite nth_upd_first. destruct b as [|b0 b']; [simpl in Lb; lia|].
    destruct i; reflexivity. }
  destruct qr as [qr|], de as [de|]; destruct ld as [ld|], ph as [ph|], rc as [rc|];
    rewrite ?nth_upd_last by (rewrite ?upd_first_length; lia);
    rewrite ?upd_first_length, ?Lb; rewrite ?Hf; rewrite ?Hb by lia;
    rewrite ?Hv0, ?Hr0, ?Hvl, ?Hrl; numR;
    destruct (Nat.eqb i 0); destruct (Nat.eqb i (length v - 1)); lra.
Qed.
