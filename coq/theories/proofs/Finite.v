(* Finite.v — C07's finiteness clause for a whole step (specs/C07fin_spec.v), from Lifted.v *)
From Coq Require Import Reals Qreals List Lia Lra.
From SM Require Import Num NumR NumPR Graph Engine Expr Types Blocks Validity.
From SM.gen Require Import EnginesNp EnginesCs.
From SM.specs Require Import GraphWF C01_spec C07_spec C15fin_spec C07fin_spec.
From SM.proofs Require Import VecR PrimR EnginesEq EnginesFin LiftPrims Lifted StepSpec Steppable.
From Coq Require Import List.
Import ListNotations.
Local Open Scope R_scope.

Lemma exiting_link_inv g o m :
  exiting_link g o = Ok m -> exists n e, dict_get o (origins_dict g) = Some n /\ out_links g n = [e] /\ m = e_link e.
Proof.
  unfold exiting_link. destruct (dict_get o (origins_dict g)) as [n|]; [|discriminate].
  destruct (out_links g n) as [|e [|e' l]] eqn:Hout; try discriminate. intros H. inversion H.
  exists n, e. split; [reflexivity|]. split; [exact Hout|reflexivity].
Qed.

Lemma last_flow_model U st m :
  (1 <= List.length (s_v st m))%nat -> List.length (s_rho st m) = List.length (s_v st m) ->
  vlast (link_flow (@np_engine R NumR) U st m) = last_flow U st m.
Proof.
  intros H1 H2. unfold link_flow, last_flow. cbn [e_flow np_engine].
  rewrite !vlast_nth, np_get_flow_length, H2, Nat.min_id.
  rewrite np_get_flow_nth by lia. unfold lanes. reflexivity.
Qed.

Lemma admissible_model U P g st : admissible_inputs U P g st -> admissible U P g st.
Proof.
  intros A. constructor.
  - apply (ai_T _ _ _ _ A).
  - apply (ai_tau _ _ _ _ A).
  - apply (ai_kappa _ _ _ _ A).
  - intros e He. apply (ai_link _ _ _ _ A e He).
  - intros o m Hex. destruct (exiting_link_inv g o m Hex) as (n & e & Hd & Hout & ->).
    apply (ai_origin _ _ _ _ A o n e Hd Hout).
  - intros n Hne. apply (ai_turn _ _ _ _ A n Hne).
  - intros n Hn. unfold merge_inflow.
    rewrite (map_ext_in (fun e => vlast (link_flow (@np_engine R NumR) U st (e_link e)))
                        (fun e => last_flow U st (e_link e))).
    + apply (ai_merge _ _ _ _ A n Hn).
    + intros e He. unfold in_links in He. apply filter_In in He. destruct He as [He _].
      destruct (ai_link _ _ _ _ A e He) as (_ & _ & _ & _ & _ & H1 & H2). apply last_flow_model; assumption.
  - intros n Hd Hn. apply (ai_bifurcation _ _ _ _ A n Hd Hn).
Qed.

Theorem np_step_commutes_with_injection :
  step_commutes_with_injection (@np_engine PR NumPR) (@np_engine R NumR).
Proof. intros U P g opts st A. apply network_step_lift. apply admissible_model. exact A. Qed.

Theorem np_every_output_finite : every_output_finite (@np_engine PR NumPR) (@np_engine R NumR).
Proof.
  intros U P g opts st WFG V WL HT A.
  assert (HR : forall e, In e (g_edges g) -> lp P (e_link e) Prhocrit <> 0).
  { intros e He. destruct (ai_link _ _ _ _ A e He) as (_ & _ & _ & H & _). apply Rgt_not_eq. exact H. }
  destruct (np_steps_with_all_options U P g st opts WFG V WL HT HR) as (out & S & _).
  exists out. split; [exact S|]. rewrite (np_step_commutes_with_injection U P g opts st A), S. reflexivity.
Qed.

Theorem cs_step_commutes_with_injection :
  step_commutes_with_injection (@cs_engine PR NumPR) (@cs_engine R NumR).
Proof. rewrite !cs_engine_eq_np. exact np_step_commutes_with_injection. Qed.
Theorem cs_every_output_finite : every_output_finite (@cs_engine PR NumPR) (@cs_engine R NumR).
Proof. rewrite !cs_engine_eq_np. exact np_every_output_finite. Qed.

(* the hypotheses are satisfiable with exact zeros: a merge of two links into one, the second entering link
   empty and at standstill (rho = v = 0), a mainstream origin with zero speed limit *)
Definition exU : universe :=
  {| linkd := fun _ => {| lN := 1; llanes := 2; lvsl := None |}; okind_of := fun _ => OMain; dkind_of := fun _ => DFree |}.
Definition exP : params R :=
  {| lp := fun _ p => match p with PL => 1 | Prhomax => 180 | Prhocrit => 30 | Pvfree => 100 | Pa => 2 | Pturn => 1 | Palpha => 0 end;
     ocap := fun _ => 2000; gT := 1; gtau := 1; geta := 60; gkappa := 40; gdelta := None; gphi := None |}.
Definition exG : graph :=
  {| g_nodes := [ {| nid := 0; n_orig := Some 0%nat; n_dest := None |}; {| nid := 1; n_orig := Some 1%nat; n_dest := None |};
                  {| nid := 2; n_orig := None; n_dest := None |}; {| nid := 3; n_orig := None; n_dest := Some 0%nat |} ];
     g_edges := [ {| e_up := 0; e_down := 2; e_link := 0 |}; {| e_up := 1; e_down := 2; e_link := 1 |};
                  {| e_up := 2; e_down := 3; e_link := 2 |} ] |}.
Definition exS : state R :=
  {| s_rho := fun m => match m with 1%nat => [0] | _ => [20] end; s_v := fun m => match m with 1%nat => [0] | _ => [80] end;
     s_w := fun _ => 0; s_uo := fun o => match o with 0%nat => 0 | _ => 90 end; s_do := fun _ => 1000;
     s_vc := fun _ => []; s_dd := fun _ => 0 |}.

Definition finite_example_meets_hypotheses : Prop :=
  wf_graph exG /\ validb exU exG = true /\
  (forall e, In e (g_edges exG) -> wf_link exU exS (e_link e)) /\
  (forall e, In e (g_edges exG) -> lp exP (e_link e) Pturn <> 0) /\
  admissible_inputs exU exP exG (init_state (@np_engine R NumR) no_options exS).

Lemma Q2R_2 : Q2R 2 = 2. Proof. unfold Q2R; simpl; lra. Qed.

Lemma finite_example_ok : finite_example_meets_hypotheses.
Proof.
  unfold finite_example_meets_hypotheses. split; [|split; [|split; [|split]]].
  - split.
    + simpl. repeat constructor; simpl; intuition lia.
    + intros e He. simpl in He. simpl.
      repeat (destruct He as [<-|He]; [simpl; split; tauto|]). destruct He.
  - vm_compute. reflexivity.
  - intros e He. simpl in He.
    repeat (destruct He as [<-|He]; [unfold wf_link; simpl; repeat split; lia|]).
    destruct He.
  - intros e _. simpl. lra.
  - change (init_state (@np_engine R NumR) no_options exS) with
      {| s_rho := s_rho exS; s_v := s_v exS; s_w := s_w exS; s_uo := s_uo exS; s_do := s_do exS;
         s_vc := s_vc exS; s_dd := s_dd exS |}.
    constructor.
    + simpl. lra.
    + simpl. lra.
    + simpl. lra.
    + intros e He. simpl in He. unfold link_ok.
      repeat (destruct He as [<-|He];
              [cbn [e_link s_rho s_v exS exP exU lp linkd llanes List.length]; rewrite Q2R_2;
               repeat split; try lra; try lia; repeat constructor; lra|]).
      destruct He.
    + intros o n e Hd Hout. unfold origin_ok. cbn [okind_of exU].
      destruct o as [|[|o]]; cbn in Hd; try discriminate; inversion Hd; subst n; cbn in Hout; inversion Hout; subst e;
        cbn [e_link s_uo s_v exS exP lp vfirst nth]; repeat split; lra.
    + intros n Hne. destruct n as [|[|[|n]]]; cbn in Hne |- *; try (exfalso; apply Hne; reflexivity); lra.
    + intros n Hn. destruct n as [|[|[|[|n]]]]; cbn in Hn; try lia.
      cbn [in_links exG g_edges filter e_down Nat.eqb map e_link]. unfold last_flow.
      cbn [s_rho s_v exS vlast last linkd exU llanes vsum fold_left]. rewrite Q2R_2.
      change (@add R NumR) with Rplus. lra.
    + intros n Hd Hn. destruct n as [|[|[|n]]]; cbn in Hn; lia.
Qed.

(* ---- non-negative states are fixed points of the positive_init_* clamps ---- *)
From Coq Require Import FunctionalExtensionality.
Lemma max0_nonneg l : Forall (fun x => 0 <= x) l -> @Np.engine_max R NumR (@zero R NumR) l = l.
Proof.
  intros H. unfold Np.engine_max, sv. induction H as [|x l Hx Hl IH]; [reflexivity|]. cbn [map]. rewrite IH.
  f_equal. change (@nmax R NumR) with Rmax. rewrite zeroR. apply Rmax_right. exact Hx.
Qed.
Lemma init_state_nonneg opts st : nonnegative_state st -> init_state (@np_engine R NumR) opts st = st.
Proof.
  intros (Hr & Hv & Hw). destruct st as [srho sv_ sw suo sdo svc sdd]. unfold init_state. cbn [s_rho s_v s_w s_uo s_do s_vc s_dd] in *.
  f_equal; apply functional_extensionality; intros x.
  - destruct (pi_rho opts); [|reflexivity]. cbn [e_max np_engine]. apply max0_nonneg. apply Hr.
  - destruct (pi_v opts); [|reflexivity]. cbn [e_max np_engine]. apply max0_nonneg. apply Hv.
  - destruct (pi_w opts); [|reflexivity]. cbn [e_max_s np_engine]. unfold Np.engine_max_s.
    change (@nmax R NumR) with Rmax. rewrite zeroR. apply Rmax_right. apply Hw.
Qed.

Theorem np_every_output_finite_from_nonnegative :
  every_output_finite_from_nonnegative (@np_engine PR NumPR) (@np_engine R NumR).
Proof.
  intros U P g opts st WFG V WL HT NN A. apply np_every_output_finite; try assumption.
  rewrite (init_state_nonneg opts st NN). exact A.
Qed.
Theorem cs_every_output_finite_from_nonnegative :
  every_output_finite_from_nonnegative (@cs_engine PR NumPR) (@cs_engine R NumR).
Proof. rewrite !cs_engine_eq_np. exact np_every_output_finite_from_nonnegative. Qed.
