From Coq Require Import Reals Qreals Lra String.
From SM Require Import Num NumR.
From SM.gen Require Import EnginesNp EnginesCs.
From SM.specs Require Import C17_spec.
From SM.proofs Require Import VecR PrimR EnginesEq.
Local Open Scope R_scope.

Lemma Rmin_nonneg a b : 0 <= a -> 0 <= b -> 0 <= Rmin a b.
Proof. intros. apply Rmin_glb; assumption. Qed.

Lemma t3_nonneg rmax r1 rc : r1 <= rmax -> rc < rmax -> 0 <= (rmax - r1) / (rmax - rc).
Proof. intros. apply Rmult_le_pos; [lra|]. left. apply Rinv_0_lt_compat. lra. Qed.

Lemma queue_nonneg q d w T : 0 < T -> q <= d + w / T -> 0 <= w + T * (d - q).
Proof.
  intros HT Hq. assert (T * q <= T * (d + w / T)) by (apply Rmult_le_compat_l; lra).
  replace (T * (d + w / T)) with (T * d + w) in H by (field; lra). lra.
Qed.

Lemma demand_nonneg d w T : 0 <= d -> 0 <= w -> 0 < T -> 0 <= d + w / T.
Proof.
  intros. assert (0 <= w / T) by (apply Rmult_le_pos; [lra|left; apply Rinv_0_lt_compat; lra]). lra.
Qed.

Lemma cmin_le C x : 0 <= C -> x <= 1 -> C * x <= C.
Proof. intros. replace C with (C * 1) at 2 by ring. apply Rmult_le_compat_l; assumption. Qed.

Theorem np_ramp_bounds : ramp_bounds (@Np.origins_get_ramp_flow R NumR).
Proof.
  intros d w C r rmax r1 rc T ty Hd Hw HT HC [Hr0 Hr1] H1 Hrc.
  unfold Np.origins_get_ramp_flow, flow_ok. cbv zeta. numR. rewrite ?Q2R_1.
  pose proof (t3_nonneg _ _ _ H1 Hrc) as Ht3. pose proof (demand_nonneg _ _ _ Hd Hw HT) as Hdem.
  set (t3 := (rmax - r1) / (rmax - rc)) in *. set (dem := d + w / T) in *.
  destruct (String.eqb ty "in").
  - assert (Hm : 0 <= Rmin r t3 <= 1).
    { split; [apply Rmin_nonneg; assumption|]. eapply Rle_trans; [apply Rmin_l|exact Hr1]. }
    assert (Hc : 0 <= C * Rmin r t3 <= C).
    { split; [apply Rmult_le_pos; tauto|apply cmin_le; tauto]. }
    split.
    + repeat split.
      * apply Rmin_nonneg; tauto.
      * apply Rmin_l.
      * eapply Rle_trans; [apply Rmin_r|tauto].
      * apply queue_nonneg; [exact HT|apply Rmin_l].
    + intros E. assert (t3 = 0) as -> by (unfold t3; rewrite E; unfold Rdiv; ring).
      rewrite (Rmin_right r 0) by exact Hr0. rewrite Rmult_0_r. apply Rmin_right. exact Hdem.
  - assert (Hm : 0 <= Rmin 1 t3 <= 1).
    { split; [apply Rmin_nonneg; lra|apply Rmin_l]. }
    assert (Hc : 0 <= C * Rmin 1 t3 <= C).
    { split; [apply Rmult_le_pos; tauto|apply cmin_le; tauto]. }
    set (x := Rmin dem (C * Rmin 1 t3)).
    assert (Hx : 0 <= x) by (apply Rmin_nonneg; tauto).
    assert (Hxd : x <= dem) by apply Rmin_l.
    assert (HxC : x <= C) by (eapply Rle_trans; [apply Rmin_r|tauto]).
    assert (Hrx : r * x <= x) by (replace x with (1 * x) at 2 by ring; apply Rmult_le_compat_r; assumption).
    split.
    + repeat split.
      * apply Rmult_le_pos; assumption.
      * lra.
      * lra.
      * apply queue_nonneg; [exact HT|]. fold dem. lra.
    + intros E. assert (t3 = 0) as Ht by (unfold t3; rewrite E; unfold Rdiv; ring).
      unfold x. rewrite Ht. rewrite (Rmin_right 1 0) by lra. rewrite Rmult_0_r.
      rewrite (Rmin_right dem 0) by exact Hdem. ring.
Qed.

Theorem np_simp_bounds : simp_bounds (@Np.origins_get_simplifiedramp_flow R NumR).
Proof.
  intros qdes d w C rmax r1 rc T ty Hty Hq Hd Hw HT HC H1 Hrc.
  unfold Np.origins_get_simplifiedramp_flow, flow_ok. cbv zeta. numR. rewrite ?Q2R_1.
  destruct (String.eqb_spec ty "unlimited") as [E|_]; [congruence|].
  pose proof (t3_nonneg _ _ _ H1 Hrc) as Ht3. pose proof (demand_nonneg _ _ _ Hd Hw HT) as Hdem.
  set (t3 := (rmax - r1) / (rmax - rc)) in *. set (dem := d + w / T) in *.
  assert (Hm : 0 <= Rmin 1 t3 <= 1) by (split; [apply Rmin_nonneg; lra|apply Rmin_l]).
  assert (Hc : 0 <= C * Rmin 1 t3 <= C) by (split; [apply Rmult_le_pos; tauto|apply cmin_le; tauto]).
  set (x := Rmin dem (C * Rmin 1 t3)).
  assert (Hx : 0 <= x) by (apply Rmin_nonneg; tauto).
  assert (Hxd : x <= dem) by apply Rmin_l.
  assert (HxC : x <= C) by (eapply Rle_trans; [apply Rmin_r|tauto]).
  assert (Hqx : Rmin qdes x <= x) by apply Rmin_r.
  split.
  - repeat split.
    + apply Rmin_nonneg; assumption.
    + lra.
    + lra.
    + apply queue_nonneg; [exact HT|]. fold dem. lra.
  - intros E. assert (t3 = 0) as Ht by (unfold t3; rewrite E; unfold Rdiv; ring).
    unfold x. rewrite Ht. rewrite (Rmin_right 1 0) by lra. rewrite Rmult_0_r.
    rewrite (Rmin_right dem 0) by exact Hdem. apply Rmin_right. exact Hq.
Qed.

(* ---- the mainstream origin: x (-a ln x)^(1/a) <= exp(-1/a) on (0,1] ---- *)
Lemma ln_le_minus_1 b : 0 < b -> ln b <= b - 1.
Proof.
  intros Hb. pose proof (exp_ineq1_le (ln b)) as H. rewrite exp_ln in H by exact Hb. lra.
Qed.

Lemma Rpow_nonneg x y : 0 <= Rpow x y.
Proof.
  unfold Rpow. destruct (Req_EM_T x 0); [lra|]. unfold Rpower. left. apply exp_pos.
Qed.

Lemma exp_le_compat x y : x <= y -> exp x <= exp y.
Proof. intros [H|H]; [left; apply exp_increasing; exact H|right; rewrite H; reflexivity]. Qed.

Lemma phi_bound a x : 0 < a -> 0 < x <= 1 -> x * Rpow (- a * ln x) (1 / a) <= exp (- (1 / a)).
Proof.
  intros Ha [Hx0 Hx1]. unfold Rpow. destruct (Req_EM_T (- a * ln x) 0) as [E|NE].
  - rewrite Rmult_0_r. left. apply exp_pos.
  - assert (Hln : ln x <= 0).
    { destruct (Req_dec x 1) as [->|Hne]; [rewrite ln_1; lra|]. left. rewrite <- ln_1. apply ln_increasing; lra. }
    assert (Hb : 0 < - a * ln x).
    { destruct (Rle_lt_or_eq_dec _ _ Hln) as [Hlt|Heq]; [|exfalso; apply NE; rewrite Heq; ring].
      replace (- a * ln x) with (a * - ln x) by ring. apply Rmult_lt_0_compat; lra. }
    set (b := - a * ln x) in *.
    unfold Rpower. rewrite <- (exp_ln x Hx0) at 1. rewrite <- exp_plus.
    assert (Hlx : ln x = - b / a) by (unfold b; field; lra).
    apply exp_le_compat. rewrite Hlx.
    assert (Hia : 0 < 1 / a) by (apply Rmult_lt_0_compat; [lra|apply Rinv_0_lt_compat; exact Ha]).
    assert (1 / a * ln b <= 1 / a * (b - 1)).
    { apply Rmult_le_compat_l; [lra|apply ln_le_minus_1; exact Hb]. }
    replace (- (1 / a)) with (- b / a + 1 / a * (b - 1)) by (field; lra). lra.
Qed.

Theorem np_main_bounds : main_bounds (@Np.origins_get_mainstream_flow R NumR).
Proof.
  intros d w vctrl v1 rc a vf lanes T Hd Hw HT Hvc Hv1 Hrc Ha Hvf Hl.
  unfold Np.origins_get_mainstream_flow, flow_ok. cbv zeta. rewrite np_Veq_s_eq. numR.
  rewrite ?Q2R_1, Q2R_1_20.
  replace (rc / rc) with 1 by (field; lra).
  assert (HR1 : Rpow 1 a = 1).
  { unfold Rpow. destruct (Req_EM_T 1 0); [lra|]. unfold Rpower. rewrite ln_1, Rmult_0_r. apply exp_0. }
  rewrite HR1. replace (-1 / a * 1) with (- (1 / a)) by (unfold Rdiv; ring).
  pose proof (demand_nonneg _ _ _ Hd Hw HT) as Hdem. set (dem := d + w / T) in *.
  set (Vc := vf * exp (- (1 / a))). set (vlim := Rmin vctrl v1).
  assert (HVc : 0 < Vc) by (apply Rmult_lt_0_compat; [exact Hvf|apply exp_pos]).
  assert (Hvl : 0 <= vlim) by (apply Rmin_glb; assumption).
  set (ratio := Rmax (/ 20) (Rmin 1 (vlim / vf))).
  set (qcap := lanes * Vc * rc).
  assert (Hqcap : 0 <= qcap) by (unfold qcap; apply Rmult_le_pos; [apply Rmult_le_pos; lra|lra]).
  set (qsp := lanes * vlim * rc * Rpow (- a * ln ratio) (1 / a)).
  assert (Hqsp0 : 0 <= qsp).
  { unfold qsp. apply Rmult_le_pos; [|apply Rpow_nonneg].
    apply Rmult_le_pos; [apply Rmult_le_pos; assumption|lra]. }
  assert (Hqsp : vlim < Vc -> qsp <= qcap).
  { intros Hlt.
    assert (Hr01 : 0 < ratio <= 1).
    { unfold ratio. split.
      - eapply Rlt_le_trans; [|apply Rmax_l]. lra.
      - apply Rmax_lub; [lra|apply Rmin_l]. }
    assert (Hvr : vlim <= vf * ratio).
    { unfold ratio. assert (Hx1 : vlim / vf < 1).
      { apply (Rmult_lt_reg_r vf); [exact Hvf|]. unfold Rdiv. rewrite Rmult_assoc, Rinv_l by lra.
        assert (Vc <= vf).
        { unfold Vc. replace vf with (vf * 1) at 2 by ring. apply Rmult_le_compat_l; [lra|].
          assert (0 < 1 / a) by (apply Rmult_lt_0_compat; [lra|apply Rinv_0_lt_compat; exact Ha]).
          apply Rle_trans with (exp 0); [apply exp_le_compat; lra|rewrite exp_0; lra]. }
        lra. }
      rewrite (Rmin_right 1 (vlim / vf)) by lra.
      eapply Rle_trans; [|apply Rmult_le_compat_l; [lra|apply Rmax_r]].
      right. field. lra. }
    unfold qsp, qcap, Vc.
    pose proof (phi_bound a ratio Ha Hr01) as Hphi.
    pose proof (Rpow_nonneg (- a * ln ratio) (1 / a)) as Hp0.
    set (pw := Rpow (- a * ln ratio) (1 / a)) in *.
    assert (vlim * pw <= vf * exp (- (1 / a))).
    { eapply Rle_trans; [apply Rmult_le_compat_r; [exact Hp0|exact Hvr]|].
      rewrite Rmult_assoc. apply Rmult_le_compat_l; lra. }
    replace (lanes * vlim * rc * pw) with (lanes * rc * (vlim * pw)) by ring.
    replace (lanes * (vf * exp (- (1 / a))) * rc) with (lanes * rc * (vf * exp (- (1 / a)))) by ring.
    apply Rmult_le_compat_l; [apply Rmult_le_pos; lra|assumption]. }
  assert (Hlim : 0 <= (if Rlt_dec vlim Vc then qsp else qcap) <= qcap).
  { destruct (Rlt_dec vlim Vc) as [Hlt|_]; split; try lra. }
  change (@iflt R NumR vlim Vc qsp qcap) with (if Rlt_dec vlim Vc then qsp else qcap).
  set (qlim := if Rlt_dec vlim Vc then qsp else qcap) in *.
  repeat split.
  - apply Rmin_glb; tauto.
  - apply Rmin_l.
  - eapply Rle_trans; [apply Rmin_r|tauto].
  - apply queue_nonneg; [exact HT|]. fold dem. apply Rmin_l.
Qed.

(* ---- the CasADi-derived definitions are the same functions ---- *)
Theorem cs_ramp_bounds : ramp_bounds (@Cs.origins_get_ramp_flow R NumR).
Proof.
  intros d w C r rmax r1 rc T ty. rewrite <- eq_origins_get_ramp_flow. apply np_ramp_bounds.
Qed.
Theorem cs_simp_bounds : simp_bounds (@Cs.origins_get_simplifiedramp_flow R NumR).
Proof.
  intros qdes d w C rmax r1 rc T ty. rewrite <- eq_origins_get_simplifiedramp_flow. apply np_simp_bounds.
Qed.
Theorem cs_main_bounds : main_bounds (@Cs.origins_get_mainstream_flow R NumR).
Proof.
  intros d w vctrl v1 rc a vf lanes T. rewrite <- eq_origins_get_mainstream_flow. apply np_main_bounds.
Qed.
Theorem np_queue_law : queue_law (@Np.origins_step_queue R NumR).
Proof. intros w d q T. reflexivity. Qed.
Theorem cs_queue_law : queue_law (@Cs.origins_step_queue R NumR).
Proof. intros w d q T. reflexivity. Qed.

(* ---- network level ---- *)
From Coq Require Import List QArith Qreals.
From SM Require Import Graph Engine Expr Types Blocks.
Local Open Scope R_scope.

Theorem np_queues_nonneg : queues_stay_nonneg (@np_engine R NumR).
Proof.
  intros U P g st o m w' Hm (Hd & Hw & HT & HC & Hr1 & Hrc & Hv1 & Hrc0 & Ha & Hvf & Hl & Hk).
  unfold origin_step, origin_flow. rewrite Hm. cbn [bind].
  assert (Hz : @zero R NumR = 0) by apply zeroR.
  destruct (okind_of U o) as [| |is_in|[|]] eqn:K; try contradiction;
    cbn [is_queued bind pn_w no_options e_step_w e_main e_ramp e_simp np_engine];
    intros H; match type of H with Ok (Some ?x) = _ => assert (Hw' : w' = x) by congruence; rewrite Hw'; clear H Hw' end.
  - rewrite np_queue_law. unfold vfirst. rewrite Hz.
    assert (Hlan : 0 <= lanes U m).
    { unfold lanes. change (@ofQ R NumR) with Q2R. rewrite <- Q2R_0. apply Qle_Rle. exact Hl. }
    destruct (np_main_bounds (s_do st o) (s_w st o) (s_uo st o) (nth 0 (s_v st m) 0) (lp P m Prhocrit)
                (lp P m Pa) (lp P m Pvfree) (lanes U m) (gT P)) as (_ & _ & _ & H); try assumption.
  - rewrite np_queue_law. unfold vfirst. rewrite Hz.
    destruct (np_ramp_bounds (s_do st o) (s_w st o) (ocap P o) (s_uo st o) (lp P m Prhomax)
                (nth 0 (s_rho st m) 0) (lp P m Prhocrit) (gT P)
                (if is_in then "in"%string else "out"%string)) as ((_ & _ & _ & H) & _); try assumption.
  - rewrite np_queue_law. unfold vfirst. rewrite Hz.
    destruct (np_simp_bounds (s_uo st o) (s_do st o) (s_w st o) (ocap P o) (lp P m Prhomax)
                (nth 0 (s_rho st m) 0) (lp P m Prhocrit) (gT P) "limited"%string)
      as ((_ & _ & _ & H) & _); try assumption. discriminate.
Qed.

From SM.proofs Require Import StepSpec.
Theorem cs_queues_nonneg : queues_stay_nonneg (@cs_engine R NumR).
Proof. rewrite cs_engine_eq_np. exact np_queues_nonneg. Qed.
