(* InitVarsFacts.v - the effect table read off the init_vars of blocks/*.py is the one the models were written from *)
From Coq Require Import List String Bool.
From SM.specs Require Import InitVars_spec.
From SM.gen Require Import InitVars.
Import ListNotations.
Open Scope string_scope.

Lemma init_effects_expected : init_vars_as_modelled init_effects.
Proof. reflexivity. Qed.

Lemma forall_table (t : list (string * list effect)) (Q : string -> list effect -> Prop) :
  Forall (fun ce => Q (fst ce) (snd ce)) t -> forall c effs, In (c, effs) t -> Q c effs.
Proof. intros H c effs Hin. rewrite Forall_forall in H. exact (H (c, effs) Hin). Qed.

Lemma own_names : every_variable_under_its_own_name init_effects.
Proof.
  intros c effs e Hin He.
  assert (H : forallb (fun ce => forallb own_keyb (snd ce)) init_effects = true) by (vm_compute; reflexivity).
  rewrite forallb_forall in H. specialize (H _ Hin). cbn [snd] in H. rewrite forallb_forall in H. exact (H e He).
Qed.

Lemma clamps_documented : clamps_are_the_documented_ones init_effects.
Proof.
  unfold clamps_are_the_documented_ones. rewrite init_effects_expected.
  apply (forall_table _ (fun c effs => clamps_of effs = documented_clamps c)). unfold expected_init_effects.
  repeat constructor.
Qed.

Lemma next_dropped : states_bound_means_next_dropped init_effects.
Proof.
  intros c effs Hin.
  assert (H : forallb (fun ce => implb (sets_states (snd ce)) (has_reset (snd ce)) && reset_before_clamps false (snd ce))
                init_effects = true) by (vm_compute; reflexivity).
  rewrite forallb_forall in H. specialize (H _ Hin). cbn [snd] in H.
  apply andb_true_iff in H. destruct H as [H1 H2]. split; [|exact H2].
  intros Hs. rewrite Hs in H1. exact H1.
Qed.

Lemma actions_documented : control_inputs_as_documented init_effects.
Proof.
  unfold control_inputs_as_documented. rewrite init_effects_expected.
  apply (forall_table _ (fun c effs => final_keys "actions" [] effs = documented_actions c)). unfold expected_init_effects.
  repeat constructor.
Qed.
