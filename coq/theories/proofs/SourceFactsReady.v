From Coq Require Import List ZArith Bool Lia ZifyBool.
From SM.gen Require Import Tables.
From SM.specs Require Import SourceFacts_spec.

Theorem readiness_scan_as_modelled_proof : readiness_scan_as_modelled.
Proof. vm_compute. reflexivity. Qed.
