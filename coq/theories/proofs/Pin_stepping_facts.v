From Coq Require Import List String.
From SM.specs Require Import Pin_stepping_spec.
From SM.gen Require Import Pin_stepping.

Lemma pin_stepping_expected : stepping_source_as_modelled pin_stepping.
Proof. reflexivity. Qed.
