From Coq Require Import List String.
From SM.specs Require Import Pin_cache_spec.
From SM.gen Require Import Pin_cache.

Lemma pin_cache_expected : cache_source_as_modelled pin_cache.
Proof. reflexivity. Qed.
