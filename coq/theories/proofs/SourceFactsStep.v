From Coq Require Import List ZArith Bool Lia ZifyBool.
From SM.gen Require Import Tables.
From SM.specs Require Import SourceFacts_spec.

Theorem options_default_off_proof : options_default_off.
Proof. split; vm_compute; reflexivity. Qed.
Theorem step_phases_as_modelled_proof : step_phases_as_modelled.
Proof. vm_compute. reflexivity. Qed.
