(* LookupsFacts.v - the look-up bodies read off network.py / views.py are the ones the models were written from *)
From Coq Require Import List String.
From SM.specs Require Import Lookups_spec.
From SM.gen Require Import Lookups.

Lemma lookup_bodies_expected : lookups_as_modelled lookup_bodies.
Proof. reflexivity. Qed.
