From Coq Require Import Reals List Lia Lra Bool Arith.
From SM Require Import Num NumR Graph Expr Types Spec Validity.
From SM.specs Require Import GraphWF C02_spec.
From SM.proofs Require Import VecR ValidFacts.
From Coq Require Import List.
Import ListNotations.
Local Open Scope R_scope.

Lemma ssum_is_Rsum {T} (f : T -> R) (l : list T) : ssum f l = Rsum (map f l).
Proof.
  unfold ssum. induction l as [|x l IH]; cbn [fold_right map Rsum]; [apply zeroR|].
  rewrite IH. reflexivity.
Qed.

Lemma Rsum_map_ext {T} (f h : T -> R) l : (forall x, In x l -> f x = h x) -> Rsum (map f l) = Rsum (map h l).
Proof.
  induction l as [|x l IH]; intros H; cbn [map Rsum fold_right]; [reflexivity|].
  unfold Rsum in *. cbn [fold_right]. rewrite (H x (or_introl eq_refl)), IH; [reflexivity|].
  intros; apply H; right; auto.
Qed.
Lemma Rsum_map_plus {T} (f h : T -> R) l :
  Rsum (map (fun x => f x + h x) l) = Rsum (map f l) + Rsum (map h l).
Proof. induction l as [|x l IH]; unfold Rsum in *; cbn [map fold_right]; [lra|]. rewrite IH. lra. Qed.
Lemma Rsum_map_minus {T} (f h : T -> R) l :
  Rsum (map (fun x => f x - h x) l) = Rsum (map f l) - Rsum (map h l).
Proof. induction l as [|x l IH]; unfold Rsum in *; cbn [map fold_right]; [lra|]. rewrite IH. lra. Qed.
Lemma Rsum_map_scal {T} (c : R) (f : T -> R) l : Rsum (map (fun x => c * f x) l) = c * Rsum (map f l).
Proof. induction l as [|x l IH]; unfold Rsum in *; cbn [map fold_right]; [lra|]. rewrite IH. lra. Qed.
Lemma Rsum_map_zero {T} (l : list T) : Rsum (map (fun _ => 0) l) = 0.
Proof. induction l as [|x l IH]; unfold Rsum in *; cbn [map fold_right]; [lra|]. rewrite IH. lra. Qed.

(* a sum over the keys of an indicator picks the value once *)
Lemma Rsum_indicator (ns : list nat) k x :
  NoDup ns -> In k ns -> Rsum (map (fun n => if Nat.eqb n k then x else 0) ns) = x.
Proof.
  induction ns as [|a ns IH]; intros Hnd Hin; [destruct Hin|].
  inversion Hnd as [|? ? Hnin Hnd']; subst. unfold Rsum in *. cbn [map fold_right].
  destruct (Nat.eqb_spec a k) as [->|Hne].
  - rewrite (Rsum_map_ext _ (fun _ => 0)).
    + fold (Rsum (map (fun _ : nat => 0) ns)). rewrite Rsum_map_zero. lra.
    + intros y Hy. destruct (Nat.eqb_spec y k) as [->|]; [contradiction|reflexivity].
  - destruct Hin as [->|Hin]; [congruence|]. rewrite (IH Hnd' Hin). lra.
Qed.

(* re-indexing a sum over edges by a key (upstream or downstream node) *)
Lemma reindex (key : edge -> nat) (f : edge -> R) (ns : list nat) (es : list edge) :
  NoDup ns -> (forall e, In e es -> In (key e) ns) ->
  Rsum (map f es) =
  Rsum (map (fun n => Rsum (map f (filter (fun e => Nat.eqb (key e) n) es))) ns).
Proof.
  intros Hnd. induction es as [|e es IH]; intros Hk.
  - cbn [filter map]. rewrite Rsum_map_zero. reflexivity.
  - cbn [map filter]. change (Rsum (f e :: map f es)) with (f e + Rsum (map f es)).
    rewrite IH by (intros; apply Hk; right; auto).
    rewrite <- (Rsum_indicator ns (key e) (f e) Hnd (Hk e (or_introl eq_refl))) at 1.
    rewrite <- Rsum_map_plus. apply Rsum_map_ext. intros n _.
    rewrite (Nat.eqb_sym n (key e)).
    destruct (Nat.eqb (key e) n); cbn [map]; unfold Rsum; cbn [fold_right]; lra.
Qed.

Section Cons.
Variable U : universe.
Variable P : params R.
Variable g : graph.
Variable st : state R.
Hypothesis WFG : wf_graph g.
Hypothesis VF : vfacts U g.
Hypothesis HLL : forall e, In e (g_edges g) -> lp P (e_link e) PL * slam U (e_link e) <> 0.
Hypothesis HS : forall e, In e (g_edges g) -> ssum (sturn P) (out_links g (e_up e)) <> 0.
Hypothesis HN : forall e, In e (g_edges g) -> (1 <= sN U (e_link e))%nat.

Lemma out_edge n e : In e (out_links g n) -> In e (g_edges g) /\ e_up e = n.
Proof. unfold out_links. intros H. apply filter_In in H. destruct H as [H1 H2].
  apply Nat.eqb_eq in H2. auto. Qed.
Lemma in_edge n e : In e (in_links g n) -> In e (g_edges g) /\ e_down e = n.
Proof. unfold in_links. intros H. apply filter_In in H. destruct H as [H1 H2].
  apply Nat.eqb_eq in H2. auto. Qed.

Theorem node_balance_proof n : out_links g n <> [] -> node_balance U P g st n.
Proof.
  intros Hne. unfold node_balance.
  destruct (out_links g n) as [|e0 l0] eqn:E; [congruence|].
  assert (He0 : In e0 (g_edges g) /\ e_up e0 = n) by (apply out_edge; rewrite E; left; reflexivity).
  destruct He0 as [He0 Hu0]. pose proof (HS _ He0) as HS0. rewrite Hu0, E in HS0.
  rewrite <- E in *.
  rewrite (Rsum_map_ext (sinflow U P g st)
             (fun e => / ssum (sturn P) (out_links g n) * snode_Q U P g st n * sturn P e)).
  2:{ intros e He. destruct (out_edge _ _ He) as [_ Hu]. unfold sinflow. rewrite Hu.
      change (@mul R NumR) with Rmult. change (@div R NumR) with Rdiv. unfold Rdiv. ring. }
  rewrite Rsum_map_scal.
  unfold snode_Q. rewrite !ssum_is_Rsum in *. change (@add R NumR) with Rplus.
  field. exact HS0.
Qed.

(* telescoping inside a link *)
Lemma telescope (f : nat -> R) (a : R) N :
  Rsum (map (fun i => (if Nat.eqb i 0 then a else f (i - 1)%nat) - f i) (seq 0 (S N))) = a - f N.
Proof.
  induction N as [|N IH].
  - unfold Rsum. cbn. lra.
  - rewrite seq_S, map_app, Rsum_app, IH. cbn [map plus]. unfold Rsum. cbn [fold_right].
    replace (Nat.eqb (S N) 0) with false by reflexivity.
    replace (S N - 1)%nat with N by lia. lra.
Qed.

Lemma link_delta e : In e (g_edges g) ->
  link_vehicles_delta U P g st e = gT P * (sinflow U P g st e - slast_q U st e).
Proof.
  intros He. unfold link_vehicles_delta, slast_q, slastseg.
  pose proof (HN _ He) as H1. destruct (sN U (e_link e)) as [|N] eqn:EN; [lia|].
  rewrite (Rsum_map_ext _ (fun i => gT P * ((if Nat.eqb i 0 then sinflow U P g st e
                                             else sflow U st (e_link e) (i - 1)) - sflow U st (e_link e) i))).
  - rewrite Rsum_map_scal, telescope. replace (S N - 1)%nat with N by lia. reflexivity.
  - intros i _. unfold spec_rho_next, sq_up.
    change (@mul R NumR) with Rmult. change (@div R NumR) with Rdiv.
    change (@add R NumR) with Rplus. change (@sub R NumR) with Rminus.
    pose proof (HLL _ He) as Hll. field. split; intros Hz; apply Hll; rewrite Hz; ring.
Qed.

Lemma snode_origin_flow_split n :
  snode_origin_flow U P g st n =
  at_origin g n (fun o m => if is_queued (okind_of U o) then sorigin_flow U P st o m else 0)
  + ideal_inflow U P g st n.
Proof.
  unfold snode_origin_flow, ideal_inflow, at_origin.
  destruct (origin_at g n); [|rewrite zeroR; lra]. destruct (out_links g n); [rewrite zeroR; lra|].
  destruct (is_queued _); lra.
Qed.

Lemma queue_delta_eq n :
  queue_delta U P g st n =
  gT P * (demand U g st n
          - at_origin g n (fun o m => if is_queued (okind_of U o) then sorigin_flow U P st o m else 0)).
Proof.
  unfold queue_delta, demand, at_origin.
  destruct (origin_at g n); [|lra]. destruct (out_links g n); [lra|].
  destruct (is_queued _); [|lra]. unfold spec_w_next.
  change (@mul R NumR) with Rmult. change (@add R NumR) with Rplus. change (@sub R NumR) with Rminus. ring.
Qed.

Theorem network_balance_proof : network_balance U P g st.
Proof.
  unfold network_balance. cbv zeta. set (ns := map nid (g_nodes g)).
  destruct WFG as [Hnd Hends].
  rewrite (Rsum_map_ext (link_vehicles_delta U P g st)
             (fun e => gT P * (sinflow U P g st e - slast_q U st e))) by (intros; apply link_delta; auto).
  rewrite Rsum_map_scal, Rsum_map_minus.
  (* inflows, re-indexed by upstream node *)
  rewrite (reindex e_up (sinflow U P g st) ns (g_edges g) Hnd) by (intros e He; apply (Hends e He)).
  change (fun n => Rsum (map (sinflow U P g st) (filter (fun e => Nat.eqb (e_up e) n) (g_edges g))))
    with (fun n => Rsum (map (sinflow U P g st) (out_links g n))).
  (* last-segment flows, re-indexed by downstream node *)
  rewrite (reindex e_down (slast_q U st) ns (g_edges g) Hnd) by (intros e He; apply (Hends e He)).
  change (fun n => Rsum (map (slast_q U st) (filter (fun e => Nat.eqb (e_down e) n) (g_edges g))))
    with (fun n => Rsum (map (slast_q U st) (in_links g n))).
  rewrite (reindex e_down (exit_flow U g st) ns (g_edges g) Hnd) by (intros e He; apply (Hends e He)).
  rewrite (Rsum_map_ext (queue_delta U P g st) _ ns (fun n _ => queue_delta_eq n)).
  rewrite Rsum_map_scal, Rsum_map_minus.
  (* per node *)
  assert (Hnode : forall n, In n ns ->
            Rsum (map (sinflow U P g st) (out_links g n)) - Rsum (map (slast_q U st) (in_links g n)) =
            snode_origin_flow U P g st n
            - Rsum (map (exit_flow U g st) (filter (fun e => Nat.eqb (e_down e) n) (g_edges g)))).
  { intros n Hn. fold (in_links g n).
    destruct (dest_at g n) as [d|] eqn:Hd.
    - rewrite (vf_dest_out _ _ VF _ _ Hd). cbn [map].
      assert (origin_at g n = None) as Ho.
      { destruct (origin_at g n) as [o|] eqn:Ho; [|reflexivity].
        destruct (vf_orig_out _ _ VF _ _ Ho) as [e1 H1]. rewrite (vf_dest_out _ _ VF _ _ Hd) in H1.
        discriminate. }
      unfold snode_origin_flow. rewrite Ho, zeroR.
      rewrite (Rsum_map_ext (exit_flow U g st) (slast_q U st)).
      + unfold Rsum. cbn [fold_right]. lra.
      + intros e He. destruct (in_edge _ _ He) as [_ Hdn]. unfold exit_flow. rewrite Hdn, Hd. reflexivity.
    - rewrite (Rsum_map_ext (exit_flow U g st) (fun _ => 0)).
      2:{ intros e He. destruct (in_edge _ _ He) as [_ Hdn]. unfold exit_flow. rewrite Hdn, Hd. reflexivity. }
      rewrite Rsum_map_zero.
      destruct (out_links g n) as [|e0 l0] eqn:E.
      + (* no leaving link and no destination: impossible for a node that has an entering link;
           a node without any link has nothing to balance *)
        destruct (in_links g n) as [|e1 l1] eqn:E1.
        * cbn [map]. unfold Rsum. cbn [fold_right]. unfold snode_origin_flow. rewrite E.
          destruct (origin_at g n); rewrite zeroR; lra.
        * exfalso. assert (In e1 (in_links g n)) as H1 by (rewrite E1; left; reflexivity).
          destruct (in_edge _ _ H1) as [He1 Hdn]. apply (vf_sink _ _ VF e1 He1); rewrite Hdn; assumption.
      + rewrite <- E. rewrite (node_balance_proof n) by (rewrite E; discriminate). lra. }
  rewrite <- Rsum_map_minus. rewrite (Rsum_map_ext _ _ ns Hnode). rewrite Rsum_map_minus.
  rewrite (Rsum_map_ext _ _ ns (fun n _ => snode_origin_flow_split n)). rewrite Rsum_map_plus.
  lra.
Qed.
End Cons.

Theorem conservation_proof : conservation.
Proof.
  intros U P g st WFG V HLL HS HN. pose proof (validb_vfacts U g WFG V) as VF. split.
  - intros n Hn. apply node_balance_proof; assumption.
  - apply network_balance_proof; assumption.
Qed.
