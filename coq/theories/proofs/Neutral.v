From Coq Require Import Reals Qreals List Lia Lra String Arith.
From SM Require Import Num NumR Graph Engine Expr Types Blocks Spec.
From SM.gen Require Import EnginesNp EnginesCs.
From SM.specs Require Import C18_spec.
From SM.proofs Require Import VecR PrimR EnginesEq StepSpec.
From Coq Require Import List.
Import ListNotations.
Local Open Scope R_scope.

Lemma nth_ext_R (a b : list R) : length a = length b ->
  (forall i, (i < length a)%nat -> nth i a 0 = nth i b 0) -> a = b.
Proof.
  revert b; induction a as [|x a IH]; intros [|y b] HL H; simpl in HL; try lia; [reflexivity|].
  f_equal.
  - apply (H O). simpl. lia.
  - apply IH; [lia|]. intros i Hi. apply (H (S i)). simpl. lia.
Qed.

Lemma index_of_nth_NoDup vsl k : NoDup vsl -> (k < length vsl)%nat -> index_of (nth k vsl O) vsl = Some k.
Proof.
  revert k; induction vsl as [|x vsl IH]; intros k Hnd Hk; [simpl in Hk; lia|].
  inversion Hnd as [|? ? Hnin Hnd']; subst. destruct k as [|k]; simpl.
  - rewrite Nat.eqb_refl. reflexivity.
  - destruct (Nat.eqb_spec x (nth k vsl O)) as [E|NE].
    + exfalso. apply Hnin. rewrite E. apply nth_In. simpl in Hk. lia.
    + rewrite IH by (simpl in Hk; auto; lia). reflexivity.
Qed.

Theorem np_neutral_limits : neutral_limits_are_plain (@Np.links_Veq R NumR) (@Np.links_controlled_Veq R NumR).
Proof.
  intros rho vc vsl al vf rc a (Hnd & Hlt & Hlen) Hneu.
  apply nth_ext_R.
  - rewrite np_cVeq_length, np_Veq_length. reflexivity.
  - intros i Hi. rewrite np_cVeq_length in Hi.
    rewrite np_cVeq_nth by assumption. rewrite np_Veq_nth by exact Hi.
    destruct (index_of i vsl) as [k|] eqn:E; [|reflexivity].
    destruct (index_of_Some_lt _ _ _ E) as [Hk Hik].
    specialize (Hneu k Hk). rewrite Hik, np_Veq_nth in Hneu by exact Hi.
    apply Rmin_left. exact Hneu.
Qed.

Theorem np_limits_only_lower : limits_only_lower (@Np.links_Veq R NumR) (@Np.links_controlled_Veq R NumR).
Proof.
  intros rho vc vsl al vf rc a i (Hnd & Hlt & Hlen) Hi.
  rewrite np_cVeq_nth by assumption. rewrite np_Veq_nth by exact Hi. split.
  - destruct (index_of i vsl); [apply Rmin_l|lra].
  - intros Hnin. apply index_of_None in Hnin. rewrite Hnin. reflexivity.
Qed.

Theorem np_speed_monotone : speed_update_monotone (@Np.links_step_speed R NumR).
Proof.
  intros v vu r rd V V' lanes L tau eta kappa T qr de ld ph rc i HT Hi H1 H2 H3 H4 H4' HV.
  rewrite !np_step_speed_nth by assumption. unfold ss_base.
  assert (T / tau * (nth i V' 0 - nth i v 0) <= T / tau * (nth i V 0 - nth i v 0))
    by (apply Rmult_le_compat_l; lra).
  lra.
Qed.

Theorem np_rate_one : rate_one_variants_coincide (@Np.origins_get_ramp_flow R NumR).
Proof.
  intros d w C rmax r1 rc T. unfold Np.origins_get_ramp_flow. cbv zeta.
  cbn [String.eqb Ascii.eqb Bool.eqb]. numR. rewrite ?Q2R_1. ring.
Qed.

Theorem np_unbounded_qdes :
  unbounded_desired_flow_is_rate_one (@Np.origins_get_ramp_flow R NumR)
                                     (@Np.origins_get_simplifiedramp_flow R NumR).
Proof.
  intros qdes d w C rmax r1 rc T. unfold Np.origins_get_ramp_flow, Np.origins_get_simplifiedramp_flow.
  cbv zeta. cbn [String.eqb Ascii.eqb Bool.eqb]. numR. rewrite ?Q2R_1. rewrite Rmult_1_l.
  intros H. apply Rmin_right. exact H.
Qed.

Theorem np_main_neutral : mainstream_limit_neutral (@Np.origins_get_mainstream_flow R NumR).
Proof.
  intros d w vctrl v1 rc a vf lanes T H. unfold Np.origins_get_mainstream_flow. cbv zeta. numR.
  rewrite (Rmin_right vctrl v1) by exact H. rewrite (Rmin_left v1 v1) by lra. reflexivity.
Qed.

Theorem np_neutral_controls :
  neutral_controls (@Np.links_Veq R NumR) (@Np.links_controlled_Veq R NumR) (@Np.links_step_speed R NumR)
                   (@Np.origins_get_ramp_flow R NumR) (@Np.origins_get_simplifiedramp_flow R NumR)
                   (@Np.origins_get_mainstream_flow R NumR).
Proof.
  unfold neutral_controls.
  exact (conj np_neutral_limits (conj np_limits_only_lower (conj np_speed_monotone
          (conj np_rate_one (conj np_unbounded_qdes np_main_neutral))))).
Qed.

(* ---- link level ---- *)
Notation E := (@np_engine R NumR).

Theorem np_plain_link : plain_link_uses_Veq E.
Proof. intros U P g st m H. unfold link_raw, link_Veq. rewrite H. reflexivity. Qed.

Theorem np_neutral_link : neutral_link_steps_like_plain E.
Proof.
  intros U P g st m vsl Hv Hok Hneu. unfold link_raw, link_Veq. rewrite Hv.
  cbn [e_cVeq e_Veq np_engine] in *. rewrite (np_neutral_limits _ _ _ _ _ _ _ Hok Hneu). reflexivity.
Qed.

Theorem np_limited_never_faster : limited_link_never_faster E.
Proof.
  intros U P g st m vsl r v r0 v0 Hv Hok HT Lv LN H1.
  unfold link_raw, link_Veq. rewrite Hv. unfold link_raw_V.
  destruct (nodes_of_link g m) as [[nu nd]|]; [|discriminate]. cbn [bind fst snd].
  destruct (node_up_speed_flow E U P g st nu m) as [[v0' q0']|]; [|discriminate]. cbn [bind fst snd].
  destruct (node_down_density E U P g st nd) as [rN|]; [|discriminate]. cbn [bind].
  match goal with |- context [bind ?X _] => destruct X as [qr|]; [|discriminate] end. cbn [bind].
  match goal with |- Ok (?a, ?b) = _ -> Ok (?c, ?d) = _ -> _ =>
    intros HA HB; assert (Hr : r = a) by congruence; assert (Hv' : v = b) by congruence;
    assert (Hr0 : r0 = c) by congruence; assert (Hv0 : v0 = d) by congruence end.
  rewrite Hr, Hv', Hr0, Hv0. clear HA HB Hr Hv' Hr0 Hv0.
  split; [reflexivity|]. intros i Hi.
  cbn [e_step_v e_cVeq e_Veq np_engine].
  rewrite LN.
  rewrite (shift_up _ _ _ H1 Lv), (shift_down _ _ _ H1 eq_refl).
  apply np_speed_monotone; try assumption.
  - rewrite Lv. exact Hi.
  - cbn [length]. rewrite vinit_length. lia.
  - symmetry. exact Lv.
  - rewrite app_length, vtail_length. cbn [length]. lia.
  - rewrite np_Veq_length. symmetry. exact Lv.
  - rewrite np_cVeq_length. symmetry. exact Lv.
  - apply np_limits_only_lower; assumption.
Qed.

(* ---- CasADi-derived definitions: the same functions ---- *)
Theorem cs_neutral_controls :
  neutral_controls (@Cs.links_Veq R NumR) (@Cs.links_controlled_Veq R NumR) (@Cs.links_step_speed R NumR)
                   (@Cs.origins_get_ramp_flow R NumR) (@Cs.origins_get_simplifiedramp_flow R NumR)
                   (@Cs.origins_get_mainstream_flow R NumR).
Proof.
  pose proof (@cs_engine_eq_np R NumR) as H.
  assert (H1 : @Cs.links_Veq R NumR = Np.links_Veq) by (apply (f_equal (@e_Veq R)) in H; exact H).
  assert (H2 : @Cs.links_controlled_Veq R NumR = Np.links_controlled_Veq) by (apply (f_equal (@e_cVeq R)) in H; exact H).
  assert (H3 : @Cs.links_step_speed R NumR = Np.links_step_speed) by (apply (f_equal (@e_step_v R)) in H; exact H).
  assert (H4 : @Cs.origins_get_ramp_flow R NumR = Np.origins_get_ramp_flow) by (apply (f_equal (@e_ramp R)) in H; exact H).
  assert (H5 : @Cs.origins_get_simplifiedramp_flow R NumR = Np.origins_get_simplifiedramp_flow) by (apply (f_equal (@e_simp R)) in H; exact H).
  assert (H6 : @Cs.origins_get_mainstream_flow R NumR = Np.origins_get_mainstream_flow) by (apply (f_equal (@e_main R)) in H; exact H).
  rewrite H1, H2, H3, H4, H5, H6. exact np_neutral_controls.
Qed.
Theorem cs_plain_link : plain_link_uses_Veq (@cs_engine R NumR).
Proof. rewrite cs_engine_eq_np. exact np_plain_link. Qed.
Theorem cs_neutral_link : neutral_link_steps_like_plain (@cs_engine R NumR).
Proof. rewrite cs_engine_eq_np. exact np_neutral_link. Qed.
Theorem cs_limited_never_faster : limited_link_never_faster (@cs_engine R NumR).
Proof. rewrite cs_engine_eq_np. exact np_limited_never_faster. Qed.
