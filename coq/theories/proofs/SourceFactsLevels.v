From Coq Require Import List ZArith Bool Lia ZifyBool.
From SM.gen Require Import Tables.
From SM.specs Require Import SourceFacts_spec.

(* whatever comparisons the helpers use (<=, <, ==, >, >=): split on each test, arithmetic decides *)
Ltac split_ifs := repeat match goal with |- context [if ?b then _ else _] => destruct b eqn:? end.
Theorem helpers_use_documented_levels_proof : helpers_use_documented_levels.
Proof.
  intros c. unfold gen_level_inputs, gen_level_outputs, gen_level_flows, gen_level_parameters, doc_level.
  repeat split; split_ifs; cbn [Nat.min]; lia.
Qed.
Theorem model_level_is_documented_proof : model_level_is_documented.
Proof. intros n. unfold doc_level. split_ifs; lia. Qed.
Theorem parameters_separate_iff_level_le_0_proof : parameters_separate_iff_level_le_0.
Proof. intros c. unfold gen_level_parameters. split_ifs; lia. Qed.
